#!/bin/bash
# tools/ambient_matrix.sh [seed-ids...] — for each seeded change: the ambient shard (repository's own tests under the property's monitors) alone, against the changed tree
cd "$(dirname "$0")/.."
V=$PWD
ids=${@:-$(ls seeded | grep '^S-')}
run_one() {
  id=$1; V=$2
  prop=$(python3 -c "import json; print(json.load(open('$V/seeded/$id/meta.json'))['property'])")
  wt=/tmp/am_$id
  git -C /repo worktree add -q --detach $wt HEAD 2>/dev/null || { echo "AMBIENT $id: cannot create worktree"; return; }
  if git -C $wt apply $V/seeded/$id/patch.diff 2>/dev/null; then
    out=/tmp/am_$id.json
    (cd $V && NUMBA_DISABLE_JIT=1 DISABLE_PREFERENCES=1 FILTER_WARNINGS=1 VERIF_REPO=$wt PYTHONPATH=$wt:$V:$V/.deps PYTHONHASHSEED=0 PYTHONDONTWRITEBYTECODE=1 timeout 600 /venv/bin/python -m vt.ambient_shard $prop --out $out >/dev/null 2>&1)
    python3 - <<PY
import json,os
try:
    d=json.load(open('$out')); print('AMBIENT $id target=$prop evaluations=%d violations=%s' % (d['evaluations'], sorted(d['viol_counts'])[:3]))
except Exception as e: print('AMBIENT $id target=$prop no result', e)
PY
    rm -f $out
  else echo "AMBIENT $id: patch does not apply"; fi
  git -C /repo worktree remove --force $wt
}
export -f run_one
printf '%s\n' $ids | xargs -P 4 -I{} bash -c "run_one {} $V"
git -C /repo worktree prune
