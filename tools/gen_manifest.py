#!/usr/bin/env python3
"""Regenerates MANIFEST.json from the table below (claimed checks = workloads that exist)."""
import json, os, subprocess
V = os.path.dirname(os.path.dirname(os.path.abspath(__file__)))
TEXT = {
 'C09': ('differential runtime monitor: real sparse objects vs NumPy twins (single operations, indexing, reductions, rejections, aliasing histories, bounded enumeration) + stored-entry invariant after every operation',
         'Exploration: every operation of the decided domain D is executed on the real SparseVector/SparseLogicalVector/SparseArray and on NumPy twins; dense images, operand preservation, rejections and the stored-entries invariant are compared after each call, over random cases, 5-30 step aliasing histories and a bounded exhaustive enumeration (alphabet {0,1,-1,0.5}, vectors<=3, arrays<=2x2). Held-on-what-was-observed only.',
         'NumPy is the reference; operations where NumPy raises or gives inf/nan are not judged; numba disabled as in the repository test configuration.'),
}
def main():
    fixes = subprocess.run(['git', '-C', '/repo', 'log', '--format=%h %s'], capture_output=True, text=True).stdout.splitlines()
    checks = []
    na = []
    for i in range(1, 21):
        pid = f'C{i:02d}'
        if pid in TEXT and os.path.exists(os.path.join(V, 'vt', 'workloads', pid.lower() + '.py')):
            tech, text, note = TEXT[pid]
            checks.append({
                'property_id': pid,
                'quick_cmd': f'./check {pid} --tier quick',
                'thorough_cmd': f'./check {pid} --tier thorough',
                'evidence_file': f'/verif/evidence/{pid}.json',
                'replay_cmd_template': f'./check {pid} --replay {{path}}',
                'engine': 'vt',
                'level_claimed': {'category': 'exploration', 'text': text, 'design_ref': f'DESIGN.md section 3, {pid}'},
                'level_note': note,
                'technique': tech,
            })
        else:
            na.append({'property_id': pid, 'reason': 'check not built yet in this session (planned: runtime monitor per DESIGN.md section 3); not claimed until its workload exists and is silent on the unchanged tree'})
    m = {
        'version': 1,
        'setup_cmd': './check --setup',
        'hooks': {'guard': 'THERMOSTEAM_VERIF', 'enable': 'no source hooks: monitors wrap/observe the real classes from the harness (vt/); the tree under test is imported from /repo (or $VERIF_REPO) in every shard process',
                  'baseline_off_cmd': "cd /repo && /venv/bin/python -m pytest -ra -q -p no:cacheprovider --timeout=900 --continue-on-collection-errors",
                  'source_commits': [], 'add_only': True},
        'engines': [{'name': 'vt', 'path': '/verif/vt', 'serves_properties': [c['property_id'] for c in checks],
                     'kind_free_text': 'runtime monitors (reference-model / differential / conservation / invariant checkers) driven by seeded hostile workloads in sharded sub-processes; evidence and replay files written by vt.core'}],
        'checks': checks,
        'notes': 'Runtime monitoring only. Exit codes: 0 held on what was observed, 1 violation (VIOLATION line + replay file), 2 inconclusive (monitor not reached / too few non-trivial cases / watchdog). Known findings: /verif/known_findings.json.',
        'not_applicable': na,
    }
    with open(os.path.join(V, 'MANIFEST.json'), 'w') as f:
        json.dump(m, f, indent=1)
    print('claimed', [c['property_id'] for c in checks])
main()
