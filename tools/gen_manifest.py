#!/usr/bin/env python3
"""Regenerates MANIFEST.json from the table below (claimed checks = workloads that exist)."""
import json, os, subprocess
V = os.path.dirname(os.path.dirname(os.path.abspath(__file__)))
TEXT = {
 'C04': ('specification/equilibrium monitor: T, P, H, S, vapour fraction and phase rows read after each real vle(...) call and judged against the specification, harness-computed fugacities, the public bubble/dew solvers, an independent TP re-flash, a Raoult Rachford-Rice model (ideal package) and the flash of the scaled feed',
         'Exploration: seeded compositions of 1-5 volatile chemicals (family-restricted where the property says so) with and without inerts; per composition TP, PV, TV, PH, PS, TH, TS flashes plus re-flash, ideal-package comparison and scaled feed; single-component saturation-line clauses.',
         'Bounds derive from the solver tolerances (T_tol, P_tol times the slope across the two-phase window, K_tol); entropy 5e-3 of S_vap - S_liq.'),
 'C15': ('equilibrium-residual and history monitor: liquid / solid rows of the real stream recorded after each lle / sle call; activities recomputed from thermo.Gamma; results after call histories (use_cache on/off, temperature up and down) compared with a fresh solver on a fresh stream',
         'Exploration: seeded LLE mixtures of 2-5 chemicals with a partially miscible pair, three methods, scale factors, every top chemical, histories of 1-4 earlier calls; SLE with three solutes in 0-3 solvents, given and computed solubility.',
         'Activities compared at 1e-3 of the largest activity for every method; larger deviations of the Gibbs minimisers are classified by mechanism (midpoint / within objective tolerance / beyond); scale and history bounds: fixed point 1e-7/1e-6, shgo 1e-5, differential evolution 2e-2 of the feed; l/L labels compared up to a swap when no top chemical is named.'),
 'C02': ('energy-ledger monitor: H, S, T, P, C of inlets and receiver recorded around real mix_from(energy_balance=True, Q) and separate_out calls and around H / h / S assignments; balances and read-backs evaluated against solver-derived bounds',
         'Exploration: seeded cases with 1-4 non-empty inlets (single-inlet path separately), liquid and gas, heat input as number or heat object, receiver among the inlets, empty inlets, separate_out, H/h/S setters on single- and multi-phase streams incl. assignment of the current value.',
         'Bound 1e-5 K x heat-capacity flow; entropy clauses skip (chemical, phase) pairs whose external heat-capacity integral fails the conditioning probe.'),
 'C03': ('conservation monitor: phase x chemical array of the real stream recorded before/after vle (11 specification pairs), lle (3 methods), sle, vlle and the same through mix_from(vle=True), separations.vle, receive_vent; column sums, signs and placement of phase-locked chemicals checked',
         'Exploration: seeded compositions of 1-6 volatile chemicals plus gas-locked and solid/liquid-locked members, every initial distribution, spec values across the stated ranges (H/S positioned between the V=0.02 and V=0.98 values), repeated calls on the same stream. Only normal returns are judged (the quantifier); raises are counted by type.',
         'Column sums compared with relative 1e-12 of the column and absolute 1e-12 of the total; programming errors (TypeError, AttributeError, ...) in the call path are still reported.'),
 'C08': ('residual monitor: real BubblePoint/DewPoint solvers called on random compositions; the defining equation is re-evaluated at the returned point from the solver\'s own gamma/phi/pcf/Psat objects; normalisation, inverse relation, bracketing, single-component limit, permutation and scale checked',
         'Exploration: seeded compositions of 1-5 of 11 volatile chemicals incl. zeros and traces, T 260-480 K, P 5e3-3e6 Pa, Dortmund and ideal packages, permutations for n<=4, scale factors 0.5/2/1e-3/1e3.',
         'Dew-side clauses are judged strictly on within-family and ideal-package inputs; on cross-family non-ideal inputs a dew-side failure is the recorded finding (bubble-side clauses stay strict everywhere).'),
 'C07': ('identity monitor on the real Chemical.H/S/Cn functors and mixture models: reference values, wiring of the Cn integrals, finite differences on well-conditioned and synthetic polynomial models, gas pressure term, jumps at Tb/Tm, mole-weighted sums, extensivity, measured coefficient of the mixing term',
         'Exploration: 22 database chemicals x 3 reference phases x 3 phases on random T grids and 3 pressures; 40/400 synthetic chemicals with all orderings of T_ref, Tm, Tb; 300/6000 random mixtures. The symbolic clause of the quantifier is out of reach for runtime monitoring (DESIGN section 6) and is replaced by this evaluation.',
         'Finite-difference clauses skip database models whose own integral disagrees with their values (conditioning probe); R is the library constant.'),
 'C16': ('model-identity monitor: real UNIFAC / Dortmund / NIST / ideal model objects called on random compositions; vertex normalisation, Gibbs-Duhem residual by central differences, permutation equivariance, inert members, bit-identity of the caller array, functional form',
         'Exploration: seeded sets of 2-6 chemicals (+ members without groups), vertices / near-vertices / traces / interior points, T 250-450 K, all permutations for n<=4.',
         'Gibbs-Duhem bound 1e-4 of the largest term + 1e-7; NIST groups assigned by name on private uncached chemicals.'),
 'C20': ('conservation/target monitor: molar flows of every inlet and outlet recorded around each real separations helper call; per-chemical balance, non-negativity and the helper target (K ratios, moisture fraction, phase routing, split identity, balance residual) evaluated',
         'Exploration: seeded cases for mix_and_split, moisture adjustment, partition / phase_fraction (forced and unlisted chemicals, strict on/off, stale outlets), phase_split, chemical_splits, material_balance and the vle / lle wrappers.',
         'Equilibrium quality of the wrappers is C04/C15; feeds with no material among the listed chemicals are not judged.'),
 'C14': ('fresh-twin monitor: every property read on a real stream / proxy / linked stream / phase view during a mutation history is compared with the same property of a brand-new stream built from the reader\'s current state; a counter on the mixture-model methods separates memo hits from recomputations',
         'Exploration: seeded histories of 8-40 steps (21 properties; T/P/phase/flow edits through every view, total-only and composition-only changes, set-back-to-previous-value patterns across readers, mixing, link/unlink, package reset, phase-set changes).',
         'The twin is built through public constructors; reads that also raise on the twin are not judged.'),
 'C11': ('view-consistency monitor: after every step of a history on a real stream the mass/vol views and totals are compared with mol*MW, mol*V_i(phase,T,P) evaluated by the harness, and their sums; set/get round trips and fixed unit factors at write steps',
         'Exploration: seeded histories of 5-40 steps mixing view writes in 8 units with T/P/phase/phases changes, link_with (all flag subsets)/unlink with a partner, copy_like, property-package reset, scale, mixing; the stream and its partner are both checked after every step.',
         'Molar volumes are read from the Chemical objects; unit factors from a fixed exact table.'),
 'C12': ('structure-ledger monitor: per-(label, CAS) content, T, P and type snapshotted around every representation change, phase-view write and get_data/set_data of a real stream, compared with a relabelling model',
         'Exploration: seeded histories of 5-30 steps (phases=, phase=, reduce_phases, as_stream, vle/lle/sle accessors, view and parent writes, T/P changes through either side, save/restore) from random distributions over subsets of s,l,g,S,L.',
         'Target phase sets contain every non-empty phase up to case; solver objects are requested but not called.'),
 'C13': ('structure-ledger monitor: dense snapshots of both objects after every step of copy / copy_like / link / unlink / proxy / mutate histories; sharing decided behaviourally (mutate one side, observe the other); pickle round trips compared field by field',
         'Exploration: seeded cases over copy() independence under 3-10 mutations, the copy_like source/target/package/phase matrix, proxy / flow_proxy / all link flag subsets / unlink, and pickles of Stream, MultiStream, Reaction, ParallelReaction, Chemical, Chemicals, Thermo.',
         'Class-changing conversions on one side of a link are excluded (C12); copy_like targets list every source chemical.'),
 'C10': ('reference-model monitor: PositionalIndex model (names resolved from the chemical list and group table only) vs real indexer reads/writes, with cache-eviction floods counted by an IndexCacheProbe and fresh-twin comparisons',
         'Exploration: seeded chemical sets (1-8 chemicals, aliases, groups), every key form on single- and multi-phase molar and mass indexers, write-then-read with complement check, cross-package mixing interleaved, floods of >=700/3000 distinct tuple keys per indexer (evictions counted; zero evictions = inconclusive), comparison with brand-new indexers.',
         'Names are taken from the Chemical objects with the documented uniqueness rule; phase-summed writes (documented IndexError) are not judged.'),
 'C18': ('invariant-at-a-hook monitor: PortGraph invariant (ins<->sink, outs<->source mutually inverse, no stream at two ports, fixed sizes, placeholders) walked after every real rewiring operation + per-operation postconditions',
         'Exploration with a bounded exhaustive core: every sequence of enabled concrete operations up to depth 2 (quick) / 3 (thorough) over a 3-unit/5-stream universe, plus seeded random histories of <=50 operations over 3-8 units (construction, slices, pipes, insert/take_place_of/replace_with, reconnect, placeholders).',
         'Operations are used within the preconditions the property lists (checked on the live state before each call).'),
 'C19': ('graph-oracle monitor: Network.from_units run on real unit graphs and compared with plain DFS reachability / topological order / loop membership, over permutations of the unit list',
         'Exploration: seeded random connected DAGs of 2-10 units (all permutations for <=4 units, 5 otherwise) and the same with 1-3 cycle-closing back-edges; path completeness, order, recycle reporting and backward-edge loop membership are judged.',
         'Every unit is reachable from a feed and reaches a product (generator-enforced).'),
 'C01': ('conservation monitor: dense CAS-keyed ledger of every stream before/after real mix_from/split_to/separate_out/copy_flow(remove)/scale/Stream.sum calls + sparse invariants',
         'Exploration: seeded random cases (Stream/MultiStream receivers and inlets, receiver among inlets, foreign property packages, stale outlets, exact 0/1 splits, all-zero inlets) executed on the real code; a dense ledger model decides per-chemical conservation after each call. Held-on-what-was-observed only.',
         'Receiver package lists every inlet chemical; energy balance only on l/g streams; destination-side content that copy_flow overwrites is not judged.'),
 'C05': ('reference-model monitor: dense stoichiometric model (balanced by construction from the rational null space of the formula matrix) vs the real reaction call; mass/atom ledgers, reactant consumption, feasibility verdicts',
         'Exploration: seeded random balanced reactions and feeds over single/parallel/series/system, mol/wt, phase-less/phase-tagged, streams (own and foreign package) and bare arrays; every normal return is compared with the dense model, mass and element totals, and non-negativity; predicted-infeasible conversions must raise.',
         'Element counts from a harness table cross-checked against the library at start-up; the band between predicted negatives of -1e-9 and -1e-13 is not judged.'),
 'C06': ('energy-ledger monitor: Reaction.dH recomputed from Hf and latent heats; Hnet/H/Hf of the real stream recorded around isothermal and adiabatic reaction calls',
         'Exploration: seeded random balanced reactions with known heats of formation; dH formula, isothermal formation-enthalpy identity (literal form at the reference state), adiabatic closure with heat input, gas and liquid feeds 280-450 K.',
         'Hf, Hvap(298.15), Hfus are read from the library chemicals; away from the reference state the Kirchhoff-corrected identity is used (DESIGN C06).'),
 'C17': ('algebraic-identity monitor: both sides applied to a common feed with the real code; operand snapshots compared bit-for-bit and result/container identity checked after every operator',
         'Exploration: seeded random pairs/triples of reactions sharing a reactant; a+b vs parallel, (a+b)-b vs a, scaling, in-place vs binary forms, new-object/no-shared-container/operands-unchanged for copy, neg, backwards, add, sub, copy(basis); item.X <-> set.X.',
         'Feeds plentiful so neither side is infeasible.'),
 'C09': ('differential runtime monitor: real sparse objects vs NumPy twins (single operations, indexing, reductions, rejections, aliasing histories, bounded enumeration) + stored-entry invariant after every operation',
         'Exploration: every operation of the decided domain D is executed on the real SparseVector/SparseLogicalVector/SparseArray and on NumPy twins; dense images, operand preservation, rejections and the stored-entries invariant are compared after each call, over random cases, 5-30 step aliasing histories and a bounded exhaustive enumeration (alphabet {0,1,-1,0.5}, vectors<=3, arrays<=2x2). Held-on-what-was-observed only.',
         'NumPy is the reference; operations where NumPy raises or gives inf/nan are not judged; numba disabled as in the repository test configuration.'),
}
def main():
    fixes = subprocess.run(['git', '-C', '/repo', 'log', '--format=%h %s'], capture_output=True, text=True).stdout.splitlines()
    checks = []
    na = []
    for i in range(1, 21):
        pid = f'C{i:02d}'
        if pid in TEXT and os.path.exists(os.path.join(V, 'vt', 'workloads', pid.lower() + '.py')):
            tech, text, note = TEXT[pid]
            tech += ('; histories on reused objects (state handed out or cached earlier, then operations that could detach it); references independent of the code under test '
                     '(harness-side models built from the package\'s data objects); a raise is a refusal only where the harness\'s own model of the inputs warrants it, otherwise reported; '
                     'recorded findings keyed by input class with rate bounds against reach counters')
            if pid not in ('C07', 'C10'):
                tech += '; plus ambient monitors: the same oracles attached to the real classes while the repository\'s own 215 tests and doctests run (one extra shard, vt/ambient.py)'
            checks.append({
                'property_id': pid,
                'quick_cmd': f'./check {pid} --tier quick',
                'thorough_cmd': f'./check {pid} --tier thorough',
                'evidence_file': f'/verif/evidence/{pid}.json',
                'replay_cmd_template': f'./check {pid} --replay {{path}}',
                'engine': 'vt',
                'level_claimed': {'category': 'exploration', 'text': text, 'design_ref': f'DESIGN.md section 3, {pid}'},
                'level_note': note,
                'technique': tech,
            })
        else:
            na.append({'property_id': pid, 'reason': 'check not built yet in this session (planned: runtime monitor per DESIGN.md section 3); not claimed until its workload exists and is silent on the unchanged tree'})
    m = {
        'version': 1,
        'setup_cmd': './check --setup',
        'hooks': {'guard': 'THERMOSTEAM_VERIF', 'enable': 'no source hooks: monitors wrap/observe the real classes from the harness (vt/); the tree under test is imported from /repo (or $VERIF_REPO) in every shard process',
                  'baseline_off_cmd': "cd /repo && /venv/bin/python -m pytest -ra -q -p no:cacheprovider --timeout=900 --continue-on-collection-errors",
                  'source_commits': [], 'add_only': True},
        'engines': [{'name': 'vt', 'path': '/verif/vt', 'serves_properties': [c['property_id'] for c in checks],
                     'kind_free_text': 'runtime monitors (reference-model / differential / conservation / invariant checkers) driven by seeded hostile workloads in sharded sub-processes; evidence and replay files written by vt.core'}],
        'checks': checks,
        'notes': 'Runtime monitoring only. Exit codes: 0 held on what was observed, 1 violation (VIOLATION line + replay file), 2 inconclusive (monitor not reached / too few non-trivial cases / watchdog). Known findings: /verif/known_findings.json.',
        'not_applicable': na,
    }
    with open(os.path.join(V, 'MANIFEST.json'), 'w') as f:
        json.dump(m, f, indent=1)
    print('claimed', [c['property_id'] for c in checks])
main()
