#!/bin/bash
# tools/seed_recheck.sh [seed-ids...] — every seeded change against its own property's quick check on the current /repo HEAD (4 at a time); updates nothing, prints one line per change
cd "$(dirname "$0")/.."
V=$PWD
ids=${@:-$(ls seeded | grep '^S-')}
one() {
  id=$1; V=$2
  prop=$(python3 -c "import json; print(json.load(open('$V/seeded/$id/meta.json'))['property'])")
  if python3 -c "import json,sys; sys.exit(0 if json.load(open('$V/seeded/$id/meta.json')).get('superseded') else 1)"; then echo "RECHECK $id: superseded by a later repair in the same function (see meta.json); skipped"; return; fi
  wt=/tmp/sr_$id
  git -C /repo worktree add -q --detach $wt HEAD 2>/dev/null || { echo "RECHECK $id: cannot create worktree"; return; }
  if git -C $wt apply $V/seeded/$id/patch.diff 2>/dev/null; then
    out=$(cd $V && VERIF_REPO=$wt VERIF_OUT_TAG=$id ./check $prop --tier quick 2>&1); code=$?
    echo "RECHECK $id target=$prop exit=$code $(echo "$out" | grep -c '^VIOLATION') violation lines; first: $(echo "$out" | grep -A1 '^VIOLATION' | grep 'key=' | head -1 | cut -c1-140)"
  else echo "RECHECK $id: patch does not apply to current /repo HEAD"; fi
  git -C /repo worktree remove --force $wt
}
export -f one
# two changes of one property must not run at the same time (they share out/shards/<pid>-* files): run the -1 set, then the -2 set
for suffix in 1 2 3 4 5 6 7 8 9; do
  printf '%s\n' $ids | grep -- "-$suffix\$" | xargs -r -P 4 -I{} bash -c "one {} $V"
done
git -C /repo worktree prune
