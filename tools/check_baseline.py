#!/usr/bin/env python3
"""Run the repository's baseline suite (hooks off) and compare with /root/.vp/BASELINE.json stable_pass.
usage: check_baseline.py [--xml existing.xml | --repo /path/to/worktree]"""
import json, subprocess, sys, os, tempfile, xml.etree.ElementTree as ET
base = json.load(open('/root/.vp/BASELINE.json'))
if len(sys.argv) > 2 and sys.argv[1] == '--xml':
    xml = sys.argv[2]
else:
    xml = tempfile.mktemp(suffix='.xml', dir='/tmp')
    cmd = base['cmd'].replace('<file>', xml)
    if len(sys.argv) > 2 and sys.argv[1] == '--repo':      # a scratch copy / worktree instead of /repo
        cmd = cmd.replace('cd /repo &&', f'cd {sys.argv[2]} && PYTHONPATH={sys.argv[2]}')
    subprocess.run(cmd, shell=True, stdout=subprocess.DEVNULL, stderr=subprocess.DEVNULL)
passed = set(); failed = set()
for tc in ET.parse(xml).getroot().iter('testcase'):
    tid = f"{tc.get('classname')}::{tc.get('name')}"
    bad = any(c.tag in ('failure', 'error', 'skipped') for c in tc)
    (failed if bad else passed).add(tid)
stable = set(base['stable_pass'])
missing = sorted(stable - passed)
print(f'passed={len(passed)} failed={len(failed)} stable={len(stable)} stable_not_passing={len(missing)}')
for m in missing: print('  NOT PASSING:', m)
new_fail = sorted(failed - set(base['always_fail']))
for m in new_fail: print('  failed (not in always_fail):', m)
sys.exit(1 if missing else 0)
