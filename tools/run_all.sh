#!/bin/bash
# tools/run_all.sh <tier> <seed> [props...]  — runs the registered checks one after another and prints one line each
tier=${1:-quick}; seed=${2:-0}; shift 2
props=${@:-C01 C02 C03 C04 C05 C06 C07 C08 C09 C10 C11 C12 C13 C14 C15 C16 C17 C18 C19 C20}
cd "$(dirname "$0")/.."
for p in $props; do
  out=$(VERIF_SEED=$seed ./check $p --tier $tier 2>&1); code=$?
  echo "== $p exit=$code $(echo "$out" | grep -c '^VIOLATION') violations :: $(echo "$out" | grep '^\[' | tail -1 | cut -c1-200)"
  echo "$out" | grep -A1 '^VIOLATION' | cut -c1-400 | head -12
  echo "$out" | grep 'INCONCLUSIVE' | cut -c1-300 | head -4
done
