#!/usr/bin/env python3
"""Splices the 'as built' sections into DESIGN.md (idempotent: regenerates from DESIGN.plan.md, the original planning text)."""
import os, re, json, subprocess
V = os.path.dirname(os.path.dirname(os.path.dirname(os.path.abspath(__file__))))
plan_path = os.path.join(V, 'tools', 'design', 'DESIGN.plan.md')
if not os.path.exists(plan_path):
    subprocess.run(['cp', os.path.join(V, 'DESIGN.md'), plan_path], check=True)
plan = open(plan_path).read()

def section(text, start, end=None):
    i = text.index(start)
    j = text.index(end, i + 1) if end else len(text)
    return text[i:j]

HEADER = open(os.path.join(V, 'tools', 'design', 'header.md')).read()
ARCH = open(os.path.join(V, 'tools', 'design', 'architecture.md')).read()
FINDINGS = open(os.path.join(V, 'tools', 'design', 'findings.md')).read()
VALID = open(os.path.join(V, 'tools', 'design', 'validation.md')).read()
IFACE = open(os.path.join(V, 'tools', 'design', 'interface.md')).read()
NOTES = json.load(open(os.path.join(V, 'tools', 'design', 'as_built_notes.json')))

s0 = section(plan, '## 0. What this family can and cannot decide', '## 1. Architecture')
s2 = section(plan, '## 2. Conventions shared by all checks', '## 3. Per-property designs')
s3 = section(plan, '## 3. Per-property designs', '## 4. Candidate defects')
s6 = section(plan, '## 6. Not applicable / out of reach', '## 7. Interface preview')
# append as-built notes to each property subsection
parts = re.split(r'(?m)^(### C\d\d .*)$', s3)
out3 = parts[0]
for k in range(1, len(parts), 2):
    head, body = parts[k], parts[k + 1]
    pid = head.split()[1]
    note = NOTES.get(pid, '')
    body = body.rstrip('\n')
    sep = '\n\n--------------------------------------------------------------------------------' if body.endswith('-' * 80) else ''
    if body.endswith('-' * 80): body = body[:-80].rstrip('\n')
    out3 += head + body + (f'\n\n*As built ({pid}).*  ' + note if note else '') + sep + '\n\n'
doc = HEADER + s0 + ARCH + s2 + out3 + FINDINGS + VALID + s6 + IFACE
open(os.path.join(V, 'DESIGN.md'), 'w').write(doc)
print('DESIGN.md written', len(doc.splitlines()), 'lines')
