#!/usr/bin/env python3
"""writes findings.md (section 4) from known_findings.json + the narrative below."""
import json, os
V = '/verif'
d = json.load(open(os.path.join(V, 'known_findings.json')))['findings']
fixed = [f for f in d if f['status'] == 'fixed']; known = [f for f in d if f['status'] == 'known']
out = []
out.append('## 4. Defects found: repaired and recorded\n')
out.append('Every entry below was first raised by the real check on the unchanged tree, reproduced against the real code, and then either repaired '
           'with one small unguarded `fix:` commit in /repo (after which the 210-test baseline was re-run with `tools/check_baseline.py`: 210 passed, '
           'the same 5 failures as before) or recorded in `known_findings.json`.  The list is generated from that file.  F-numbers refer to the '
           'candidate list of the planning phase; "new" marks defects the planning probes had not seen.\n')
out.append(f'### 4.1 Repaired ({len({f["commit"] for f in fixed})} `fix:` commits, {len(fixed)} entries; the entries suppress nothing)\n')
out.append('| property | commit | what failed | violation key(s) before the repair |\n|---|---|---|---|')
for f in fixed:
    out.append(f"| {f['property']} | `{f['commit']}` | {f['what']} | `{f['key']}` |")
out.append('')
out.append(f'### 4.2 Recorded, not repaired ({len(known)} keys)\n')
out.append('| property | key (fnmatch) | what fails and why it is not repaired |\n|---|---|---|')
for f in known:
    out.append(f"| {f['property']} | `{f['key']}` | {f['what']} |")
out.append('')
out.append(open(os.path.join(V, 'tools', 'design', 'findings_tail.md')).read())
open(os.path.join(V, 'tools', 'design', 'findings.md'), 'w').write('\n'.join(out) + '\n')
print('findings.md', len(fixed), 'fixed', len(known), 'known')
