#!/bin/bash
# tools/seed_matrix.sh [seed-ids...] — applies each seeded patch to a scratch worktree of /repo and runs every quick check against it.
# prints one line per seed: id, property, and the list of checks that exit 1 (VIOLATION) / 2 (inconclusive)
cd "$(dirname "$0")/.."
ids=${@:-$(ls seeded | grep '^S-')}
for id in $ids; do
  wt=/tmp/sm_$id
  git -C /repo worktree add -q --detach $wt HEAD 2>/dev/null || { echo "$id: cannot create worktree"; continue; }
  if ! git -C $wt apply /verif/seeded/$id/patch.diff 2>/dev/null; then echo "$id: patch does not apply to current /repo HEAD"; git -C /repo worktree remove --force $wt; continue; fi
  caught=""; inconc=""
  for p in C01 C02 C03 C04 C05 C06 C07 C08 C09 C10 C11 C12 C13 C14 C15 C16 C17 C18 C19 C20; do
    VERIF_REPO=$wt ./check $p --tier quick > /tmp/sm_out_$id.txt 2>&1; code=$?
    [ $code -eq 1 ] && caught="$caught $p"
    [ $code -eq 2 ] && inconc="$inconc $p"
  done
  prop=$(python3 -c "import json; print(json.load(open('seeded/$id/meta.json'))['property'])")
  echo "MATRIX $id target=$prop caught_by:$caught inconclusive:$inconc"
  git -C /repo worktree remove --force $wt
done
git -C /repo worktree prune
