#!/usr/bin/env python3
"""add_fixed.py <property> <commit> <key> <what failed>  — appends a 'fixed' entry to known_findings.json (suppresses nothing)."""
import json, sys
p = '/verif/known_findings.json'
d = json.load(open(p))
prop, commit, key, what = sys.argv[1:5]
if not any(f.get('commit') == commit and f['property'] == prop for f in d['findings']):
    d['findings'].append({'property': prop, 'status': 'fixed', 'commit': commit, 'key': key,
                          'what': what, 'line': f'fixed: property={prop} {commit} {what}'})
json.dump(d, open(p, 'w'), indent=1)
