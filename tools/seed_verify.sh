#!/bin/bash
# tools/seed_verify.sh <seed-id> <property> <worktree>  — confirms a candidate seeded change and files it under /verif/seeded/<seed-id>/
# (1) existing suite still passes in the worktree, (2) demo fails with the change and passes without, (3) our quick check catches it
id=$1; prop=$2; wt=$3
set -u
cd /verif
d=seeded/$id; mkdir -p $d
git -C $wt diff > $d/patch.diff
cp $wt/demo.py $d/demo.py 2>/dev/null; cp $wt/MUTANT.md $d/MUTANT.md 2>/dev/null
echo "--- patch: $(grep -c '^[+-][^+-]' $d/patch.diff) changed lines in $(grep -c '^diff' $d/patch.diff) file(s)"
echo "--- baseline suite in worktree (with change)"
base=$(python3 tools/check_baseline.py --repo $wt | head -3); echo "$base"
echo "--- demo with change"
(cd $wt && NUMBA_DISABLE_JIT=1 PYTHONPATH=$wt timeout 600 /venv/bin/python -W ignore demo.py > /tmp/demo_with_$id.log 2>&1); with=$?; tail -3 /tmp/demo_with_$id.log
git -C $wt apply -R /verif/$d/patch.diff
echo "--- demo without change"
(cd $wt && NUMBA_DISABLE_JIT=1 PYTHONPATH=$wt timeout 600 /venv/bin/python -W ignore demo.py > /tmp/demo_without_$id.log 2>&1); without=$?; tail -2 /tmp/demo_without_$id.log
git -C $wt apply /verif/$d/patch.diff
echo "demo exit with=$with without=$without"
echo "--- our check ($prop quick) against the changed tree"
out=$(VERIF_REPO=$wt ./check $prop --tier quick 2>&1); code=$?
echo "$out" | grep -A1 '^VIOLATION' | cut -c1-300 | head -8; echo "$out" | tail -1 | cut -c1-200
echo "check exit=$code"
python3 - <<PY
import json
json.dump({'id': '$id', 'property': '$prop', 'baseline_suite_with_change': """$base""".splitlines()[0] if """$base""" else '',
           'demo_exit_with_change': $with, 'demo_exit_without_change': $without, 'quick_check_exit_on_changed_tree': $code,
           'caught_by_quick': $code == 1,
           'ran': ['python3 tools/check_baseline.py --repo <worktree>', 'demo.py with and without the change (git apply -R / git apply of patch.diff)', 'VERIF_REPO=<worktree> ./check $prop --tier quick'],
           'needs_to_manifest': 'see MUTANT.md'}, open('$d/meta.json', 'w'), indent=1)
PY
