#!/usr/bin/env python3
"""Regenerates seeded/INDEX.md from the meta.json / patch.diff / MUTANT.md of every seeded change (and matrix.json if present)."""
import json, os, re, glob
os.chdir(os.path.join(os.path.dirname(os.path.abspath(__file__)), '..'))
rows = []
matrix = json.load(open('seeded/matrix.json')) if os.path.exists('seeded/matrix.json') else {}
for d in sorted(glob.glob('seeded/S-*')):
    sid = os.path.basename(d)
    m = json.load(open(f'{d}/meta.json'))
    patch = open(f'{d}/patch.diff').read()
    files = sorted(set(re.findall(r'^\+\+\+ b/(.*)$', patch, re.M)))
    funcs = sorted(set(x.strip() for x in re.findall(r'^@@ .* @@ (.*)$', patch, re.M)))
    note = m.get('note') or m.get('history') or 'caught by the quick check as first written'
    caught = 'yes' if m.get('caught_by_quick') else ('thorough tier only' if m.get('caught_by_thorough') else 'NO')
    if m.get('superseded'): caught = 'superseded by a later repair of /repo (caught on the tree it was written for)'
    first = 'missed' if ('MISSED' in note or 'MASKED' in note or m.get('first_quick_check_exit') == 0) else 'caught'
    others = ', '.join(x for x in matrix.get(sid, {}).get('caught_by', []) if x != m['property'])
    rows.append((sid, m['property'], ', '.join(files), '; '.join(f[:60] for f in funcs)[:120], first, caught, others, note))
with open('seeded/INDEX.md', 'w') as f:
    f.write('# Seeded changes\n\n')
    f.write('Each directory holds `patch.diff` (apply with `git -C /repo apply`), `demo.py` (exit 1 with the change, 0 without), `MUTANT.md` (the author\'s description: what was changed, '
            'why it is plausible, what it needs to manifest) and `meta.json` (what was run to confirm it).  All were written by independent sub-agents that saw only the property text and a '
            'scratch worktree; round 2 (`-2`) was additionally told which spot round 1 had touched and asked for another mechanism.  A change is kept only after `tools/seed_verify.sh` confirmed '
            'the 210/5 baseline in the changed worktree and the demonstration failing with / passing without the change.\n\n')
    n = len(rows); missed = sum(1 for r in rows if r[4] == 'missed')
    f.write(f'{n} changes; {n - missed} caught by the property\'s quick check as it stood when the change arrived, {missed} missed or masked at first and caught after the check was strengthened '
            f'(the note says how); {sum(1 for r in rows if r[5] == "yes")} of {n - sum(1 for r in rows if r[5].startswith("superseded"))} live changes caught now by the quick check (`tools/seed_recheck.sh`), {sum(1 for r in rows if r[5].startswith("thorough"))} more by the thorough tier only, {sum(1 for r in rows if r[5].startswith("superseded"))} superseded by a later repair in the same function.\n\n')
    f.write('| id | property | file(s) | code touched | first run | caught now by `./check <property> --tier quick` | also caught by | notes |\n|---|---|---|---|---|---|---|---|\n')
    for r in rows:
        f.write('| ' + ' | '.join(x.replace('|', '\\|') for x in r) + ' |\n')
print(f'INDEX.md: {len(rows)} changes')
