"""Parent driver: ./check Cxx --tier quick|thorough [--replay file]"""
import argparse, importlib, json, os, subprocess, sys, time
from vt import core

from vt.table import TABLE

def setup():
    os.makedirs(core.OUT, exist_ok=True)
    os.makedirs(core.EVIDENCE, exist_ok=True)
    r = subprocess.run([core.PY, '-c', 'import thermosteam, numpy; print("thermosteam", thermosteam.__version__, thermosteam.__file__)'],
                       env=core.shard_env(), cwd=core.VERIF, capture_output=True, text=True, timeout=600)
    print(r.stdout.strip().splitlines()[-1] if r.stdout.strip() else r.stderr[-500:])
    return 0 if r.returncode == 0 else 1

def main():
    ap = argparse.ArgumentParser()
    ap.add_argument('pid', nargs='?'); ap.add_argument('--tier', default=os.environ.get('VERIF_TIER', 'quick'))
    ap.add_argument('--replay'); ap.add_argument('--setup', action='store_true')
    ap.add_argument('--shards', type=int)
    a = ap.parse_args()
    if a.setup:
        sys.exit(setup())
    pid = a.pid.upper()
    seed = int(os.environ.get('VERIF_SEED', '0') or 0)
    tab = TABLE[pid]
    t0 = time.time()
    if a.replay:
        os.makedirs(os.path.join(core.OUT, 'shards'), exist_ok=True)
        outf = os.path.join(core.OUT, 'shards', f'{pid}-replay.json')
        if os.path.exists(outf): os.remove(outf)
        p = subprocess.run([core.PY, '-m', 'vt.shard', pid, '--replay', a.replay, '--out', outf],
                           cwd=core.VERIF, env=core.shard_env(), timeout=3600)
        if not os.path.exists(outf):
            print(f'[{pid} replay] inconclusive: replay process failed'); sys.exit(core.INCONCLUSIVE)
        with open(outf) as f:
            r = json.load(f)
        known = core.load_known()
        bad = False
        for key, lst in r['violations'].items():
            k = core.match_known(key, pid, known)
            if k:
                print(f"KNOWN-FINDING: property={pid} {k['what']} [key={k['key']}]")
            else:
                bad = True
                print(f'VIOLATION property={pid} replay={a.replay}')
                print(f'  key={key} :: {lst[0]["what"][:400]}')
                print('  detail: ' + json.dumps(lst[0]['detail'])[:1500])
        if not bad:
            print(f'[{pid} replay] no violation reproduced ({r["evaluations"]} oracle evaluations)')
        sys.exit(core.VIOLATED if bad else core.HELD)
    tier = a.tier
    nshards = a.shards or tab['shards'][tier]
    timeout = tab['timeout'][tier]
    results, problems = core.run_shards(pid, tier, seed, nshards, timeout)
    m = core.merge(results)
    code = core.finish(pid, tier, seed, m, problems, time.time() - t0, nshards)
    sys.exit(code)

if __name__ == '__main__':
    main()
