"""Helpers shared by stream-level workloads: property packages, stream builders, dense CAS ledgers."""
import sys
import numpy as np
import thermosteam as tmo

sp = sys.modules['thermosteam.base.sparse']
SV, SLV, SA = sp.SparseVector, sp.SparseLogicalVector, sp.SparseArray

_pkg_cache = {}


def thermo_of(ids, cache=True):
    """Thermo for a tuple of chemical IDs (cached chemical objects, one Thermo per tuple)."""
    key = tuple(ids)
    th = _pkg_cache.get(key)
    if th is None:
        chems = tmo.Chemicals(list(ids), cache=cache)
        th = tmo.Thermo(chems)
        _pkg_cache[key] = th
    return th


def build_stream(d, pkgs):
    """d = {'kind': 'S', 'pkg': i, 'phase': 'l', 'flows': [..], 'T':, 'P':}
       or  {'kind': 'M', 'pkg': i, 'phases': 'lg', 'flows': {'l': [..], 'g': [..]}, 'T':, 'P':}"""
    th = thermo_of(pkgs[d['pkg']])
    ids = th.chemicals.IDs
    T = d.get('T', 298.15); P = d.get('P', 101325.)
    if d['kind'] == 'S':
        s = tmo.Stream(None, phase=d['phase'], T=T, P=P, thermo=th)
        for i, v in zip(ids, d['flows']):
            if v: s.imol[i] = v
    else:
        s = tmo.MultiStream(None, phases=tuple(d['phases']), T=T, P=P, thermo=th)
        for ph, row in d['flows'].items():
            for i, v in zip(ids, row):
                if v: s.imol[ph, i] = v
    return s


def ledger(s):
    """dict CAS -> total molar flow over all phases (dense, independent of the indexers' caches)."""
    data = s.imol.data
    cas = s.chemicals.CASs
    out = {}
    rows = data.rows if isinstance(data, SA) else [data]
    for r in rows:
        for i, v in r.dct.items():
            out[cas[i]] = out.get(cas[i], 0.0) + v
    return out


def phase_ledger(s):
    """dict (phase, CAS) -> flow."""
    data = s.imol.data
    cas = s.chemicals.CASs
    out = {}
    if isinstance(data, SA):
        for ph, r in zip(s.phases, data.rows):
            for i, v in r.dct.items():
                out[(ph, cas[i])] = v
    else:
        for i, v in data.dct.items():
            out[(s.phase, cas[i])] = v
    return out


def ledger_add(*ls):
    out = {}
    for l in ls:
        for k, v in l.items():
            out[k] = out.get(k, 0.0) + v
    return out


def ledger_diff(a, b, rel=1e-12, abs_=0.0):
    """largest relative discrepancy and the offending entries."""
    bad = []
    worst = 0.0
    for k in set(a) | set(b):
        x, y = a.get(k, 0.0), b.get(k, 0.0)
        d = abs(x - y)
        tol = abs_ + rel * max(abs(x), abs(y))
        if not d <= tol:                      # (written so that a nan flow counts as a difference)
            bad.append((k, x, y))
        m = max(abs(x), abs(y))
        if m and d == d: worst = max(worst, d / m)
    return bad, worst


def sparse_invariant(x):
    """stored entries exactly the non-zero elements, integer keys inside the size, rows of one size."""
    if isinstance(x, SA):
        sizes = {r.size for r in x.rows}
        if len(sizes) > 1: return f'rows of different sizes {sorted(sizes)}'
        for r in x.rows:
            e = sparse_invariant(r)
            if e: return e
    elif isinstance(x, SV):
        for i, v in x.dct.items():
            if not isinstance(i, (int, np.integer)): return f'non-integer key {i!r}'
            if not (0 <= i < x.size): return f'key {i} outside size {x.size}'
            if v == 0: return f'stored zero at {i}'
            if v != v: return f'stored nan at {i}'
    elif isinstance(x, SLV):
        for i in x.set:
            if not (0 <= i < x.size): return f'key {i} outside size {x.size}'
    return None


def stream_invariant(s):
    return sparse_invariant(s.imol.data)


def describe(s):
    if isinstance(s, tmo.MultiStream):
        return {'kind': 'M', 'phases': ''.join(s.phases), 'flows': {k[0] + '/' + k[1]: v for k, v in phase_ledger(s).items()}}
    return {'kind': 'S', 'phase': s.phase, 'flows': {k[1]: v for k, v in phase_ledger(s).items()}}
