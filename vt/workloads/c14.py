"""C14 — every derived stream property reflects the current state, never a stale one.

Monitor (FreshTwin): each property read on a real stream (or on its proxy, a linked stream, a phase view) at a random
point of a mutation history is compared with the same property of a brand-new stream built from the reader's current
(flows, phases, T, P, thermo).  A counter on the mixture-model methods tells memo hits from recomputations.
"""
import numpy as np
import thermosteam as tmo
from vt.core import case_hash
from vt.common import thermo_of, phase_ledger, stream_invariant

PID = 'C14'
RULE = ('histories of 8-40 steps on a single- or multi-phase stream (5 chemicals): reads of H, S, h, C, Cn, Cp, V, rho, mu, nu, kappa, alpha, Pr, sigma, epsilon, Hvap, MW, F_vol, z_mol/z_mass '
        'on the stream / its proxy / a linked stream / a phase view, interleaved with T=, P=, phase=, single-entry flow edits through mol/imol/imass/ivol/phase views, total-only changes '
        '(scale, F_mol=), composition-only changes, set-back-to-previous-value steps, mix_from, link/unlink, property-package reset, phase-set changes. '
        'non-trivial = a read that follows >=1 mutation since the previous read of the same property by the same reader; distinct = hash of (history prefix, read)')
MIN_NONTRIVIAL = {'quick': 1500, 'thorough': 50000}
ASSUMPTIONS = ['the fresh twin is built through the public constructors from the observable state of the reader', 'reads that raise on the fresh twin as well are counted, not judged']
IDS = ('Water', 'Ethanol', 'Methanol', 'Octane', 'Acetone')
PERM = ('Octane', 'Water', 'Acetone', 'Ethanol', 'Methanol')
PROPS = ['H', 'S', 'h', 'C', 'Cn', 'Cp', 'V', 'rho', 'mu', 'nu', 'kappa', 'alpha', 'Pr', 'sigma', 'epsilon', 'Hvap', 'MW', 'F_vol', 'z_mol', 'z_mass', 'F_mass']
MULTI_PROPS = ['H', 'S', 'h', 'C', 'MW', 'F_vol', 'F_mass', 'Hvap', 'sigma', 'epsilon', 'V', 'Cn', 'rho', 'mu', 'kappa']

_calls = {'n': 0}
_installed = False


def install_counter():
    """wraps the mixture-model entry points so that a read with zero calls is known to be a memo hit."""
    global _installed
    if _installed: return
    from thermosteam.mixture import mixture as mx
    classes = [getattr(mx, n) for n in dir(mx) if isinstance(getattr(mx, n), type) and n.endswith('Mixture')]
    names = ['H', 'S', 'Cn', 'V', 'mu', 'kappa', 'sigma', 'epsilon', 'Hvap', 'xH', 'xS', 'xCn', 'xV', 'xmu', 'xkappa']
    for cls in classes:
        for n in names:
            f = cls.__dict__.get(n)
            if f is None or not callable(f): continue
            def make(f):
                def g(*a, **k):
                    _calls['n'] += 1
                    return f(*a, **k)
                g.__name__ = getattr(f, '__name__', 'g')
                return g
            setattr(cls, n, make(f))
    _installed = True


def required(tier):
    return ['fresh', 'memo-hit', 'recomputed', 'reader:proxy', 'reader:linked', 'reader:view', 'reader:self', 'multi-phase', 'set-back']


def twin_of(s):
    th = s._thermo
    if isinstance(s, tmo.MultiStream):
        t = tmo.MultiStream(None, phases=tuple(s.phases), T=s.T, P=s.P, thermo=th)
        for p, row in zip(s.phases, s.imol.data.rows):
            for j, v in row.dct.items(): t.imol.data.rows[t.phases.index(p)].dct[j] = v
    else:
        t = tmo.Stream(None, phase=s.phase, T=s.T, P=s.P, thermo=th)
        for j, v in s.imol.data.dct.items(): t.imol.data.dct[j] = v
    return t


def gen_case(rng):
    n = len(IDS)
    multi = rng.random() < 0.35
    def flows(): return [0.0 if rng.random() < 0.3 else round(10 ** rng.uniform(-1, 3), 4) for _ in range(n)]
    start = {'multi': multi, 'T': round(rng.uniform(295, 350), 2), 'P': rng.choice([101325., 5e4, 3e5]), 'phase': rng.choice('lg'),
             'phases': rng.choice(['lg', 'lL', 'glL']), 'flows': [flows() for _ in range(3)], 'proxy_at': rng.randrange(0, 6), 'link_flags': [True, rng.random() < 0.7, rng.random() < 0.7]}
    steps = []
    Ts = [start['T'], round(rng.uniform(295, 350), 2), round(rng.uniform(295, 350), 2)]
    for _ in range(rng.randrange(8, 41)):
        t = rng.choices(['read', 'read', 'read', 'T', 'P', 'phase', 'flow', 'scale', 'F_mol', 'comp', 'mix', 'link', 'unlink', 'package', 'phases', 'refill', 'Tback'],
                        [10, 10, 10, 4, 2, 3, 6, 2, 1, 2, 1, 1, 1, 1, 2, 1, 3])[0]
        st = {'t': t, 'k': rng.randrange(1000), 'i': rng.randrange(n), 'v': round(10 ** rng.uniform(-1, 3), 4)}
        if t == 'read': st['p'] = rng.choice(PROPS); st['who'] = rng.choice(['self', 'self', 'proxy', 'linked', 'view'])
        if t in ('T', 'Tback'): st['v'] = rng.choice(Ts) if t == 'Tback' or rng.random() < 0.5 else round(rng.uniform(295, 350), 2)
        if t == 'P': st['v'] = rng.choice([101325., 5e4, 3e5])
        if t == 'phase': st['v'] = rng.choice('lg')
        if t == 'flow': st['via'] = rng.choice(['mol', 'imol', 'imass', 'ivol', 'view', 'proxy', 'linked'])
        if t == 'phases': st['v'] = rng.choice(['lg', 'lL', 'glL', 'gL'])
        if t in ('T', 'P', 'Tback'): st['via'] = rng.choice(['self', 'proxy', 'linked', 'view'])
        steps.append(st)
    # directed pattern that defeats key comparison: reader A reads at state a, reader B reads at state b, back to a, A reads again
    if rng.random() < 0.5:
        prop = rng.choice(['H', 'S', 'C', 'V', 'mu', 'h', 'rho'])
        A, B = rng.sample(['self', 'proxy', 'linked', 'view'], 2)
        what = rng.choice(['T', 'T', 'P', 'flow'])
        a, b = (Ts[0], Ts[1]) if what == 'T' else ((101325., 3e5) if what == 'P' else (12.5, 77.25))
        def mut(v):
            if what == 'flow': return {'t': 'flow', 'k': 0, 'i': 0, 'v': v, 'via': 'imol'}
            return {'t': what, 'k': 0, 'i': 0, 'v': v, 'via': 'self'}
        pat = [mut(a), {'t': 'read', 'k': 0, 'i': 0, 'v': 0, 'p': prop, 'who': A}, mut(b), {'t': 'read', 'k': 0, 'i': 0, 'v': 0, 'p': prop, 'who': B},
               mut(a), {'t': 'read', 'k': 0, 'i': 0, 'v': 0, 'p': prop, 'who': A}]
        at = rng.randrange(start['proxy_at'] + 1, max(start['proxy_at'] + 2, len(steps)))
        if rng.random() < 0.5: steps.insert(min(at, len(steps)), {'t': 'link', 'k': 0, 'i': 0, 'v': 0}); at += 1
        steps[at:at] = pat
    return {'start': start, 'steps': steps}


def build(start, th):
    if start['multi']:
        s = tmo.MultiStream(None, phases=tuple(start['phases']), T=start['T'], P=start['P'], thermo=th)
        for p, row in zip(s.phases, start['flows']):
            for i, v in zip(IDS, row):
                if v: s.imol[p, i] = v
    else:
        s = tmo.Stream(None, phase=start['phase'], T=start['T'], P=start['P'], thermo=th)
        for i, v in zip(IDS, start['flows'][0]):
            if v: s.imol[i] = v
    return s


def value_of(s, p):
    v = getattr(s, p)
    if hasattr(v, 'to_array'): v = v.to_array()
    return v


def equal(a, b):
    if a is None or b is None: return a is None and b is None
    a = np.asarray(a, float); b = np.asarray(b, float)
    if a.shape != b.shape: return False
    return bool(np.all(np.abs(a - b) <= 1e-10 * np.maximum(np.abs(a), np.abs(b)) + 1e-300))


def run_case(case, rec):
    install_counter()
    rec.begin_case(case)
    th = thermo_of(IDS); th2 = thermo_of(PERM)
    s = build(case['start'], th)
    proxy = None; linked = None
    dirty = {}     # (reader, prop) -> mutated since last read
    mutated_since = 0
    def mark():
        nonlocal mutated_since
        mutated_since += 1
        for k in dirty: dirty[k] = True
    Thist = []
    for k, st in enumerate(case['steps']):
        t = st['t']
        multi = isinstance(s, tmo.MultiStream)
        if k == case['start']['proxy_at']:
            try:
                proxy = s.proxy()
            except Exception as e:
                rec.exception('proxy', e, what=f'proxy() raised {type(e).__name__}: {e}'); proxy = None
        try:
            if t == 'read':
                who = st['who']; p = st['p']
                if multi and who in ('self', 'proxy', 'linked') and p not in MULTI_PROPS: p = MULTI_PROPS[st['k'] % len(MULTI_PROPS)]
                if who == 'proxy':
                    if proxy is None or type(proxy) is not type(s): who = 'self'
                if who == 'linked' and linked is None: who = 'self'
                if who == 'view' and not multi: who = 'self'
                reader = {'self': s, 'proxy': proxy, 'linked': linked}.get(who)
                if who == 'view':
                    ph = s.phases[st['k'] % len(s.phases)]
                    reader = s[ph]
                    if p not in PROPS: p = 'H'
                try:
                    tw = twin_of(reader)
                    exp = value_of(tw, p); terr = None
                except Exception as e:
                    exp = None; terr = e
                c0 = _calls['n']
                try:
                    got = value_of(reader, p); gerr = None
                except Exception as e:
                    got = None; gerr = e
                ncalls = _calls['n'] - c0
                if terr is not None:
                    rec.refuse(f'property {p} undefined for this state ({type(terr).__name__})'); continue
                if gerr is not None:
                    rec.exception('fresh', gerr, what=f'step {k}: reading {p} on {who} raised {type(gerr).__name__}: {str(gerr)[:120]} but a fresh twin returns {exp}'); return
                state = {'reader': who, 'prop': p, 'T': reader.T, 'P': reader.P, 'phases': tuple(reader.phases) if isinstance(reader, tmo.MultiStream) else reader.phase}
                rec.check(equal(got, exp), 'fresh', f'{who}/{"proxy-alive" if proxy is not None else "no-proxy"}/{"multi" if isinstance(reader, tmo.MultiStream) else "single"}',
                          f'step {k}: {who}.{p} = {np.asarray(got).tolist() if got is not None else None} but a freshly built stream with the same state gives {np.asarray(exp).tolist() if exp is not None else None} ({state})',
                          detail={'state': state, 'memo_hit': ncalls == 0})
                rec.hit('reader:' + who)
                rec.hit('memo-hit' if ncalls == 0 else 'recomputed')
                if isinstance(reader, tmo.MultiStream): rec.hit('multi-phase')
                key = (who, p)
                if dirty.get(key, False): rec.mark_nontrivial(case_hash((case['start'], case['steps'][:k + 1])))
                dirty[key] = False
                continue
            # ---- mutations
            target = s
            via = st.get('via')
            if via == 'proxy' and proxy is not None and type(proxy) is type(s): target = proxy
            elif via == 'linked' and linked is not None: target = linked
            if t in ('T', 'Tback'):
                if via == 'view' and multi: s[s.phases[st['k'] % len(s.phases)]].T = st['v']
                else: target.T = st['v']
                if st['v'] in Thist: rec.hit('set-back')
                Thist.append(st['v'])
            elif t == 'P':
                if via == 'view' and multi: s[s.phases[st['k'] % len(s.phases)]].P = st['v']
                else: target.P = st['v']
            elif t == 'phase':
                if multi: continue
                s.phase = st['v']
            elif t == 'flow':
                i = IDS[st['i']]
                if multi:
                    ph = s.phases[st['k'] % len(s.phases)]
                    if via in ('imass',): s.imass[ph, i] = st['v']
                    elif via == 'ivol': s.ivol[ph, i] = st['v'] / 100.
                    elif via == 'view': s[ph].imol[i] = st['v']
                    elif via == 'proxy' and target is proxy: proxy.imol[ph, i] = st['v']
                    elif via == 'linked' and target is linked: linked.imol[ph, i] = st['v']
                    else: s.imol[ph, i] = st['v']
                else:
                    if via == 'mol': s.mol[s.chemicals.index(i)] = st['v']
                    elif via == 'imass': s.imass[i] = st['v']
                    elif via == 'ivol': s.ivol[i] = st['v'] / 100.
                    else: target.imol[i] = st['v']
            elif t == 'scale': s.scale(st['v'] / 50.)
            elif t == 'F_mol':
                if s.F_mol: s.F_mol = st['v']
            elif t == 'comp':
                # composition-only change: swap two entries (total unchanged)
                if multi: continue
                a, b = s.chemicals.IDs[st['i']], s.chemicals.IDs[(st['i'] + 1) % len(IDS)]
                x, y = s.imol[a], s.imol[b]
                s.imol[a] = y; s.imol[b] = x
            elif t == 'mix':
                if linked is not None: continue
                o = build(case['start'], s._thermo if s._thermo is th else th2) if False else tmo.Stream(None, Water=st['v'], Ethanol=st['v'] / 3, T=310, thermo=s._thermo)
                s.mix_from([s, o], energy_balance=False)
            elif t == 'link':
                if linked is not None: continue
                linked = twin_of(s)
                linked.link_with(s, *case['start']['link_flags'])
            elif t == 'unlink':
                if linked is None: continue
                linked.unlink(); linked = None
            elif t == 'package':
                if linked is not None or proxy is not None: continue
                s._reset_thermo(th2 if s._thermo is th else th)
            elif t == 'phases':
                if linked is not None or (proxy is not None): continue
                have = {p for (p, c), v in phase_ledger(s).items() if v}
                s.phases = tuple(set(st['v']) | have)
            elif t == 'refill':
                if linked is not None: continue
                s.empty()
                if multi: s.imol[s.phases[0], IDS[st['i']]] = st['v']
                else: s.imol[IDS[st['i']]] = st['v']
            mark()
        except Exception as e:
            rec.exception('mutation', e, what=f'step {k} {st} raised {type(e).__name__}: {str(e)[:150]}'); return
    e = stream_invariant(s)
    rec.check(e is None, 'invariant', 'end', f'sparse invariant: {e}')


def replay(case, rec):
    run_case(case, rec)


def run(rec, rng, tier, shard, nshards):
    n = 1000 if tier == 'quick' else 12000
    for i in range(n):
        case = gen_case(rng)
        try:
            run_case(case, rec)
        except Exception as e:
            rec.exception('harness', e, what=f'harness error: {type(e).__name__}: {e}')
        if i % 101 == 0: rec.sample({'start': case['start'], 'steps': case['steps'][:8], 'n_steps': len(case['steps'])})
    tot = rec.reach.get('memo-hit', 0) + rec.reach.get('recomputed', 0)
    rec.notes['memo_hit_fraction'] = round(rec.reach.get('memo-hit', 0) / tot, 3) if tot else 0.0
