"""C14 — every derived stream property reflects the current state, never a stale one.

Monitor (FreshTwin): each property read on a real stream (or on its proxy, a linked stream, a phase view) at a random
point of a mutation history is compared with the same property of a brand-new stream built from the reader's current
(flows, phases, T, P) on an independent equal property package, AFTER the reader was read.  A counter on the mixture-model methods and on the
model objects' __call__ tells memo hits from recomputations.
"""
import numpy as np
import thermosteam as tmo
from vt.core import case_hash, exc_text, exc_key
from vt.common import thermo_of, phase_ledger, stream_invariant

PID = 'C14'
RULE = ('histories of 8-40 steps on a single- or multi-phase stream (5 chemicals): reads of H, S, h, C, Cn, Cp, V, rho, mu, nu, kappa, alpha, Pr, sigma, epsilon, Hvap, MW, F_vol, z_mol/z_mass '
        'on the stream / its proxy / a linked stream / a phase view, interleaved with T=, P=, phase=, single-entry flow edits through mol/imol/imass/ivol/phase views, total-only changes '
        '(scale, F_mol=), composition-only changes, set-back-to-previous-value steps, mix_from, link/unlink, property-package reset, phase-set changes. '
        'Added: cases without a proxy / dropping the proxy (so that package and phase-set changes happen late in a history), reads of Hnet, Hf, LHV, HHV, z_vol, P_vapor, phase fractions, '
        'get_normalized_mol/mass/vol and get_concentration and of Cp, alpha, nu, Pr, z_mol, z_mass on multi-phase streams, a flow_proxy reader; mutators H=, S=, h=, Hnet=, copy_like, copy_flow, '
        'copy_thermal_condition, copy_phase, split_to, separate_out, += -= *= /=, receive_vent, set_flow, set_total_flow, F_mass=, F_vol=, reset_flow, get_data/set_data (back to an earlier state), '
        'empty_negative_flows, mol= / mol[:]=, thermal_condition.T/P=, temporary(), temporary_phase(), vle, lle; multi-phase composition-only (swap inside a phase, swap between phases) and phase-only (collapse) changes; '
        'reverse links s.link_with(other, any flag subset), s.unlink() and s.reset_cache() with a live proxy; empty / fill (same composition, other total) / scale(0); '
        'edits through a phase view (imass, ivol, scale, F_mol=, empty); mixing with an energy balance. '
        'Oracles (audit round): the reader is read first, the reference stream is built afterwards on an independent equal package (own Chemical and mixture-model objects); '
        'a read without a value on the reference is not judged only for states the harness recognises itself (empty stream, none of the requested chemicals flows, T outside the generated 295-350 K) '
        'and only for the documented exception type - there the reader must have no value either; otherwise raises-on-fresh-stream is reported; memo hits are told from recomputations by counting '
        'the model objects\' __call__ as well (required per memoised model); a mutator may end as a refusal only where a solver ran; a proxy may stop sharing the data of s only after s.unlink() or a change '
        'of the class / phase set of s; relative tolerance 1e-12 (residuals recorded). '
        'non-trivial = a read that follows >=1 mutation since the previous read of the same property by the same reader; distinct = hash of (history prefix, read)')
MIN_NONTRIVIAL = {'quick': 1500, 'thorough': 50000}
ASSUMPTIONS = ['the fresh twin is built through the public constructors from the observable state of the reader, on a property package made from the same chemical IDs with cache=False (equal by construction, no shared objects)',
               'reads without a value on the fresh twin are counted, not judged, only for: an empty reader (Cp, alpha, Pr, P_vapor, z_vol, get_normalized_*), get_normalized_*(IDs) when none of the IDs flows, '
               'temperature-dependent properties at a temperature outside the generated 295-350 K (a T solver ended there); each with the exception type recorded for it',
               'a proxy made by s.proxy() follows s until s.unlink() or a change of the class / phase set of s gives s a new flow container',
               'the volumetric views keep a molar volume while |dT| < 1e-12 K (ThermalCondition.in_equilibrium): differences below 1e-12 relative are not staleness']
IDS = ('Water', 'Ethanol', 'Methanol', 'Octane', 'Acetone')
PERM = ('Octane', 'Water', 'Acetone', 'Ethanol', 'Methanol')
PROPS = ['H', 'S', 'h', 'C', 'Cn', 'Cp', 'V', 'rho', 'mu', 'nu', 'kappa', 'alpha', 'Pr', 'sigma', 'epsilon', 'Hvap', 'MW', 'F_vol', 'z_mol', 'z_mass', 'F_mass']
MULTI_PROPS = ['H', 'S', 'h', 'C', 'MW', 'F_vol', 'F_mass', 'Hvap', 'sigma', 'epsilon', 'V', 'Cn', 'rho', 'mu', 'kappa']
# added: derived quantities (also on multi-phase streams) and call-style reads
PROPS2 = ['Hnet', 'Hf', 'LHV', 'HHV', 'z_vol', 'P_vapor', 'vapor_fraction', 'liquid_fraction', 'solid_fraction', 'get_normalized_mol', 'get_normalized_mass', 'get_normalized_vol', 'get_concentration']
MULTI_PROPS2 = ['Cp', 'alpha', 'nu', 'Pr', 'z_mol', 'z_mass', 'Hnet', 'Hf', 'LHV', 'HHV', 'z_vol', 'vapor_fraction', 'liquid_fraction', 'solid_fraction', 'get_normalized_mol', 'get_normalized_mass',
                'get_normalized_vol', 'get_concentration']
MUTATORS = ['H=', 'S=', 'h=', 'Hnet=', 'H=0', 'copy_like', 'copy_flow', 'copy_thermal_condition', 'copy_phase', 'split_to', 'separate_out', 'iadd', 'isub', 'imul', 'idiv', 'receive_vent', 'set_flow',
            'set_total_flow', 'F_mass=', 'F_vol=', 'reset_flow', 'empty_negative_flows', 'mol=', 'mol[:]=', 'tc.T=', 'tc.P=', 'temporary', 'vle', 'lle']
SOLVER_MUTATORS = ('H=', 'H=0', 'S=', 'h=', 'Hnet=', 'separate_out', 'isub', 'iadd', 'receive_vent', 'vle', 'lle', 'mixE', 'split_to')
PROGRAMMING_ERRORS = (AttributeError, TypeError, NameError, KeyError, IndexError, AssertionError, UnboundLocalError)
# where a solver runs: always (T from H / S, phase equilibrium, mixing / separating with the default energy balance); only with energy_balance=True; split_to never
ALWAYS_SOLVER = ('H=', 'H=0', 'S=', 'h=', 'Hnet=', 'vle', 'lle', 'mixE', 'iadd', 'isub')
EB_SOLVER = ('separate_out', 'receive_vent')
MODEL_MUTATORS = ('receive_vent',)      # evaluate pure-component / activity models at the stream's temperature even without an energy balance
# what a solver answers with when it does not return normally: RuntimeError (no convergence, InfeasibleRegion, a model's domain check at an iterate), an arithmetic error at an
# iterate (FloatingPointError in the activity-coefficient / LLE routines), NoEquilibrium
SOLVER_ERRORS = (RuntimeError, ArithmeticError, tmo.exceptions.NoEquilibrium)


def solver_involved(m, st): return m in ALWAYS_SOLVER or (m in EB_SOLVER and bool(st.get('eb')))

_calls = {'n': 0}
_installed = False

# the mixture model whose evaluation a property needs when it is NOT served from the stream's memo (one family per memoised model);
# properties outside this table (MW, z_*, F_mass, Hf, LHV, HHV, phase fractions, get_normalized_*, P_vapor) never go through the memo
MEMO_FAMILY = {'H': 'H', 'h': 'H', 'Hnet': 'H', 'S': 'S', 'C': 'Cn', 'Cn': 'Cn', 'Cp': 'Cn', 'V': 'V', 'rho': 'V', 'F_vol': 'V', 'get_concentration': 'V', 'mu': 'mu', 'nu': 'composite',
               'kappa': 'kappa', 'alpha': 'composite', 'Pr': 'composite', 'sigma': 'sigma', 'epsilon': 'epsilon', 'Hvap': 'Hvap'}      # composite: several models (memo hit = none of them evaluated)
FAMILIES = ('H', 'S', 'Cn', 'V', 'mu', 'kappa', 'sigma', 'epsilon', 'Hvap')


def install_counter():
    """counts every evaluation of a mixture model: the methods of the Mixture classes (H, S, x*) AND the model objects held in the instance slots of
    IdealMixture (Cn, V, mu, kappa, sigma, epsilon, Hvap, _H, _S, ...: their classes' __call__).  A read of a memoised property of a non-empty stream during
    which nothing was counted is known to have been served from the memo."""
    global _installed
    if _installed: return
    from thermosteam.mixture import mixture as mx
    from thermosteam.mixture import ideal_mixture_model as imm
    def make(f):
        def g(*a, **k):
            _calls['n'] += 1
            return f(*a, **k)
        g.__name__ = getattr(f, '__name__', 'g')
        return g
    classes = [getattr(mx, n) for n in dir(mx) if isinstance(getattr(mx, n), type) and n.endswith('Mixture')]
    names = ['H', 'S', 'Cn', 'V', 'mu', 'kappa', 'sigma', 'epsilon', 'Hvap', 'xH', 'xS', 'xCn', 'xV', 'xmu', 'xkappa']
    for cls in classes:
        for n in names:
            f = cls.__dict__.get(n)
            if f is None or not callable(f): continue
            setattr(cls, n, make(f))
    # added: the model classes (instance slots of IdealMixture are model OBJECTS, invisible to the wrapping above)
    for n in dir(imm):
        cls = getattr(imm, n)
        if isinstance(cls, type) and cls.__module__ == imm.__name__ and '__call__' in cls.__dict__:
            setattr(cls, '__call__', make(cls.__dict__['__call__']))
    _installed = True


def counter_selftest():
    """the first read of every memoised model on a brand-new non-empty stream must be seen by the counter (otherwise 'memo-hit' proves nothing).
    Raises inside the harness (-> inconclusive) when the counter is blind."""
    install_counter()
    th = thermo_of(IDS)
    blind = []
    for p in FAMILIES + ('C', 'rho', 'Cp'):
        s = tmo.Stream(None, phase='l', T=311.3, P=101325., thermo=th); s.imol['Water'] = 3.; s.imol['Ethanol'] = 1.25
        c0 = _calls['n']; getattr(s, p)
        if _calls['n'] == c0: blind.append(p)
        m = tmo.MultiStream(None, phases=('g', 'l'), T=311.3, P=101325., thermo=th); m.imol['l', 'Water'] = 3.; m.imol['g', 'Ethanol'] = 1.25
        c0 = _calls['n']; getattr(m, p)
        if _calls['n'] == c0: blind.append('multi:' + p)
    if blind: raise RuntimeError(f'harness: the model-call counter does not see the first (recomputing) read of {blind}')


def required(tier):
    return ['fresh', 'memo-hit', 'recomputed', 'reader:proxy', 'reader:linked', 'reader:view', 'reader:self', 'multi-phase', 'set-back',
            # added
            'reader:fproxy', 'no-proxy-case', 'late:package', 'late:phases', 'package:other-values', 'read:derived', 'read:multi-derived', 'read:empty-state', 'mcomp:swap-row', 'mcomp:swap-phase', 'collapse', 'link-rev', 'self-unlink',
            'reset_cache', 'empty', 'fill', 'scale0', 'view-mut', 'mixE', 'restore'] + ['mut:' + m for m in MUTATORS] + [
            # added (oracle audit): every property judged at least once, a memo-served and a recomputed read judged per memoised model and per reader kind,
            # the twin built on the independent package, proxy reads judged after a mutation, documented-undefined reads seen (the refusal is reachable)
            ] + ['read:' + p for p in sorted(set(PROPS + PROPS2 + MULTI_PROPS + MULTI_PROPS2))] + ['memo-hit:' + f for f in FAMILIES] + ['recomputed:' + f for f in FAMILIES] + [
            'memo-hit:multi', 'memo-hit:single', 'memo-hit:view', 'memo-hit:proxy', 'memo-hit:linked', 'twin:independent-package', 'reader:proxy:after-mutation', 'proxy', 'inside-temporary',
            'undefined:empty', 'undefined:no-flow-of-requested-chemicals', 'counter-selftest']


_TH3 = {}


def twin_of(s, thermo=None):
    """a brand-new stream with the observable state of s (phases, T, P, flows); on the property package of s unless another (equal) package is given."""
    th = thermo if thermo is not None else s._thermo
    if isinstance(s, tmo.MultiStream):
        t = tmo.MultiStream(None, phases=tuple(s.phases), T=s.T, P=s.P, thermo=th)
        for p, row in zip(s.phases, s.imol.data.rows):
            for j, v in row.dct.items(): t.imol.data.rows[t.phases.index(p)].dct[j] = v
    else:
        t = tmo.Stream(None, phase=s.phase, T=s.T, P=s.P, thermo=th)
        for j, v in s.imol.data.dct.items(): t.imol.data.dct[j] = v
    return t


_IND = []      # (package of the streams under test, equal package built from OTHER Chemical / mixture objects)


def make_packages():
    """the three packages of the workload and, made once per process, an independent equal of each: own Chemical objects (cache=False), own mixture models,
    so that no mutable object (and no memo held at package / chemical / model level) is shared between the stream under test and its reference."""
    th = thermo_of(IDS); th2 = thermo_of(PERM)
    th3 = _TH3.get('th3')
    if th3 is None:
        th3 = _TH3['th3'] = tmo.Thermo(th.chemicals, mixture=tmo.mixture.IdealMixture.from_chemicals(th.chemicals, include_excess_energies=True))
    if not _IND:
        ich = tmo.Chemicals(list(IDS), cache=False)
        ith = tmo.Thermo(ich)
        ith2 = tmo.Thermo(tmo.Chemicals([getattr(ith.chemicals, i) for i in PERM]))
        ith3 = tmo.Thermo(ith.chemicals, mixture=tmo.mixture.IdealMixture.from_chemicals(ith.chemicals, include_excess_energies=True))
        for a, b in ((th, ith), (th2, ith2), (th3, ith3)):
            assert a.chemicals.IDs == b.chemicals.IDs and a.mixture is not b.mixture and all(x is not y for x, y in zip(a.chemicals.tuple, b.chemicals.tuple)), 'harness: independent package is not independent'
            _IND.append((a, b))
    return th, th2, th3


def fresh_twin(reader, rec):
    """the reference stream of a judged read: built AFTER the read, on the independent equal of the reader's package."""
    for a, b in _IND:
        if a is reader._thermo:
            rec.hit('twin:independent-package')
            return twin_of(reader, b)
    rec.hit('twin:shared-package')      # a package the workload did not make (never seen): the reference then shares the reader's package
    return twin_of(reader)


def rows_of(reader):
    data = reader.imol.data
    return [r.dct for r in data.rows] if hasattr(data, 'rows') else [data.dct]


# reads that have NO value for a state the harness can recognise from the observable state alone, with the exception type the library answers with.
#   empty:  no flow at all - Cp, alpha, Pr divide None (the per-mol value of an empty stream) by a float: TypeError; P_vapor takes .sum() of the float 0.: AttributeError;
#           z_vol and MultiStream.get_normalized_* divide 0 by 0: FloatingPointError; Stream.get_normalized_* raise RuntimeError('... is empty') (deliberate)
#   no-flow-of-requested-chemicals: get_normalized_*(IDs) when none of the IDs flows (same 0/0)
#   T-outside-model-range: a temperature-dependent property outside the generated temperatures (a T solver ended there, down to < 1 K): RuntimeError of a pure-component
#           model's domain check, or the arithmetic error of an overflowing correlation
EMPTY_UNDEFINED = {'Cp': (TypeError,), 'alpha': (TypeError,), 'Pr': (TypeError,), 'P_vapor': (AttributeError,), 'z_vol': (FloatingPointError,),
                   'get_normalized_mol': (RuntimeError, FloatingPointError), 'get_normalized_mass': (RuntimeError, FloatingPointError), 'get_normalized_vol': (RuntimeError, FloatingPointError)}
T_INDEPENDENT = ('MW', 'z_mol', 'z_mass', 'F_mass', 'Hf', 'LHV', 'HHV', 'vapor_fraction', 'liquid_fraction', 'solid_fraction', 'get_normalized_mol', 'get_normalized_mass')
T_MODEL_RANGE = (295., 350.)      # the temperatures the generator itself sets: every model of the five chemicals has a value there (all three pressures, both phases)
DOMAIN_MESSAGES = ('Failed to evaluate', 'computed an invalid value', 'is not valid at T=')


def undefined_class(reader, p):
    """the harness' own prediction (from flows, T only) that p has no value in the reader's state: (class, documented exception types, message parts) or None."""
    rows = rows_of(reader)
    if not any(rows):
        if p in EMPTY_UNDEFINED: return 'empty', EMPTY_UNDEFINED[p], ('is empty',) if RuntimeError in EMPTY_UNDEFINED[p] else None
        return None
    if p.startswith('get_normalized_'):
        idx = [reader.chemicals.IDs.index(i) for i in CALL_IDS]
        if not any(j in r for r in rows for j in idx): return 'no-flow-of-requested-chemicals', EMPTY_UNDEFINED[p], ('is empty',)
    if p not in T_INDEPENDENT and not (T_MODEL_RANGE[0] <= reader.T <= T_MODEL_RANGE[1]): return 'T-outside-model-range', (RuntimeError, ArithmeticError), DOMAIN_MESSAGES
    return None


def warranted(und, err):
    """the refusal is granted only for the documented exception type (and, for RuntimeError, the documented message) of a state the harness recognised."""
    if und is None or not isinstance(err, und[1]): return False
    if type(err) is RuntimeError and und[2] is not None: return any(m in str(err) for m in und[2])
    return True


def has_value(v):
    if v is None: return False
    try: return not bool(np.any(np.isnan(np.asarray(v, float))))
    except Exception: return True


def gen_case(rng):
    n = len(IDS)
    multi = rng.random() < 0.35
    def flows(): return [0.0 if rng.random() < 0.3 else round(10 ** rng.uniform(-1, 3), 4) for _ in range(n)]
    start = {'multi': multi, 'T': round(rng.uniform(295, 350), 2), 'P': rng.choice([101325., 5e4, 3e5]), 'phase': rng.choice('lg'),
             'phases': rng.choice(['lg', 'lL', 'glL']), 'flows': [flows() for _ in range(3)], 'proxy_at': rng.randrange(0, 6), 'link_flags': [True, rng.random() < 0.7, rng.random() < 0.7]}
    # added: histories without a proxy (property-package and phase-set changes can then happen anywhere in the history)
    if rng.random() < 0.4: start['proxy_at'] = None
    steps = []
    Ts = [start['T'], round(rng.uniform(295, 350), 2), round(rng.uniform(295, 350), 2)]
    for _ in range(rng.randrange(8, 41)):
        t = rng.choices(['read', 'read', 'read', 'T', 'P', 'phase', 'flow', 'scale', 'F_mol', 'comp', 'mix', 'link', 'unlink', 'package', 'phases', 'refill', 'Tback',
                         'read2', 'mut', 'mcomp', 'collapse', 'link-rev', 'self-unlink', 'reset_cache', 'mk-fproxy', 'drop-proxy', 'empty', 'fill', 'scale0', 'view-mut', 'mixE', 'snapshot', 'restore'],
                        [10, 10, 10, 4, 2, 3, 6, 2, 1, 2, 1, 1, 1, 1, 2, 1, 3,
                         22, 8, 2, 0.5, 1, 0.7, 0.7, 2, 0.7, 0.7, 1.2, 0.4, 2, 0.7, 1.5, 1.5])[0]
        st = {'t': t, 'k': rng.randrange(1000), 'i': rng.randrange(n), 'v': round(10 ** rng.uniform(-1, 3), 4)}
        if t == 'read': st['p'] = rng.choice(PROPS); st['who'] = rng.choice(['self', 'self', 'proxy', 'linked', 'view'])
        if t == 'read2':
            st['t'] = 'read'; st['p'] = rng.choice(PROPS2 + MULTI_PROPS2 + PROPS[:8]); st['who'] = rng.choice(['self', 'self', 'proxy', 'linked', 'view', 'fproxy'])
        if t in ('T', 'Tback'): st['v'] = rng.choice(Ts) if t == 'Tback' or rng.random() < 0.5 else round(rng.uniform(295, 350), 2)
        if t == 'P': st['v'] = rng.choice([101325., 5e4, 3e5])
        if t == 'phase': st['v'] = rng.choice('lg')
        if t == 'flow': st['via'] = rng.choice(['mol', 'imol', 'imass', 'ivol', 'view', 'proxy', 'linked'])
        if t == 'package': st['pk'] = rng.choice([1, 2])
        if t == 'phases': st['v'] = rng.choice(['lg', 'lL', 'glL', 'gL'])
        if t in ('T', 'P', 'Tback'): st['via'] = rng.choice(['self', 'proxy', 'linked', 'view'])
        if t == 'mut':
            st['m'] = rng.choice(MUTATORS)
            if st['m'] in ('vle', 'lle') and rng.random() < 0.6: st['m'] = rng.choice(MUTATORS[:27])     # the equilibrium solvers are slow: drawn less often
            st['T'] = rng.choice(Ts) if rng.random() < 0.5 else round(rng.uniform(295, 350), 2)
            st['P'] = rng.choice([101325., 5e4, 3e5]); st['eb'] = rng.random() < 0.5
        if t == 'mcomp': st['form'] = rng.choice(['swap-row', 'swap-phase'])
        if t == 'collapse': st['v'] = rng.choice('lg')
        if t == 'link-rev': st['flags'] = [rng.random() < 0.6, rng.random() < 0.6, rng.random() < 0.6]; st['T'] = rng.choice(Ts); st['P'] = rng.choice([101325., 5e4, 3e5])
        if t == 'view-mut': st['form'] = rng.choice(['imass', 'ivol', 'scale', 'F_mol', 'empty'])
        if t == 'mixE': st['T'] = round(rng.uniform(295, 350), 2)
        steps.append(st)
    # directed pattern that defeats key comparison: reader A reads at state a, reader B reads at state b, back to a, A reads again
    if rng.random() < 0.5:
        prop = rng.choice(['H', 'S', 'C', 'V', 'mu', 'h', 'rho'])
        A, B = rng.sample(['self', 'proxy', 'linked', 'view'], 2)
        what = rng.choice(['T', 'T', 'P', 'flow'])
        a, b = (Ts[0], Ts[1]) if what == 'T' else ((101325., 3e5) if what == 'P' else (12.5, 77.25))
        def mut(v):
            if what == 'flow': return {'t': 'flow', 'k': 0, 'i': 0, 'v': v, 'via': 'imol'}
            return {'t': what, 'k': 0, 'i': 0, 'v': v, 'via': 'self'}
        pat = [mut(a), {'t': 'read', 'k': 0, 'i': 0, 'v': 0, 'p': prop, 'who': A}, mut(b), {'t': 'read', 'k': 0, 'i': 0, 'v': 0, 'p': prop, 'who': B},
               mut(a), {'t': 'read', 'k': 0, 'i': 0, 'v': 0, 'p': prop, 'who': A}]
        pa = start['proxy_at'] if start['proxy_at'] is not None else 0
        at = rng.randrange(pa + 1, max(pa + 2, len(steps)))
        if rng.random() < 0.5: steps.insert(min(at, len(steps)), {'t': 'link', 'k': 0, 'i': 0, 'v': 0}); at += 1
        steps[at:at] = pat
    # added directed pattern: read at a non-empty state, empty, read, restore the same composition with another total, read
    if rng.random() < 0.15:
        prop = rng.choice(['H', 'S', 'C', 'V', 'h', 'rho', 'Cn', 'F_vol', 'Hvap'])
        rd = {'t': 'read', 'k': 0, 'i': 0, 'v': 0, 'p': prop, 'who': 'self'}
        at = rng.randrange(0, len(steps) + 1)
        steps[at:at] = [dict(rd), {'t': rng.choice(['empty', 'scale0']), 'k': 0, 'i': 0, 'v': 1.0}, dict(rd), {'t': 'fill', 'k': 0, 'i': 0, 'v': rng.choice([1.0, 2.5, 0.4])}, dict(rd)]
    # added directed pattern: a reader reads, the property package is replaced by one that gives other values for the same state, the same reader reads again
    # (no proxy / link may be alive for the package step: placed before the proxy is created, or in a case without one)
    if start['proxy_at'] is None and rng.random() < 0.35:
        prop = rng.choice(['H', 'S', 'C', 'h', 'Cn', 'Hnet'] if not start['multi'] else ['H', 'S', 'C', 'h'])
        who = rng.choice(['self', 'view', 'view']) if start['multi'] else 'self'
        rd = {'t': 'read', 'k': 0, 'i': 0, 'v': 0, 'p': prop, 'who': who}
        pat = [dict(rd), {'t': 'package', 'k': 0, 'i': 0, 'v': 0, 'pk': 2}, dict(rd), {'t': 'package', 'k': 0, 'i': 0, 'v': 0, 'pk': rng.choice([1, 2])}, dict(rd)]
        at = 0 if rng.random() < 0.5 else rng.randrange(0, 3)
        steps[at:at] = pat
    if rng.random() < 0.03: steps.append({'t': 'mut', 'm': 'temporary_phase', 'k': 0, 'i': 0, 'v': 1.0, 'T': Ts[0], 'P': 101325., 'eb': False})
    return {'start': start, 'steps': steps}


def build(start, th):
    if start['multi']:
        s = tmo.MultiStream(None, phases=tuple(start['phases']), T=start['T'], P=start['P'], thermo=th)
        for p, row in zip(s.phases, start['flows']):
            for i, v in zip(IDS, row):
                if v: s.imol[p, i] = v
    else:
        s = tmo.Stream(None, phase=start['phase'], T=start['T'], P=start['P'], thermo=th)
        for i, v in zip(IDS, start['flows'][0]):
            if v: s.imol[i] = v
    return s


CALL_IDS = ('Water', 'Ethanol', 'Octane')


def value_of(s, p):
    if p.startswith('get_'):
        # added: call-style reads
        if p == 'get_concentration':
            v = s.get_concentration(s.phases[0], CALL_IDS[:2]) if isinstance(s, tmo.MultiStream) else s.get_concentration(CALL_IDS[:2])
        else:
            v = getattr(s, p)(CALL_IDS)
    else:
        v = getattr(s, p)
    if hasattr(v, 'to_array'): v = v.to_array()
    return v


# resolution: the values are bit-identical except where the library's volumetric views (ivol -> z_vol, get_normalized_vol) keep a molar volume for |dT| < 1e-12 K, |dP| < 1e-12 Pa
# (ThermalCondition.in_equilibrium): relative effect <= ~3e-15; worst residual recorded over 40 000 histories 1.5e-15 -> 1e-12 leaves > 600x (was 1e-10)
RTOL = 1e-12


def equal(a, b, rtol=None):
    rtol = RTOL if rtol is None else rtol
    if a is None or b is None: return a is None and b is None
    a = np.asarray(a, float); b = np.asarray(b, float)
    if a.shape != b.shape: return False
    return bool(np.all(np.abs(a - b) <= rtol * np.maximum(np.abs(a), np.abs(b)) + 1e-300))


def residual(a, b):
    """largest relative difference (recorded as the worst residual of the clause); None when not comparable."""
    if a is None or b is None: return None
    try:
        a = np.asarray(a, float); b = np.asarray(b, float)
        if a.shape != b.shape or not a.size: return None
        m = np.maximum(np.abs(a), np.abs(b))
        d = np.where(m > 0, np.abs(a - b) / np.where(m > 0, m, 1.), 0.)
        return float(np.max(d))
    except Exception:
        return None


def kind_of(reader): return 'multi' if isinstance(reader, tmo.MultiStream) else 'single'


def judge_read(rec, reader, p, where, key, k=None, detail_state=None):
    """one judged read: the reader is read FIRST, the reference (brand-new stream, independent package) is built and read afterwards.
    Returns (status, ncalls): status 'judged' | 'refused' (documented no-value state) | 'no-value' (reported) | 'stop' (the reader alone raised: reported, the history ends)."""
    c0 = _calls['n']
    try:
        got = value_of(reader, p); gerr = None
    except Exception as e:
        got = None; gerr = e
    ncalls = _calls['n'] - c0
    und = undefined_class(reader, p)
    kind = kind_of(reader)
    try:
        tw = fresh_twin(reader, rec)
        exp = value_of(tw, p); terr = None
    except Exception as e:
        exp = None; terr = e
    if terr is not None or (exp is not None and not has_value(exp)):
        # no value on a brand-new stream: not judged ONLY when the harness itself recognises the state as one without a value for p and the answer is the documented one
        how = type(terr).__name__ if terr is not None else 'nan'
        ok = warranted(und, terr) if terr is not None else und is not None
        if not ok:
            cls = und[0] if und is not None else 'state-with-a-value'
            rec.check(False, 'fresh', f'raises-on-fresh-stream/{p}/{kind}/{cls}/{how}',
                      f'{where}: {p} has no value ({how}: {str(terr)[:120] if terr is not None else exp}) on a brand-new {kind} stream in a state for which the harness expects one ({detail_state}); reader: {gerr if gerr is not None else got!r}',
                      detail={'state': detail_state, 'traceback': exc_text(terr) if terr is not None else None})
            return 'no-value', ncalls
        rec.hit('undefined:' + und[0]); rec.hit('refused:' + p)
        # the reader must not produce a value where a brand-new stream has none (a value could only come from an earlier state)
        rec.check(gerr is not None or not has_value(got), 'fresh', f'value-where-fresh-stream-has-none/{p}/{kind}/{und[0]}',
                  f'{where}: {p} = {got!r} although a brand-new stream in the same state has no value ({how}) ({detail_state})')
        rec.refuse(f'property {p} undefined for this state ({und[0]}: {how})')
        return 'refused', ncalls
    if gerr is not None:
        rec.exception('fresh', gerr, what=f'{where}: reading {p} raised {type(gerr).__name__}: {str(gerr)[:120]} but a fresh twin returns {exp}')
        return 'stop', ncalls
    rec.check(equal(got, exp), 'fresh', key,
              f'{where}: {p} = {np.asarray(got).tolist() if got is not None else None} but a freshly built stream with the same state gives {np.asarray(exp).tolist() if exp is not None else None} ({detail_state})',
              detail={'state': detail_state, 'memo_hit': ncalls == 0 and p in MEMO_FAMILY and any(rows_of(reader))}, residual=residual(got, exp))
    rec.hit('read:' + p)
    return 'judged', ncalls


def perturbed_twin(s, st):
    """a second stream of the same class, package and phases as s with other T, P and flows (deterministic in the step)."""
    o = twin_of(s)
    o.T = st['T']; o.P = st['P']
    o.imol.data *= 0.5 + (st['k'] % 7) / 4.
    i = IDS[st['i']]
    if isinstance(o, tmo.MultiStream): o.imol[o.phases[st['k'] % len(o.phases)], i] = st['v']
    else: o.imol[i] = st['v']
    return o


def apply_mutator(s, st, rec):
    """added: the remaining public mutators. Returns False when the step was not applicable (nothing changed)."""
    m = st['m']; k = st['k']; v = st['v']
    multi = isinstance(s, tmo.MultiStream)
    dT = (k % 21) - 10.
    i = IDS[st['i']]
    ph = s.phases[k % len(s.phases)] if multi else None
    if m == 'H=': s.H = s.H + s.C * dT
    elif m == 'H=0': s.H = 0.        # on an empty stream: the documented silent return
    elif m == 'S=': s.S = s.S + s.C * 0.003 * dT
    elif m == 'h=':
        if not s.F_mol: return False
        s.h = s.h + s.C / s.F_mol * dT
    elif m == 'Hnet=': s.Hnet = s.Hnet + s.C * dT
    elif m == 'copy_like': s.copy_like(perturbed_twin(s, st))
    elif m == 'copy_flow': s.copy_flow(perturbed_twin(s, st))
    elif m == 'copy_thermal_condition': s.copy_thermal_condition(perturbed_twin(s, st))
    elif m == 'copy_phase':
        if multi: return False
        o = perturbed_twin(s, st); o.phase = 'g' if s.phase == 'l' else 'l'
        s.copy_phase(o)
    elif m == 'split_to':
        o = perturbed_twin(s, st); junk = twin_of(s)
        o.split_to(s, junk, 0.1 + (k % 8) / 10., energy_balance=st['eb'])
    elif m == 'separate_out':
        o = twin_of(s); o.imol.data *= 0.3; o.T = st['T']
        s.separate_out(o, energy_balance=st['eb'])
    elif m == 'isub':
        o = twin_of(s); o.imol.data *= 0.25
        s -= o
    elif m == 'iadd':
        o = perturbed_twin(s, st)
        s += o
    elif m == 'imul': s *= 0.5 + (k % 9) / 4.
    elif m == 'idiv': s /= 0.5 + (k % 9) / 4.
    elif m == 'receive_vent':
        if multi or s.phase != 'g' or not s.F_mol: return False
        o = tmo.Stream(None, Water=v, Ethanol=v / 3, T=st['T'], P=s.P, thermo=s._thermo)
        s.receive_vent(o, energy_balance=st['eb'])
    elif m == 'set_flow':
        if multi: s.set_flow(v, 'kg/hr', (ph, i))
        else: s.set_flow([v, v / 2], 'lb/hr', (i, IDS[(st['i'] + 1) % len(IDS)]))
    elif m == 'set_total_flow':
        if not s.F_mol: return False
        s.set_total_flow(v, 'kg/hr')
    elif m == 'F_mass=':
        if not s.F_mol: return False
        s.F_mass = v
    elif m == 'F_vol=':
        if not s.F_mol: return False
        s.F_vol = v / 100.
    elif m == 'reset_flow':
        if multi: s.reset_flow(units='kg/hr', phases=s.phases, **{ph: [(i, v), ('Water', v / 2)]})
        else: s.reset_flow(units='kg/hr', **{i: v, 'Methanol': v / 2})
    elif m == 'empty_negative_flows':
        if multi: s.imol[ph, i] = -v
        else: s.imol[i] = -v
        s.empty_negative_flows()
    elif m in ('mol=', 'mol[:]='):
        arr = np.array([v * ((j + k) % 3) for j in range(len(IDS))], float)
        if multi: s.imol[ph] = arr
        elif m == 'mol=': s.mol = arr
        else: s.mol[:] = arr
    elif m == 'tc.T=': s.thermal_condition.T = st['T']
    elif m == 'tc.P=': s.thermal_condition.P = st['P']
    elif m == 'temporary':
        with s.temporary(T=st['T'], P=st['P']):
            # a read inside the context is judged like any other read (reader first, reference afterwards; a brand-new stream that raises here is reported: H, V, C have
            # a value (or None / 0 when empty) in every state)
            for p in ('H', 'V' if not multi else 'C'):
                status, _ = judge_read(rec, s, p, f'inside temporary(T={st["T"]}, P={st["P"]})', f'self/inside-temporary/{"multi" if multi else "single"}', detail_state={'T': s.T, 'P': s.P})
                if status == 'judged': rec.hit('inside-temporary')
                if status == 'stop': break
    elif m == 'temporary_phase':
        if multi: return False
        ph2 = 'g' if s.phase == 'l' else 'l'
        with s.temporary_phase(ph2):
            got = value_of(s, 'H')
            tw = fresh_twin(s, rec)
            exp = value_of(tw, 'H')
            rec.check(s.phase == ph2 and equal(got, exp), 'fresh', 'self/inside-temporary_phase/single', f'inside temporary_phase({ph2!r}): phase {s.phase!r}, H = {got} but a freshly built stream gives {exp}')
    elif m == 'vle':
        if not s.F_mol: return False
        s.vle(V=0.2 + (k % 7) / 10., P=s.P)
    elif m == 'lle':
        if not s.F_mol: return False
        s.lle(T=s.T, P=s.P)
    else:
        raise ValueError(m)
    return True


def run_case(case, rec):
    install_counter()
    rec.begin_case(case)
    # th3: a third package over the same chemicals whose mixture model gives OTHER values for the same state (pure-component excess energies included):
    # a memo that survives the package change is visible only if the new package disagrees with the old one
    th, th2, th3 = make_packages()
    packages = [th, th2, th3]
    s = build(case['start'], th)
    proxy = None; linked = None
    fproxy = None; rev = False; snap = None
    if case['start']['proxy_at'] is None: rec.hit('no-proxy-case')
    dirty = {}     # (reader, prop) -> mutated since last read
    mutated_since = 0
    proxy_mutations = 0      # mutations applied while the current proxy was alive (a proxy read after >= 1 of them is required)
    def mark():
        nonlocal mutated_since, proxy_mutations
        mutated_since += 1
        if proxy is not None: proxy_mutations += 1
        for k in dirty: dirty[k] = True
    Thist = []
    for k, st in enumerate(case['steps']):
        t = st['t']
        multi = isinstance(s, tmo.MultiStream)
        if k == case['start']['proxy_at']:
            try:
                proxy = s.proxy(); proxy_mutations = 0
            except Exception as e:
                rec.exception('proxy', e, what=f'proxy() raised {type(e).__name__}: {e}'); proxy = None
        try:
            if t == 'read':
                who = st['who']; p = st['p']
                if multi and who in ('self', 'proxy', 'linked') and p not in MULTI_PROPS and p not in MULTI_PROPS2: p = MULTI_PROPS[st['k'] % len(MULTI_PROPS)]
                if who == 'proxy':
                    if proxy is None or type(proxy) is not type(s): who = 'self'
                if who == 'linked' and linked is None: who = 'self'
                if who == 'view' and not multi: who = 'self'
                if who == 'fproxy' and fproxy is None: who = 'self'
                reader = {'self': s, 'proxy': proxy, 'linked': linked, 'fproxy': fproxy}.get(who)
                if who == 'view':
                    ph = s.phases[st['k'] % len(s.phases)]
                    reader = s[ph]
                    if p not in PROPS and p not in PROPS2: p = 'H'
                if who == 'fproxy' and isinstance(reader, tmo.MultiStream) and p not in MULTI_PROPS and p not in MULTI_PROPS2: p = 'H'
                state = {'reader': who, 'prop': p, 'T': reader.T, 'P': reader.P, 'phases': tuple(reader.phases) if isinstance(reader, tmo.MultiStream) else reader.phase}
                status, ncalls = judge_read(rec, reader, p, f'step {k}: {who}', f'{who}/{"proxy-alive" if proxy is not None else "no-proxy"}/{"multi" if isinstance(reader, tmo.MultiStream) else "single"}', detail_state=state)
                if status == 'stop': return
                if status != 'judged': continue
                rec.hit('reader:' + who)
                if who == 'proxy' and proxy_mutations: rec.hit('reader:proxy:after-mutation')
                # memo hit / recomputation is decided for memoised properties of non-empty readers only: nothing else can be served from the memo
                fam = MEMO_FAMILY.get(p)
                if fam is None or not any(rows_of(reader)): rec.hit('not-memoised-read')
                elif ncalls == 0:
                    rec.hit('memo-hit'); rec.hit('memo-hit:' + fam); rec.hit('memo-hit:' + kind_of(reader)); rec.hit('memo-hit:' + who)
                else:
                    rec.hit('recomputed'); rec.hit('recomputed:' + fam)
                if isinstance(reader, tmo.MultiStream): rec.hit('multi-phase')
                if p in PROPS2: rec.hit('read:derived')
                if isinstance(reader, tmo.MultiStream) and p in MULTI_PROPS2: rec.hit('read:multi-derived')
                if not reader.F_mol: rec.hit('read:empty-state')
                key = (who, p)
                if dirty.get(key, False): rec.mark_nontrivial(case_hash((case['start'], case['steps'][:k + 1])))
                dirty[key] = False
                continue
            # ---- mutations
            sig0 = (type(s), tuple(s.phases)); rev0 = rev
            target = s
            via = st.get('via')
            if via == 'proxy' and proxy is not None and type(proxy) is type(s): target = proxy
            elif via == 'linked' and linked is not None: target = linked
            if t in ('T', 'Tback'):
                if via == 'view' and multi: s[s.phases[st['k'] % len(s.phases)]].T = st['v']
                else: target.T = st['v']
                if st['v'] in Thist: rec.hit('set-back')
                Thist.append(st['v'])
            elif t == 'P':
                if via == 'view' and multi: s[s.phases[st['k'] % len(s.phases)]].P = st['v']
                else: target.P = st['v']
            elif t == 'phase':
                if multi: continue
                s.phase = st['v']
            elif t == 'flow':
                i = IDS[st['i']]
                if multi:
                    ph = s.phases[st['k'] % len(s.phases)]
                    if via in ('imass',): s.imass[ph, i] = st['v']
                    elif via == 'ivol': s.ivol[ph, i] = st['v'] / 100.
                    elif via == 'view': s[ph].imol[i] = st['v']
                    elif via == 'proxy' and target is proxy: proxy.imol[ph, i] = st['v']
                    elif via == 'linked' and target is linked: linked.imol[ph, i] = st['v']
                    else: s.imol[ph, i] = st['v']
                else:
                    if via == 'mol': s.mol[s.chemicals.index(i)] = st['v']
                    elif via == 'imass': s.imass[i] = st['v']
                    elif via == 'ivol': s.ivol[i] = st['v'] / 100.
                    else: target.imol[i] = st['v']
            elif t == 'scale': s.scale(st['v'] / 50.)
            elif t == 'F_mol':
                if s.F_mol: s.F_mol = st['v']
            elif t == 'comp':
                # composition-only change: swap two entries (total unchanged)
                if multi: continue
                a, b = s.chemicals.IDs[st['i']], s.chemicals.IDs[(st['i'] + 1) % len(IDS)]
                x, y = s.imol[a], s.imol[b]
                s.imol[a] = y; s.imol[b] = x
            elif t == 'mix':
                if linked is not None: continue
                o = build(case['start'], s._thermo if s._thermo is th else th2) if False else tmo.Stream(None, Water=st['v'], Ethanol=st['v'] / 3, T=310, thermo=s._thermo)
                fproxy = None
                s.mix_from([s, o], energy_balance=False)
            elif t == 'link':
                if linked is not None: continue
                linked = twin_of(s)
                linked.link_with(s, *case['start']['link_flags'])
            elif t == 'unlink':
                if linked is None: continue
                if rev: s.unlink(); rev = False; linked = None; fproxy = None
                else: linked.unlink(); linked = None
            elif t == 'package':
                if linked is not None or proxy is not None: continue
                fproxy = None
                cur = [k_ for k_, t_ in enumerate(packages) if t_ is s._thermo]
                new = packages[((cur[0] if cur else 0) + st.get('pk', 1)) % 3]
                if new is th3 or s._thermo is th3: rec.hit('package:other-values')
                s._reset_thermo(new)
                if k >= 6: rec.hit('late:package')
            elif t == 'phases':
                if linked is not None or (proxy is not None): continue
                have = {p for (p, c), v in phase_ledger(s).items() if v}
                fproxy = None
                s.phases = tuple(set(st['v']) | have)
                if k >= 6: rec.hit('late:phases')
            elif t == 'refill':
                if linked is not None: continue
                s.empty()
                if multi: s.imol[s.phases[0], IDS[st['i']]] = st['v']
                else: s.imol[IDS[st['i']]] = st['v']
            # ---------------- added steps
            elif t == 'mut':
                m = st['m']
                if m in ('vle', 'lle', 'copy_like', 'reset_flow', 'temporary', 'receive_vent', 'split_to', 'iadd') and linked is not None: continue    # may change the class / phase set of one side of a link
                if m in ('vle', 'lle', 'copy_like', 'reset_flow', 'temporary', 'receive_vent', 'split_to', 'iadd', 'copy_flow', 'separate_out', 'isub'): fproxy = None
                T0 = s.T
                try:
                    if not apply_mutator(s, st, rec): continue
                except PROGRAMMING_ERRORS: raise
                except Exception as e:
                    # a refusal only where a solver really ran (T from H / S, phase equilibrium) and only for the exception types a solver answers with; everything else
                    # (a split, an isothermal separation, ...) has no reason to raise: reported under clause 'mutation'
                    if solver_involved(m, st) and isinstance(e, SOLVER_ERRORS): rec.refuse(f'{m} did not return normally ({exc_key(e)})'); rec.hit('solver-refusal:' + m)
                    elif (m in MODEL_MUTATORS and not (T_MODEL_RANGE[0] <= T0 <= T_MODEL_RANGE[1])
                          and (isinstance(e, ArithmeticError) or (type(e) is RuntimeError and any(msg in str(e) for msg in DOMAIN_MESSAGES)))):
                        # no solver, but saturation pressures / activity coefficients are evaluated at the stream's temperature, which an earlier T solver left outside the generated range
                        rec.refuse(f'{m} at a temperature outside the generated range: model domain ({exc_key(e)})'); rec.hit('model-domain-refusal:' + m)
                    else: raise
                else:
                    rec.hit('mut:' + m)
            elif t == 'mcomp':
                if not multi: continue
                rows = s.imol.data.rows
                if st['form'] == 'swap-row':
                    # composition-only change inside one phase: swap two entries of a row (totals unchanged)
                    ph = s.phases[st['k'] % len(s.phases)]
                    a, b = IDS[st['i']], IDS[(st['i'] + 1) % len(IDS)]
                    x, y = s.imol[ph, a], s.imol[ph, b]
                    s.imol[ph, a] = y; s.imol[ph, b] = x
                    rec.hit('mcomp:swap-row')
                else:
                    # phase-only change: a chemical's flows are swapped between two phases (per-chemical and overall totals unchanged)
                    p1 = s.phases[st['k'] % len(s.phases)]; p2 = s.phases[(st['k'] + 1) % len(s.phases)]
                    a = IDS[st['i']]
                    x, y = s.imol[p1, a], s.imol[p2, a]
                    s.imol[p1, a] = y; s.imol[p2, a] = x
                    rec.hit('mcomp:swap-phase')
            elif t == 'collapse':
                if not multi or linked is not None: continue
                fproxy = None
                s.phase = st['v']
                rec.hit('collapse')
            elif t == 'link-rev':
                # the stream under test (with a populated memo) borrows the data of another stream; the other stream is then mutated / read as 'linked'
                if linked is not None: continue
                other = perturbed_twin(s, st)
                fproxy = None
                s.link_with(other, *st['flags'])
                linked = other; rev = True
                rec.hit('link-rev')
            elif t == 'self-unlink':
                fproxy = None
                s.unlink()
                if rev: rev = False; linked = None
                rec.hit('self-unlink')
            elif t == 'reset_cache':
                s.reset_cache(); rec.hit('reset_cache')
            elif t == 'mk-fproxy':
                fproxy = s.flow_proxy()
            elif t == 'drop-proxy':
                proxy = None
            elif t == 'empty':
                s.empty(); rec.hit('empty')
            elif t == 'scale0':
                s.scale(0.); rec.hit('scale0')
            elif t == 'fill':
                # the start composition with another total
                if multi:
                    for p, row in zip(tmo.MultiStream(None, phases=tuple(case['start']['phases']), thermo=s._thermo).phases, case['start']['flows']):
                        if p not in s.phases: continue
                        for i, v in zip(IDS, row): s.imol[p, i] = v * st['v'] if v else 0.
                else:
                    for i, v in zip(IDS, case['start']['flows'][0]): s.imol[i] = v * st['v'] if v else 0.
                rec.hit('fill')
            elif t == 'view-mut':
                if not multi: continue
                view = s[s.phases[st['k'] % len(s.phases)]]
                i = IDS[st['i']]; form = st['form']
                if form == 'imass': view.imass[i] = st['v']
                elif form == 'ivol': view.ivol[i] = st['v'] / 100.
                elif form == 'scale': view.scale(st['v'] / 50.)
                elif form == 'F_mol':
                    if not view.F_mol: continue
                    view.F_mol = st['v']
                else: view.empty()
                rec.hit('view-mut')
            elif t == 'mixE':
                if linked is not None: continue
                o = tmo.Stream(None, Water=st['v'], Ethanol=st['v'] / 3, T=st['T'], thermo=s._thermo)
                fproxy = None
                try: s.mix_from([s, o], energy_balance=True)
                except PROGRAMMING_ERRORS: raise
                except SOLVER_ERRORS as e: rec.refuse(f'mixE did not return normally ({exc_key(e)})'); rec.hit('solver-refusal:mixE')
                rec.hit('mixE')
            elif t == 'snapshot':
                snap = s.get_data()
            elif t == 'restore':
                if snap is None or linked is not None: continue
                if snap._imol.chemicals is not s.chemicals: continue      # taken under the other property package
                fproxy = None
                s.set_data(snap)
                rec.hit('restore')
            if proxy is not None:
                # the added steps can replace the indexer of s (unlink, phase-set change, collapse, restore): the old proxy is then a separate stream, no longer a proxy of s.
                # Only the step kinds that are documented to give s a new flow container may do that; after any other mutation the proxy must still share the data of s
                # (otherwise every later read 'through the proxy' silently reads a stream that no longer follows s, and the mutations made through it never reach s)
                kind = t + (':' + st['m'] if t == 'mut' else '') + ('/multi' if multi else '/single')
                detached = proxy._imol is not s._imol
                # documented ways for s to get a new flow container: s.unlink() (own copies), and a change of the class / phase set of s (phases=, phase= on a
                # multi-phase stream, vle / lle / copy_like / set_data / an energy-balance fallback that re-cast the stream) - the harness sees the latter in s itself
                may = t == 'self-unlink' or (t == 'unlink' and rev0) or sig0 != (type(s), tuple(s.phases))
                if detached: rec.hit('proxy-detached'); rec.hit('proxy-detached:' + kind + ('' if may else ':undocumented'))
                rec.check(not detached or may, 'proxy', f'detached-by/{kind}',
                          f'step {k} {st}: after this mutation (class and phase set of s unchanged: {sig0[0].__name__} {sig0[1]}) the proxy made by s.proxy() no longer shares the flow data of s: '
                          f'reads through the proxy do not reflect the state of s any more')
                if detached: proxy = None
            mark()
        except Exception as e:
            rec.exception('mutation', e, what=f'step {k} {st} raised {type(e).__name__}: {str(e)[:150]}'); return
    e = stream_invariant(s)
    rec.check(e is None, 'invariant', 'end', f'sparse invariant: {e}')


def replay(case, rec):
    run_case(case, rec)


def run(rec, rng, tier, shard, nshards):
    n = 1000 if tier == 'quick' else 12000
    try:
        counter_selftest(); rec.hit('counter-selftest')
    except Exception as e:
        rec.exception('harness', e, what=f'harness error: {type(e).__name__}: {e}')
    for i in range(n):
        case = gen_case(rng)
        try:
            run_case(case, rec)
        except Exception as e:
            rec.exception('harness', e, what=f'harness error: {type(e).__name__}: {e}')
        if i % 101 == 0: rec.sample({'start': case['start'], 'steps': case['steps'][:8], 'n_steps': len(case['steps'])})
    tot = rec.reach.get('memo-hit', 0) + rec.reach.get('recomputed', 0)
    rec.notes['memo_hit_fraction'] = round(rec.reach.get('memo-hit', 0) / tot, 3) if tot else 0.0
    refusal_rate_guard(rec)


def refusal_rate_guard(rec):
    """the share of reads of a property that end as 'no value for this state' is fixed by the generator (empty states, requested chemicals absent, a solver that left the
    temperature range): far more than recorded means that the states are not the intended ones and the judged reads no longer cover the property -> the run decides nothing."""
    rates = {}
    for p in sorted(set(PROPS + PROPS2 + MULTI_PROPS + MULTI_PROPS2)):
        r = rec.reach.get('refused:' + p, 0); j = rec.reach.get('read:' + p, 0)
        if r + j: rates[p] = round(r / (r + j), 4)
        if r >= 8 and r + j >= 60 and r / (r + j) > MAX_REFUSAL_RATE.get(p, 0.04):
            rec.harness_errors.append({'clause': 'refusal-rate', 'error': f'{r} of {r + j} reads of {p} had no value for their state (rate {r / (r + j):.3f}, bound {MAX_REFUSAL_RATE.get(p, 0.04)})',
                                       'traceback': 'refusal_rate_guard', 'case': None})
    rec.notes['refusal_rate_per_property'] = rates


# per shard; recorded rates over 4 x 10 000 histories: Cp .067-.074, alpha .059-.076, Pr .066-.075, P_vapor .056-.076, z_vol .059-.071, get_normalized_* .096-.114, mu / nu <= .0044, kappa <= .0024,
# every other property 0; per shard of 1000 histories (16 shards): get_normalized_* <= .145, P_vapor <= .126, z_vol <= .103, Cp / alpha / Pr <= .099, mu <= .014, nu <= .011, kappa <= .006
# (bounds about 2-3x the per-shard maximum; default 0.04; at least 8 refused reads)
MAX_REFUSAL_RATE = {'Cp': 0.22, 'alpha': 0.22, 'Pr': 0.22, 'P_vapor': 0.25, 'z_vol': 0.2, 'get_normalized_mol': 0.33, 'get_normalized_mass': 0.33, 'get_normalized_vol': 0.33}
