"""C14 — every derived stream property reflects the current state, never a stale one.

Monitor (FreshTwin): each property read on a real stream (or on its proxy, a linked stream, a phase view) at a random
point of a mutation history is compared with the same property of a brand-new stream built from the reader's current
(flows, phases, T, P, thermo).  A counter on the mixture-model methods tells memo hits from recomputations.
"""
import numpy as np
import thermosteam as tmo
from vt.core import case_hash
from vt.common import thermo_of, phase_ledger, stream_invariant

PID = 'C14'
RULE = ('histories of 8-40 steps on a single- or multi-phase stream (5 chemicals): reads of H, S, h, C, Cn, Cp, V, rho, mu, nu, kappa, alpha, Pr, sigma, epsilon, Hvap, MW, F_vol, z_mol/z_mass '
        'on the stream / its proxy / a linked stream / a phase view, interleaved with T=, P=, phase=, single-entry flow edits through mol/imol/imass/ivol/phase views, total-only changes '
        '(scale, F_mol=), composition-only changes, set-back-to-previous-value steps, mix_from, link/unlink, property-package reset, phase-set changes. '
        'Added: cases without a proxy / dropping the proxy (so that package and phase-set changes happen late in a history), reads of Hnet, Hf, LHV, HHV, z_vol, P_vapor, phase fractions, '
        'get_normalized_mol/mass/vol and get_concentration and of Cp, alpha, nu, Pr, z_mol, z_mass on multi-phase streams, a flow_proxy reader; mutators H=, S=, h=, Hnet=, copy_like, copy_flow, '
        'copy_thermal_condition, copy_phase, split_to, separate_out, += -= *= /=, receive_vent, set_flow, set_total_flow, F_mass=, F_vol=, reset_flow, get_data/set_data (back to an earlier state), '
        'empty_negative_flows, mol= / mol[:]=, thermal_condition.T/P=, temporary(), temporary_phase(), vle, lle; multi-phase composition-only (swap inside a phase, swap between phases) and phase-only (collapse) changes; '
        'reverse links s.link_with(other, any flag subset), s.unlink() and s.reset_cache() with a live proxy; empty / fill (same composition, other total) / scale(0); '
        'edits through a phase view (imass, ivol, scale, F_mol=, empty); mixing with an energy balance. '
        'non-trivial = a read that follows >=1 mutation since the previous read of the same property by the same reader; distinct = hash of (history prefix, read)')
MIN_NONTRIVIAL = {'quick': 1500, 'thorough': 50000}
ASSUMPTIONS = ['the fresh twin is built through the public constructors from the observable state of the reader', 'reads that raise on the fresh twin as well are counted, not judged']
IDS = ('Water', 'Ethanol', 'Methanol', 'Octane', 'Acetone')
PERM = ('Octane', 'Water', 'Acetone', 'Ethanol', 'Methanol')
PROPS = ['H', 'S', 'h', 'C', 'Cn', 'Cp', 'V', 'rho', 'mu', 'nu', 'kappa', 'alpha', 'Pr', 'sigma', 'epsilon', 'Hvap', 'MW', 'F_vol', 'z_mol', 'z_mass', 'F_mass']
MULTI_PROPS = ['H', 'S', 'h', 'C', 'MW', 'F_vol', 'F_mass', 'Hvap', 'sigma', 'epsilon', 'V', 'Cn', 'rho', 'mu', 'kappa']
# added: derived quantities (also on multi-phase streams) and call-style reads
PROPS2 = ['Hnet', 'Hf', 'LHV', 'HHV', 'z_vol', 'P_vapor', 'vapor_fraction', 'liquid_fraction', 'solid_fraction', 'get_normalized_mol', 'get_normalized_mass', 'get_normalized_vol', 'get_concentration']
MULTI_PROPS2 = ['Cp', 'alpha', 'nu', 'Pr', 'z_mol', 'z_mass', 'Hnet', 'Hf', 'LHV', 'HHV', 'z_vol', 'vapor_fraction', 'liquid_fraction', 'solid_fraction', 'get_normalized_mol', 'get_normalized_mass',
                'get_normalized_vol', 'get_concentration']
MUTATORS = ['H=', 'S=', 'h=', 'Hnet=', 'H=0', 'copy_like', 'copy_flow', 'copy_thermal_condition', 'copy_phase', 'split_to', 'separate_out', 'iadd', 'isub', 'imul', 'idiv', 'receive_vent', 'set_flow',
            'set_total_flow', 'F_mass=', 'F_vol=', 'reset_flow', 'empty_negative_flows', 'mol=', 'mol[:]=', 'tc.T=', 'tc.P=', 'temporary', 'vle', 'lle']
SOLVER_MUTATORS = ('H=', 'H=0', 'S=', 'h=', 'Hnet=', 'separate_out', 'isub', 'iadd', 'receive_vent', 'vle', 'lle', 'mixE', 'split_to')
PROGRAMMING_ERRORS = (AttributeError, TypeError, NameError, KeyError, IndexError, AssertionError, UnboundLocalError)

_calls = {'n': 0}
_installed = False


def install_counter():
    """wraps the mixture-model entry points so that a read with zero calls is known to be a memo hit."""
    global _installed
    if _installed: return
    from thermosteam.mixture import mixture as mx
    classes = [getattr(mx, n) for n in dir(mx) if isinstance(getattr(mx, n), type) and n.endswith('Mixture')]
    names = ['H', 'S', 'Cn', 'V', 'mu', 'kappa', 'sigma', 'epsilon', 'Hvap', 'xH', 'xS', 'xCn', 'xV', 'xmu', 'xkappa']
    for cls in classes:
        for n in names:
            f = cls.__dict__.get(n)
            if f is None or not callable(f): continue
            def make(f):
                def g(*a, **k):
                    _calls['n'] += 1
                    return f(*a, **k)
                g.__name__ = getattr(f, '__name__', 'g')
                return g
            setattr(cls, n, make(f))
    _installed = True


def required(tier):
    return ['fresh', 'memo-hit', 'recomputed', 'reader:proxy', 'reader:linked', 'reader:view', 'reader:self', 'multi-phase', 'set-back',
            # added
            'reader:fproxy', 'no-proxy-case', 'late:package', 'late:phases', 'package:other-values', 'read:derived', 'read:multi-derived', 'read:empty-state', 'mcomp:swap-row', 'mcomp:swap-phase', 'collapse', 'link-rev', 'self-unlink',
            'reset_cache', 'empty', 'fill', 'scale0', 'view-mut', 'mixE', 'restore'] + ['mut:' + m for m in MUTATORS]


_TH3 = {}


def twin_of(s):
    th = s._thermo
    if isinstance(s, tmo.MultiStream):
        t = tmo.MultiStream(None, phases=tuple(s.phases), T=s.T, P=s.P, thermo=th)
        for p, row in zip(s.phases, s.imol.data.rows):
            for j, v in row.dct.items(): t.imol.data.rows[t.phases.index(p)].dct[j] = v
    else:
        t = tmo.Stream(None, phase=s.phase, T=s.T, P=s.P, thermo=th)
        for j, v in s.imol.data.dct.items(): t.imol.data.dct[j] = v
    return t


def gen_case(rng):
    n = len(IDS)
    multi = rng.random() < 0.35
    def flows(): return [0.0 if rng.random() < 0.3 else round(10 ** rng.uniform(-1, 3), 4) for _ in range(n)]
    start = {'multi': multi, 'T': round(rng.uniform(295, 350), 2), 'P': rng.choice([101325., 5e4, 3e5]), 'phase': rng.choice('lg'),
             'phases': rng.choice(['lg', 'lL', 'glL']), 'flows': [flows() for _ in range(3)], 'proxy_at': rng.randrange(0, 6), 'link_flags': [True, rng.random() < 0.7, rng.random() < 0.7]}
    # added: histories without a proxy (property-package and phase-set changes can then happen anywhere in the history)
    if rng.random() < 0.4: start['proxy_at'] = None
    steps = []
    Ts = [start['T'], round(rng.uniform(295, 350), 2), round(rng.uniform(295, 350), 2)]
    for _ in range(rng.randrange(8, 41)):
        t = rng.choices(['read', 'read', 'read', 'T', 'P', 'phase', 'flow', 'scale', 'F_mol', 'comp', 'mix', 'link', 'unlink', 'package', 'phases', 'refill', 'Tback',
                         'read2', 'mut', 'mcomp', 'collapse', 'link-rev', 'self-unlink', 'reset_cache', 'mk-fproxy', 'drop-proxy', 'empty', 'fill', 'scale0', 'view-mut', 'mixE', 'snapshot', 'restore'],
                        [10, 10, 10, 4, 2, 3, 6, 2, 1, 2, 1, 1, 1, 1, 2, 1, 3,
                         22, 8, 2, 0.5, 1, 0.7, 0.7, 2, 0.7, 0.7, 1.2, 0.4, 2, 0.7, 1.5, 1.5])[0]
        st = {'t': t, 'k': rng.randrange(1000), 'i': rng.randrange(n), 'v': round(10 ** rng.uniform(-1, 3), 4)}
        if t == 'read': st['p'] = rng.choice(PROPS); st['who'] = rng.choice(['self', 'self', 'proxy', 'linked', 'view'])
        if t == 'read2':
            st['t'] = 'read'; st['p'] = rng.choice(PROPS2 + MULTI_PROPS2 + PROPS[:8]); st['who'] = rng.choice(['self', 'self', 'proxy', 'linked', 'view', 'fproxy'])
        if t in ('T', 'Tback'): st['v'] = rng.choice(Ts) if t == 'Tback' or rng.random() < 0.5 else round(rng.uniform(295, 350), 2)
        if t == 'P': st['v'] = rng.choice([101325., 5e4, 3e5])
        if t == 'phase': st['v'] = rng.choice('lg')
        if t == 'flow': st['via'] = rng.choice(['mol', 'imol', 'imass', 'ivol', 'view', 'proxy', 'linked'])
        if t == 'package': st['pk'] = rng.choice([1, 2])
        if t == 'phases': st['v'] = rng.choice(['lg', 'lL', 'glL', 'gL'])
        if t in ('T', 'P', 'Tback'): st['via'] = rng.choice(['self', 'proxy', 'linked', 'view'])
        if t == 'mut':
            st['m'] = rng.choice(MUTATORS)
            if st['m'] in ('vle', 'lle') and rng.random() < 0.6: st['m'] = rng.choice(MUTATORS[:27])     # the equilibrium solvers are slow: drawn less often
            st['T'] = rng.choice(Ts) if rng.random() < 0.5 else round(rng.uniform(295, 350), 2)
            st['P'] = rng.choice([101325., 5e4, 3e5]); st['eb'] = rng.random() < 0.5
        if t == 'mcomp': st['form'] = rng.choice(['swap-row', 'swap-phase'])
        if t == 'collapse': st['v'] = rng.choice('lg')
        if t == 'link-rev': st['flags'] = [rng.random() < 0.6, rng.random() < 0.6, rng.random() < 0.6]; st['T'] = rng.choice(Ts); st['P'] = rng.choice([101325., 5e4, 3e5])
        if t == 'view-mut': st['form'] = rng.choice(['imass', 'ivol', 'scale', 'F_mol', 'empty'])
        if t == 'mixE': st['T'] = round(rng.uniform(295, 350), 2)
        steps.append(st)
    # directed pattern that defeats key comparison: reader A reads at state a, reader B reads at state b, back to a, A reads again
    if rng.random() < 0.5:
        prop = rng.choice(['H', 'S', 'C', 'V', 'mu', 'h', 'rho'])
        A, B = rng.sample(['self', 'proxy', 'linked', 'view'], 2)
        what = rng.choice(['T', 'T', 'P', 'flow'])
        a, b = (Ts[0], Ts[1]) if what == 'T' else ((101325., 3e5) if what == 'P' else (12.5, 77.25))
        def mut(v):
            if what == 'flow': return {'t': 'flow', 'k': 0, 'i': 0, 'v': v, 'via': 'imol'}
            return {'t': what, 'k': 0, 'i': 0, 'v': v, 'via': 'self'}
        pat = [mut(a), {'t': 'read', 'k': 0, 'i': 0, 'v': 0, 'p': prop, 'who': A}, mut(b), {'t': 'read', 'k': 0, 'i': 0, 'v': 0, 'p': prop, 'who': B},
               mut(a), {'t': 'read', 'k': 0, 'i': 0, 'v': 0, 'p': prop, 'who': A}]
        pa = start['proxy_at'] if start['proxy_at'] is not None else 0
        at = rng.randrange(pa + 1, max(pa + 2, len(steps)))
        if rng.random() < 0.5: steps.insert(min(at, len(steps)), {'t': 'link', 'k': 0, 'i': 0, 'v': 0}); at += 1
        steps[at:at] = pat
    # added directed pattern: read at a non-empty state, empty, read, restore the same composition with another total, read
    if rng.random() < 0.15:
        prop = rng.choice(['H', 'S', 'C', 'V', 'h', 'rho', 'Cn', 'F_vol', 'Hvap'])
        rd = {'t': 'read', 'k': 0, 'i': 0, 'v': 0, 'p': prop, 'who': 'self'}
        at = rng.randrange(0, len(steps) + 1)
        steps[at:at] = [dict(rd), {'t': rng.choice(['empty', 'scale0']), 'k': 0, 'i': 0, 'v': 1.0}, dict(rd), {'t': 'fill', 'k': 0, 'i': 0, 'v': rng.choice([1.0, 2.5, 0.4])}, dict(rd)]
    # added directed pattern: a reader reads, the property package is replaced by one that gives other values for the same state, the same reader reads again
    # (no proxy / link may be alive for the package step: placed before the proxy is created, or in a case without one)
    if start['proxy_at'] is None and rng.random() < 0.35:
        prop = rng.choice(['H', 'S', 'C', 'h', 'Cn', 'Hnet'] if not start['multi'] else ['H', 'S', 'C', 'h'])
        who = rng.choice(['self', 'view', 'view']) if start['multi'] else 'self'
        rd = {'t': 'read', 'k': 0, 'i': 0, 'v': 0, 'p': prop, 'who': who}
        pat = [dict(rd), {'t': 'package', 'k': 0, 'i': 0, 'v': 0, 'pk': 2}, dict(rd), {'t': 'package', 'k': 0, 'i': 0, 'v': 0, 'pk': rng.choice([1, 2])}, dict(rd)]
        at = 0 if rng.random() < 0.5 else rng.randrange(0, 3)
        steps[at:at] = pat
    if rng.random() < 0.03: steps.append({'t': 'mut', 'm': 'temporary_phase', 'k': 0, 'i': 0, 'v': 1.0, 'T': Ts[0], 'P': 101325., 'eb': False})
    return {'start': start, 'steps': steps}


def build(start, th):
    if start['multi']:
        s = tmo.MultiStream(None, phases=tuple(start['phases']), T=start['T'], P=start['P'], thermo=th)
        for p, row in zip(s.phases, start['flows']):
            for i, v in zip(IDS, row):
                if v: s.imol[p, i] = v
    else:
        s = tmo.Stream(None, phase=start['phase'], T=start['T'], P=start['P'], thermo=th)
        for i, v in zip(IDS, start['flows'][0]):
            if v: s.imol[i] = v
    return s


CALL_IDS = ('Water', 'Ethanol', 'Octane')


def value_of(s, p):
    if p.startswith('get_'):
        # added: call-style reads
        if p == 'get_concentration':
            v = s.get_concentration(s.phases[0], CALL_IDS[:2]) if isinstance(s, tmo.MultiStream) else s.get_concentration(CALL_IDS[:2])
        else:
            v = getattr(s, p)(CALL_IDS)
    else:
        v = getattr(s, p)
    if hasattr(v, 'to_array'): v = v.to_array()
    return v


def equal(a, b):
    if a is None or b is None: return a is None and b is None
    a = np.asarray(a, float); b = np.asarray(b, float)
    if a.shape != b.shape: return False
    return bool(np.all(np.abs(a - b) <= 1e-10 * np.maximum(np.abs(a), np.abs(b)) + 1e-300))


def perturbed_twin(s, st):
    """a second stream of the same class, package and phases as s with other T, P and flows (deterministic in the step)."""
    o = twin_of(s)
    o.T = st['T']; o.P = st['P']
    o.imol.data *= 0.5 + (st['k'] % 7) / 4.
    i = IDS[st['i']]
    if isinstance(o, tmo.MultiStream): o.imol[o.phases[st['k'] % len(o.phases)], i] = st['v']
    else: o.imol[i] = st['v']
    return o


def apply_mutator(s, st, rec):
    """added: the remaining public mutators. Returns False when the step was not applicable (nothing changed)."""
    m = st['m']; k = st['k']; v = st['v']
    multi = isinstance(s, tmo.MultiStream)
    dT = (k % 21) - 10.
    i = IDS[st['i']]
    ph = s.phases[k % len(s.phases)] if multi else None
    if m == 'H=': s.H = s.H + s.C * dT
    elif m == 'H=0': s.H = 0.        # on an empty stream: the documented silent return
    elif m == 'S=': s.S = s.S + s.C * 0.003 * dT
    elif m == 'h=':
        if not s.F_mol: return False
        s.h = s.h + s.C / s.F_mol * dT
    elif m == 'Hnet=': s.Hnet = s.Hnet + s.C * dT
    elif m == 'copy_like': s.copy_like(perturbed_twin(s, st))
    elif m == 'copy_flow': s.copy_flow(perturbed_twin(s, st))
    elif m == 'copy_thermal_condition': s.copy_thermal_condition(perturbed_twin(s, st))
    elif m == 'copy_phase':
        if multi: return False
        o = perturbed_twin(s, st); o.phase = 'g' if s.phase == 'l' else 'l'
        s.copy_phase(o)
    elif m == 'split_to':
        o = perturbed_twin(s, st); junk = twin_of(s)
        o.split_to(s, junk, 0.1 + (k % 8) / 10., energy_balance=st['eb'])
    elif m == 'separate_out':
        o = twin_of(s); o.imol.data *= 0.3; o.T = st['T']
        s.separate_out(o, energy_balance=st['eb'])
    elif m == 'isub':
        o = twin_of(s); o.imol.data *= 0.25
        s -= o
    elif m == 'iadd':
        o = perturbed_twin(s, st)
        s += o
    elif m == 'imul': s *= 0.5 + (k % 9) / 4.
    elif m == 'idiv': s /= 0.5 + (k % 9) / 4.
    elif m == 'receive_vent':
        if multi or s.phase != 'g' or not s.F_mol: return False
        o = tmo.Stream(None, Water=v, Ethanol=v / 3, T=st['T'], P=s.P, thermo=s._thermo)
        s.receive_vent(o, energy_balance=st['eb'])
    elif m == 'set_flow':
        if multi: s.set_flow(v, 'kg/hr', (ph, i))
        else: s.set_flow([v, v / 2], 'lb/hr', (i, IDS[(st['i'] + 1) % len(IDS)]))
    elif m == 'set_total_flow':
        if not s.F_mol: return False
        s.set_total_flow(v, 'kg/hr')
    elif m == 'F_mass=':
        if not s.F_mol: return False
        s.F_mass = v
    elif m == 'F_vol=':
        if not s.F_mol: return False
        s.F_vol = v / 100.
    elif m == 'reset_flow':
        if multi: s.reset_flow(units='kg/hr', phases=s.phases, **{ph: [(i, v), ('Water', v / 2)]})
        else: s.reset_flow(units='kg/hr', **{i: v, 'Methanol': v / 2})
    elif m == 'empty_negative_flows':
        if multi: s.imol[ph, i] = -v
        else: s.imol[i] = -v
        s.empty_negative_flows()
    elif m in ('mol=', 'mol[:]='):
        arr = np.array([v * ((j + k) % 3) for j in range(len(IDS))], float)
        if multi: s.imol[ph] = arr
        elif m == 'mol=': s.mol = arr
        else: s.mol[:] = arr
    elif m == 'tc.T=': s.thermal_condition.T = st['T']
    elif m == 'tc.P=': s.thermal_condition.P = st['P']
    elif m == 'temporary':
        with s.temporary(T=st['T'], P=st['P']):
            # a read inside the context is judged like any other read
            tw = twin_of(s)
            for p in ('H', 'V' if not multi else 'C'):
                try: exp = value_of(tw, p)
                except Exception: continue
                got = value_of(s, p)
                rec.check(equal(got, exp), 'fresh', f'self/inside-temporary/{"multi" if multi else "single"}', f'inside temporary(T={st["T"]}, P={st["P"]}): {p} = {got} but a freshly built stream gives {exp}')
    elif m == 'temporary_phase':
        if multi: return False
        ph2 = 'g' if s.phase == 'l' else 'l'
        with s.temporary_phase(ph2):
            tw = twin_of(s)
            exp = value_of(tw, 'H'); got = value_of(s, 'H')
            rec.check(s.phase == ph2 and equal(got, exp), 'fresh', 'self/inside-temporary_phase/single', f'inside temporary_phase({ph2!r}): phase {s.phase!r}, H = {got} but a freshly built stream gives {exp}')
    elif m == 'vle':
        if not s.F_mol: return False
        s.vle(V=0.2 + (k % 7) / 10., P=s.P)
    elif m == 'lle':
        if not s.F_mol: return False
        s.lle(T=s.T, P=s.P)
    else:
        raise ValueError(m)
    return True


def run_case(case, rec):
    install_counter()
    rec.begin_case(case)
    th = thermo_of(IDS); th2 = thermo_of(PERM)
    # a third package over the same chemicals whose mixture model gives OTHER values for the same state (pure-component excess energies included):
    # a memo that survives the package change is visible only if the new package disagrees with the old one
    th3 = _TH3.get('th3')
    if th3 is None:
        th3 = _TH3['th3'] = tmo.Thermo(th.chemicals, mixture=tmo.mixture.IdealMixture.from_chemicals(th.chemicals, include_excess_energies=True))
    packages = [th, th2, th3]
    s = build(case['start'], th)
    proxy = None; linked = None
    fproxy = None; rev = False; snap = None
    if case['start']['proxy_at'] is None: rec.hit('no-proxy-case')
    dirty = {}     # (reader, prop) -> mutated since last read
    mutated_since = 0
    def mark():
        nonlocal mutated_since
        mutated_since += 1
        for k in dirty: dirty[k] = True
    Thist = []
    for k, st in enumerate(case['steps']):
        t = st['t']
        multi = isinstance(s, tmo.MultiStream)
        if k == case['start']['proxy_at']:
            try:
                proxy = s.proxy()
            except Exception as e:
                rec.exception('proxy', e, what=f'proxy() raised {type(e).__name__}: {e}'); proxy = None
        try:
            if t == 'read':
                who = st['who']; p = st['p']
                if multi and who in ('self', 'proxy', 'linked') and p not in MULTI_PROPS and p not in MULTI_PROPS2: p = MULTI_PROPS[st['k'] % len(MULTI_PROPS)]
                if who == 'proxy':
                    if proxy is None or type(proxy) is not type(s): who = 'self'
                if who == 'linked' and linked is None: who = 'self'
                if who == 'view' and not multi: who = 'self'
                if who == 'fproxy' and fproxy is None: who = 'self'
                reader = {'self': s, 'proxy': proxy, 'linked': linked, 'fproxy': fproxy}.get(who)
                if who == 'view':
                    ph = s.phases[st['k'] % len(s.phases)]
                    reader = s[ph]
                    if p not in PROPS and p not in PROPS2: p = 'H'
                if who == 'fproxy' and isinstance(reader, tmo.MultiStream) and p not in MULTI_PROPS and p not in MULTI_PROPS2: p = 'H'
                try:
                    tw = twin_of(reader)
                    exp = value_of(tw, p); terr = None
                except Exception as e:
                    exp = None; terr = e
                c0 = _calls['n']
                try:
                    got = value_of(reader, p); gerr = None
                except Exception as e:
                    got = None; gerr = e
                ncalls = _calls['n'] - c0
                if terr is not None:
                    rec.refuse(f'property {p} undefined for this state ({type(terr).__name__})'); continue
                if gerr is not None:
                    rec.exception('fresh', gerr, what=f'step {k}: reading {p} on {who} raised {type(gerr).__name__}: {str(gerr)[:120]} but a fresh twin returns {exp}'); return
                if exp is not None and np.any(np.isnan(np.asarray(exp, float))):
                    rec.refuse(f'property {p} undefined (nan) on the fresh twin'); continue
                state = {'reader': who, 'prop': p, 'T': reader.T, 'P': reader.P, 'phases': tuple(reader.phases) if isinstance(reader, tmo.MultiStream) else reader.phase}
                rec.check(equal(got, exp), 'fresh', f'{who}/{"proxy-alive" if proxy is not None else "no-proxy"}/{"multi" if isinstance(reader, tmo.MultiStream) else "single"}',
                          f'step {k}: {who}.{p} = {np.asarray(got).tolist() if got is not None else None} but a freshly built stream with the same state gives {np.asarray(exp).tolist() if exp is not None else None} ({state})',
                          detail={'state': state, 'memo_hit': ncalls == 0})
                rec.hit('reader:' + who)
                rec.hit('memo-hit' if ncalls == 0 else 'recomputed')
                if isinstance(reader, tmo.MultiStream): rec.hit('multi-phase')
                if p in PROPS2: rec.hit('read:derived')
                if isinstance(reader, tmo.MultiStream) and p in MULTI_PROPS2: rec.hit('read:multi-derived')
                if not reader.F_mol: rec.hit('read:empty-state')
                key = (who, p)
                if dirty.get(key, False): rec.mark_nontrivial(case_hash((case['start'], case['steps'][:k + 1])))
                dirty[key] = False
                continue
            # ---- mutations
            target = s
            via = st.get('via')
            if via == 'proxy' and proxy is not None and type(proxy) is type(s): target = proxy
            elif via == 'linked' and linked is not None: target = linked
            if t in ('T', 'Tback'):
                if via == 'view' and multi: s[s.phases[st['k'] % len(s.phases)]].T = st['v']
                else: target.T = st['v']
                if st['v'] in Thist: rec.hit('set-back')
                Thist.append(st['v'])
            elif t == 'P':
                if via == 'view' and multi: s[s.phases[st['k'] % len(s.phases)]].P = st['v']
                else: target.P = st['v']
            elif t == 'phase':
                if multi: continue
                s.phase = st['v']
            elif t == 'flow':
                i = IDS[st['i']]
                if multi:
                    ph = s.phases[st['k'] % len(s.phases)]
                    if via in ('imass',): s.imass[ph, i] = st['v']
                    elif via == 'ivol': s.ivol[ph, i] = st['v'] / 100.
                    elif via == 'view': s[ph].imol[i] = st['v']
                    elif via == 'proxy' and target is proxy: proxy.imol[ph, i] = st['v']
                    elif via == 'linked' and target is linked: linked.imol[ph, i] = st['v']
                    else: s.imol[ph, i] = st['v']
                else:
                    if via == 'mol': s.mol[s.chemicals.index(i)] = st['v']
                    elif via == 'imass': s.imass[i] = st['v']
                    elif via == 'ivol': s.ivol[i] = st['v'] / 100.
                    else: target.imol[i] = st['v']
            elif t == 'scale': s.scale(st['v'] / 50.)
            elif t == 'F_mol':
                if s.F_mol: s.F_mol = st['v']
            elif t == 'comp':
                # composition-only change: swap two entries (total unchanged)
                if multi: continue
                a, b = s.chemicals.IDs[st['i']], s.chemicals.IDs[(st['i'] + 1) % len(IDS)]
                x, y = s.imol[a], s.imol[b]
                s.imol[a] = y; s.imol[b] = x
            elif t == 'mix':
                if linked is not None: continue
                o = build(case['start'], s._thermo if s._thermo is th else th2) if False else tmo.Stream(None, Water=st['v'], Ethanol=st['v'] / 3, T=310, thermo=s._thermo)
                fproxy = None
                s.mix_from([s, o], energy_balance=False)
            elif t == 'link':
                if linked is not None: continue
                linked = twin_of(s)
                linked.link_with(s, *case['start']['link_flags'])
            elif t == 'unlink':
                if linked is None: continue
                if rev: s.unlink(); rev = False; linked = None; fproxy = None
                else: linked.unlink(); linked = None
            elif t == 'package':
                if linked is not None or proxy is not None: continue
                fproxy = None
                cur = [k_ for k_, t_ in enumerate(packages) if t_ is s._thermo]
                new = packages[((cur[0] if cur else 0) + st.get('pk', 1)) % 3]
                if new is th3 or s._thermo is th3: rec.hit('package:other-values')
                s._reset_thermo(new)
                if k >= 6: rec.hit('late:package')
            elif t == 'phases':
                if linked is not None or (proxy is not None): continue
                have = {p for (p, c), v in phase_ledger(s).items() if v}
                fproxy = None
                s.phases = tuple(set(st['v']) | have)
                if k >= 6: rec.hit('late:phases')
            elif t == 'refill':
                if linked is not None: continue
                s.empty()
                if multi: s.imol[s.phases[0], IDS[st['i']]] = st['v']
                else: s.imol[IDS[st['i']]] = st['v']
            # ---------------- added steps
            elif t == 'mut':
                m = st['m']
                if m in ('vle', 'lle', 'copy_like', 'reset_flow', 'temporary', 'receive_vent', 'split_to', 'iadd') and linked is not None: continue    # may change the class / phase set of one side of a link
                if m in ('vle', 'lle', 'copy_like', 'reset_flow', 'temporary', 'receive_vent', 'split_to', 'iadd', 'copy_flow', 'separate_out', 'isub'): fproxy = None
                try:
                    if not apply_mutator(s, st, rec): continue
                except PROGRAMMING_ERRORS: raise
                except Exception as e:
                    if m in SOLVER_MUTATORS: rec.refuse(f'{m} did not return normally ({type(e).__name__})')
                    else: raise
                else:
                    rec.hit('mut:' + m)
            elif t == 'mcomp':
                if not multi: continue
                rows = s.imol.data.rows
                if st['form'] == 'swap-row':
                    # composition-only change inside one phase: swap two entries of a row (totals unchanged)
                    ph = s.phases[st['k'] % len(s.phases)]
                    a, b = IDS[st['i']], IDS[(st['i'] + 1) % len(IDS)]
                    x, y = s.imol[ph, a], s.imol[ph, b]
                    s.imol[ph, a] = y; s.imol[ph, b] = x
                    rec.hit('mcomp:swap-row')
                else:
                    # phase-only change: a chemical's flows are swapped between two phases (per-chemical and overall totals unchanged)
                    p1 = s.phases[st['k'] % len(s.phases)]; p2 = s.phases[(st['k'] + 1) % len(s.phases)]
                    a = IDS[st['i']]
                    x, y = s.imol[p1, a], s.imol[p2, a]
                    s.imol[p1, a] = y; s.imol[p2, a] = x
                    rec.hit('mcomp:swap-phase')
            elif t == 'collapse':
                if not multi or linked is not None: continue
                fproxy = None
                s.phase = st['v']
                rec.hit('collapse')
            elif t == 'link-rev':
                # the stream under test (with a populated memo) borrows the data of another stream; the other stream is then mutated / read as 'linked'
                if linked is not None: continue
                other = perturbed_twin(s, st)
                fproxy = None
                s.link_with(other, *st['flags'])
                linked = other; rev = True
                rec.hit('link-rev')
            elif t == 'self-unlink':
                fproxy = None
                s.unlink()
                if rev: rev = False; linked = None
                rec.hit('self-unlink')
            elif t == 'reset_cache':
                s.reset_cache(); rec.hit('reset_cache')
            elif t == 'mk-fproxy':
                fproxy = s.flow_proxy()
            elif t == 'drop-proxy':
                proxy = None
            elif t == 'empty':
                s.empty(); rec.hit('empty')
            elif t == 'scale0':
                s.scale(0.); rec.hit('scale0')
            elif t == 'fill':
                # the start composition with another total
                if multi:
                    for p, row in zip(tmo.MultiStream(None, phases=tuple(case['start']['phases']), thermo=s._thermo).phases, case['start']['flows']):
                        if p not in s.phases: continue
                        for i, v in zip(IDS, row): s.imol[p, i] = v * st['v'] if v else 0.
                else:
                    for i, v in zip(IDS, case['start']['flows'][0]): s.imol[i] = v * st['v'] if v else 0.
                rec.hit('fill')
            elif t == 'view-mut':
                if not multi: continue
                view = s[s.phases[st['k'] % len(s.phases)]]
                i = IDS[st['i']]; form = st['form']
                if form == 'imass': view.imass[i] = st['v']
                elif form == 'ivol': view.ivol[i] = st['v'] / 100.
                elif form == 'scale': view.scale(st['v'] / 50.)
                elif form == 'F_mol':
                    if not view.F_mol: continue
                    view.F_mol = st['v']
                else: view.empty()
                rec.hit('view-mut')
            elif t == 'mixE':
                if linked is not None: continue
                o = tmo.Stream(None, Water=st['v'], Ethanol=st['v'] / 3, T=st['T'], thermo=s._thermo)
                fproxy = None
                try: s.mix_from([s, o], energy_balance=True)
                except PROGRAMMING_ERRORS: raise
                except Exception as e: rec.refuse(f'mixE did not return normally ({type(e).__name__})')
                rec.hit('mixE')
            elif t == 'snapshot':
                snap = s.get_data()
            elif t == 'restore':
                if snap is None or linked is not None: continue
                if snap._imol.chemicals is not s.chemicals: continue      # taken under the other property package
                fproxy = None
                s.set_data(snap)
                rec.hit('restore')
            if proxy is not None and proxy._imol is not s._imol:
                # the added steps can replace the indexer of s (unlink, phase-set change, collapse, restore): the old proxy is then a separate stream, no longer a proxy of s
                proxy = None; rec.hit('proxy-detached')
            mark()
        except Exception as e:
            rec.exception('mutation', e, what=f'step {k} {st} raised {type(e).__name__}: {str(e)[:150]}'); return
    e = stream_invariant(s)
    rec.check(e is None, 'invariant', 'end', f'sparse invariant: {e}')


def replay(case, rec):
    run_case(case, rec)


def run(rec, rng, tier, shard, nshards):
    n = 1000 if tier == 'quick' else 12000
    for i in range(n):
        case = gen_case(rng)
        try:
            run_case(case, rec)
        except Exception as e:
            rec.exception('harness', e, what=f'harness error: {type(e).__name__}: {e}')
        if i % 101 == 0: rec.sample({'start': case['start'], 'steps': case['steps'][:8], 'n_steps': len(case['steps'])})
    tot = rec.reach.get('memo-hit', 0) + rec.reach.get('recomputed', 0)
    rec.notes['memo_hit_fraction'] = round(rec.reach.get('memo-hit', 0) / tot, 3) if tot else 0.0
