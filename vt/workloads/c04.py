"""C04 — a vapour-liquid flash honours its specifications and the equilibrium conditions.

Monitor: T, P, H, S, vapour fraction and phase rows of the real stream are read after each vle(...) call and judged
against the specification, against fugacities recomputed by the harness from the package's model objects, against the
public bubble / dew point solvers, against an independent Raoult's-law Rachford-Rice flash (ideal package) and against
the flash of the k-times scaled feed.
"""
import math, random, warnings
import numpy as np
import thermosteam as tmo
from thermosteam import equilibrium as eq
from vt.core import case_hash

PID = 'C04'
RULE = ('compositions of 1-5 volatile chemicals (family-restricted for the vapour-fraction / phase-boundary / iso-fugacity clauses, any for the ideal-package clause), every mole fraction >= 0.02 in the family clauses, '
        'with or without <= 2 mol % N2 (gas-locked) / glucose (solid-locked), F in 10^U(-2,3), T 280-450 K, P 2e4-1e6 Pa, V in (0.02,0.98), H/S between the V=0.02 and V=0.98 values, k in 10^U(-3,3). '
        'per composition: TP, PV, TV, PH, PS, TH, TS flashes, an independent TP re-flash, the ideal-package Rachford-Rice comparison and the scaled-feed flash. '
        'added by the coverage audit: H / S flashes of a single chemical (alone, with a solid, with a gas) incl. targets just outside the saturated values, P exactly at Psat / the bubble / the dew pressure, P/V and T/V on every kind of '
        'mixture (kept variable), scaling under PV, TV and PH, N2 and glucose together, the ideal-package Rachford-Rice comparison with N2 as non-partitioning gas, a feed that starts split over g / l, T/P -> P/V -> P/H chained on one stream, '
        'VLE method shgo under the phase-boundary and iso-fugacity clauses. '
        'seeded round 5, one HISTORY per case on one stream (one VLE object; its own draw of chemicals from a whole family / from all chemicals with the ideal package, in a package that holds more chemicals than the stream): '
        'first flash (TV, TP, TH, TS, PV, PH) - the contents change (one chemical swapped, dropped, added, a disjoint set, new proportions, k times the contents, nothing, or another stream of the package is flashed instead; '
        'through imol assignment, touching only what changes, copy_flow, copy_like, mix_from, empty + set, a proxy; the stream starts as MultiStream or Stream; N2 present, appearing or vanishing) - second flash at the very '
        'temperature of the first (80 %) inside the two-phase window of the new contents (85 %) with TP, TV, PV, PH, TH or x / y - optionally back to the first set and a third T-P flash; judged by the same clauses on the new contents. '
        'non-trivial = two-phase result; distinct = hash of the case')
MIN_NONTRIVIAL = {'quick': 150, 'thorough': 4000}
ASSUMPTIONS = ['scaling under P/S is not judged: the liquid entropy functions of the property package (HEOS_FIT heat-capacity integrals of the thermo dependency) jump by whole J/mol/K between adjacent temperatures, so equal entropies do not identify equal states',
               'fugacities are recomputed from thermo.Gamma / Phi / PCF and Chemical.Psat (the same model objects the flash uses)',
               'scaling bound 1e-5 of the feed (two fixed points converged to K_tol=1e-6; observed 3.3e-7 once in 24 000 compositions, otherwise 1e-15)', 'independent re-flash bound 5e-3 in vapour fraction (two fixed points converged to K_tol=1e-6 from different guesses); entropy bound 5e-3 of (S_vap - S_liq): the final entropy correction moves a fraction of one phase linearly while the mixing entropy is not linear (observed up to 1.3e-3 on cross-family mixtures); T-specified H/S and TV bounds follow from P_tol = 1 Pa times the slope across the two-phase window',
               'histories: the pressure returned by T/V with the ideal package is compared with the pressure at which the Raoult Rachford-Rice vapour fraction equals the specification, bound 2 Pa (P_tol = 1 Pa) + 1e-5 of the window width (V_tol = 1e-6); a raise of the second flash is counted, not judged (the property speaks about calculations that return)']
FAM = {'alcohol': ('Methanol', 'Ethanol', 'Propanol', 'Butanol'), 'hydrocarbon': ('Hexane', 'Heptane', 'Octane', 'Benzene', 'Toluene')}
ANY = ('Water', 'Acetone') + FAM['alcohol'] + FAM['hydrocarbon']
_th = {}
_locked = {}


def required(tier):
    return ['spec-TP', 'spec-H', 'spec-S', 'vapour-fraction', 'independent-reflash', 'phase-boundary', 'iso-fugacity', 'raoult-rr', 'scaling', 'single-component', 'with-inerts', 'spec-xy', 'two-packages',
            # coverage audit
            'single:PH', 'single:PS', 'single:TH', 'single:TS', 'single:at-Psat', 'single+gas:H/S', 'V-spec:any-kind', 'boundary:P=P_bubble', 'boundary:P=P_dew', 'raoult-rr:with-gas', 'with-inerts:gas-and-solute',
            'initial-distribution', 'chained', 'method:shgo/inside',
            # seeded round 5: histories on one stream
            'history', 'history:family', 'history:ideal', 'history:same-T/changed-set/two-phase', 'history:inside-window', 'history:swap', 'history:drop', 'history:add', 'history:disjoint', 'history:new-proportions',
            'history:rescaled', 'history:unchanged', 'history:other-stream', 'history:third', 'history:obj=Stream', 'history:method=proxy', 'history:method=mix_from', 'history:method=imol-touch',
            'history:second=TP', 'history:second=TV', 'history:second=PV', 'history:second=PH', 'history:second=TH', 'history:second=xy']


def chem(i):
    if i == 'N2':
        if i not in _locked: _locked[i] = tmo.Chemical('N2', phase='g', cache=False)
        return _locked[i]
    if i == 'Glucose':
        if i not in _locked: _locked[i] = tmo.Chemical('Glucose', phase='s', cache=False)
        return _locked[i]
    return tmo.Chemical(i, cache=True)


def thermo(ids, ideal=False):
    k = (tuple(ids), ideal)
    if k not in _th:
        th = tmo.Thermo(tmo.Chemicals([chem(i) for i in ids]))
        _th[k] = th.ideal() if ideal else th
    return _th[k]


def gen_case(rng):
    kind = rng.choice(['family', 'family', 'family', 'any', 'ideal', 'single'])
    if kind == 'single':
        ids = [rng.choice(ANY)]
    elif kind == 'family':
        f = rng.choice(list(FAM)); ids = rng.sample(FAM[f], rng.randrange(2, len(FAM[f]) + 1) if len(FAM[f]) > 2 else 2)
    else:
        ids = rng.sample(ANY, rng.randrange(2, 6))
    x = [rng.uniform(0.05, 1) for _ in ids]; s = sum(x); x = [v / s for v in x]
    if kind == 'family':
        while min(x) < 0.02:
            x = [rng.uniform(0.05, 1) for _ in ids]; s = sum(x); x = [v / s for v in x]
    inert = None
    if kind in ('any', 'single') and rng.random() < 0.5: inert = rng.choice(['N2', 'Glucose'])
    c = {'kind': kind, 'ids': ids, 'x': x, 'F': round(10 ** rng.uniform(-2, 3), 5), 'inert': inert, 'inert_frac': round(rng.uniform(0.001, 0.02), 5),
            'T': round(rng.uniform(280, 450), 2), 'P': round(10 ** rng.uniform(math.log10(2e4), 6), 1), 'V': round(rng.uniform(0.03, 0.97), 4), 'f': round(rng.uniform(0.05, 0.95), 4) if rng.random() < 0.65 else rng.choice([-0.015, -0.005, 0.002, 0.01, 0.03, 0.97, 0.99, 1.005, 1.015]),
            'k': round(10 ** rng.uniform(-3, 3), 6),
            # the state the stream is in BEFORE each flash: the specified values must be written, not merely kept
            'dT0': rng.choice([0.0, round(rng.uniform(-60, 60), 2), round(rng.uniform(-60, 60), 2)]), 'P0f': rng.choice([1.0, 0.5, 2.0, round(10 ** rng.uniform(-0.5, 0.5), 3)])}
    # coverage audit: non-condensable gas AND non-volatile solute together; the ideal-package clause with a non-condensable gas; the feed initially vapour / split;
    # the pressure exactly on the bubble / dew pressure; the Gibbs-minimising solver method
    if kind == 'ideal' and rng.random() < 0.4: c['inert'] = 'N2'
    c['inert2'] = ({'N2': 'Glucose', 'Glucose': 'N2'}[c['inert']] if (c['inert'] and rng.random() < 0.4) else None)
    c['inert2_frac'] = round(rng.uniform(0.001, 0.02), 5)
    c['dist0'] = [rng.choice([0.0, 1.0, round(rng.random(), 3), round(rng.random(), 3)]) for _ in ids]
    c['boundary'] = rng.random() < 0.35
    c['shgo'] = rng.random() < 0.3
    c['shgo_inside'] = rng.random() < 0.75      # move the pressure of the shgo clause into the two-phase window when the random (T, P) is outside it
    # seeded round 5: a history on ONE stream (one VLE object): flash, the contents change, flash again.  The sub-case is drawn from a generator of its own
    # (seeded by the hash of the case so far) so that the cases above stay what they were
    c['hist'] = gen_hist(random.Random(int(case_hash(c), 16)))
    return c


def make(case, th, scale=1.0, split=False):
    s = tmo.MultiStream(None, phases=('g', 'l'), T=max(255., case['T'] + case.get('dT0', 0.0)), P=case['P'] * case.get('P0f', 1.0), thermo=th)
    F = case['F'] * scale
    for i, v in zip(case['ids'], case['x']): s.imol['l', i] = v * F
    if case['inert']:
        s.imol['g' if case['inert'] == 'N2' else 'l', case['inert']] = case['inert_frac'] * F
    if case.get('inert2'):
        s.imol['g' if case['inert2'] == 'N2' else 'l', case['inert2']] = case['inert2_frac'] * F
    if case.get('dist0') and split:
        # the feed starts partly / entirely as vapour (each volatile chemical's own fraction)
        for i, d in zip(case['ids'], case['dist0']):
            if d:
                v = s.imol['l', i]; s.imol['g', i] = v * d; s.imol['l', i] = v - v * d
    return s


def vfrac(s, idx):
    g = s.imol['g'].to_array()[idx].sum(); l = s.imol['l'].to_array()[idx].sum()
    return g / (g + l) if g + l else 0.0


def raoult_rr(z, K):
    """Rachford-Rice for ideal K values; returns V in [0,1]."""
    if (z * K).sum() <= 1.0: return 0.0
    if (z / K).sum() <= 1.0: return 1.0
    lo, hi = 0.0, 1.0
    f = lambda V: (z * (K - 1) / (1 + V * (K - 1))).sum()
    for _ in range(200):
        mid = 0.5 * (lo + hi)
        if f(mid) > 0: lo = mid
        else: hi = mid
    return 0.5 * (lo + hi)


REFUSE = ('InfeasibleRegion', 'NoEquilibrium', 'DomainError', 'NotImplementedError')


def run_case(case, rec):
    rec.begin_case(case)
    kind = case['kind']
    ids = list(case['ids']) + ([case['inert']] if case['inert'] else []) + ([case['inert2']] if case.get('inert2') else [])
    th = thermo(ids, ideal=(kind == 'ideal'))
    tmo.settings.set_thermo(th)
    chems = th.chemicals
    vidx = [chems.index(i) for i in case['ids']]      # the volatile (equilibrium) chemicals
    T0, P0, V0 = case['T'], case['P'], case['V']
    if case['inert']: rec.hit('with-inerts')
    if case.get('inert2'): rec.hit('with-inerts:gas-and-solute')
    two_phase = False

    def flash(s, **spec):
        try:
            s.vle(**spec); return True
        except Exception as e:
            if type(e).__name__ in REFUSE: rec.refuse(f'{"".join(sorted(spec))}: {type(e).__name__}'); return False
            # C04 speaks about calculations that return: a raise inside a solver (FloatingPointError in the activity model, 'root could not be solved')
            # is counted, not judged; programming errors in the call path are still reported
            if not isinstance(e, (TypeError, AttributeError, KeyError, IndexError, NameError, UnboundLocalError)):
                rec.refuse(f'{"".join(sorted(spec))}: raised {type(e).__name__}'); return False
            rec.exception('flash', e, what=f'vle({spec}) on {ids} ({kind}) raised {type(e).__name__}: {str(e)[:140]}'); return False

    with warnings.catch_warnings():
        warnings.simplefilter('ignore')
        # ---- TP
        s = make(case, th)
        okTP = flash(s, T=T0, P=P0)
        if okTP:
            rec.check(s.T == T0 and s.P == P0, 'spec-TP', 'TP', f'vle(T={T0}, P={P0}) left T={s.T!r}, P={s.P!r}')
            V_tp = vfrac(s, vidx)
            if kind in ('family',) and not case['inert']:
                z = np.array(case['x']); cs = tuple(chems[i] for i in case['ids'])
                try:
                    Pb = eq.BubblePoint(cs, th).solve_Py(z.copy(), T0)[0]; Pd = eq.DewPoint(cs, th).solve_Px(z.copy(), T0)[0]
                    if P0 >= Pb * (1 + 1e-6): rec.check(V_tp == 0.0, 'phase-boundary', 'above-bubble', f'P={P0} >= P_bubble={Pb!r} at T={T0} but vapour fraction is {V_tp!r} ({ids}, z={z.tolist()})')
                    elif P0 <= Pd * (1 - 1e-6): rec.check(V_tp == 1.0, 'phase-boundary', 'below-dew', f'P={P0} <= P_dew={Pd!r} at T={T0} but vapour fraction is {V_tp!r} ({ids}, z={z.tolist()})')
                    elif Pd * (1 + 1e-4) < P0 < Pb * (1 - 1e-4):
                        rec.check(0.0 < V_tp < 1.0, 'phase-boundary', 'inside', f'P_dew={Pd!r} < P={P0} < P_bubble={Pb!r} at T={T0} but vapour fraction is {V_tp!r} ({ids}, z={z.tolist()})')
                except Exception as e:
                    rec.refuse(f'bubble/dew point unavailable: {type(e).__name__}')
            if 0.0 < V_tp < 1.0:
                two_phase = True
                if kind == 'family':
                    g = s.imol['g'].to_array()[vidx]; l = s.imol['l'].to_array()[vidx]
                    y = g / g.sum(); x = l / l.sum()
                    cs = tuple(chems[i] for i in case['ids'])
                    Psat = np.array([c.Psat(T0) for c in cs])
                    gam = th.Gamma(cs)(x.copy(), T0); phi = th.Phi(cs)(y.copy(), T0, P0); pcf = th.PCF(cs)(T0, P0, Psat)
                    fl = x * gam * Psat * pcf; fg = y * phi * P0
                    dev = float(np.abs(fl - fg).max() / fg.max()) if case['inert'] is None else float((np.abs(fl - fg) / fg).max())
                    dev = float((np.abs(fl - fg) / fg).max())
                    isfx = '/unconverged-fixed-point' if dev > 1e-4 and fixed_point_status(th, cs, x, y, V_tp, T0, P0) == 'unconverged' else ''
                    rec.check(dev <= 1e-4, 'iso-fugacity', 'TP' + isfx, f'liquid and vapour fugacities differ by {dev:.3g} (relative) after vle(T={T0}, P={P0}) on {ids}: f_l={fl.tolist()}, f_g={fg.tolist()}', residual=dev)
            # ---- scaling
            k = case['k']
            s2 = make(case, th, scale=k)
            if flash(s2, T=T0, P=P0):
                a = np.array([r.to_array() for r in s.imol.data.rows]); b = np.array([r.to_array() for r in s2.imol.data.rows])
                F = a.sum()
                ssfx = ''
                if not np.allclose(b, k * a, rtol=0, atol=1e-5 * F * k):
                    # mechanism: is either result an unconverged iterate of the fixed point (liquid and vapour fugacities of the returned split far apart)?
                    def fug_dev(st):
                        g = st.imol['g'].to_array()[vidx]; l = st.imol['l'].to_array()[vidx]
                        if not (g.sum() > 0 and l.sum() > 0): return 0.0
                        y = g / g.sum(); x = l / l.sum(); cs = tuple(chems[i] for i in case['ids'])
                        Psat = np.array([c.Psat(T0) for c in cs])
                        fl = x * th.Gamma(cs)(x.copy(), T0) * Psat * th.PCF(cs)(T0, P0, Psat); fg = y * th.Phi(cs)(y.copy(), T0, P0) * P0
                        m_ = fg > 0
                        return float((np.abs(fl - fg)[m_] / fg[m_]).max()) if m_.any() else 0.0
                    try:
                        if max(fug_dev(s), fug_dev(s2)) > 1e-2: ssfx = '/unconverged-fixed-point'
                    except Exception: pass
                    if not ssfx:
                        # mechanism: the T-P flash first compares P with the library's own dew pressure (P <= P_dew: all vapour); is that dew pressure an unconverged
                        # iterate of the dew solver for either feed (the recorded C08 dew finding; an unconverged iterate depends on the rounding of z = flows / total)?
                        try:
                            from vt.workloads.c08 import dew_status
                            cs_ = tuple(chems[i] for i in case['ids']); dp_ = eq.DewPoint(cs_, th); bp_ = eq.BubblePoint(cs_, th)
                            for st in (s, s2):
                                tot = sum(r.to_array() for r in st.imol.data.rows)[vidx]; z_ = tot / tot.sum()
                                Pd_, xd_ = dp_.solve_Px(z_.copy(), T0)
                                if dew_status(dp_, z_, T0, Pd_, xd_, 'solve_Px')[0] == 'unconverged' or Pd_ > bp_.solve_Py(z_.copy(), T0)[0] * (1 + 1e-9): ssfx = '/dew-solver-unconverged'
                        except Exception: pass
                rec.check(np.allclose(b, k * a, rtol=0, atol=1e-5 * F * k), 'scaling', 'TP' + ssfx, f'flash of {k}*feed is not {k} times the flash of the feed: max deviation {np.abs(b - k * a).max() / (F * k):.3g} of the feed', residual=float(np.abs(b - k * a).max() / (F * k)))
            # ---- ideal package vs Raoult Rachford-Rice
            if kind == 'ideal' and not case['inert']:
                z = np.array(case['x']); cs = [chems[i] for i in case['ids']]
                K = np.array([c.Psat(T0) for c in cs]) / P0
                V = raoult_rr(z, K)
                F = case['F']
                xl = z / (1 + V * (K - 1)); yv = K * xl
                exp_g = V * F * yv if V > 0 else np.zeros_like(z); exp_l = (1 - V) * F * xl if V < 1 else np.zeros_like(z)
                if V in (0.0, 1.0): exp_g, exp_l = (z * F * V, z * F * (1 - V))
                g = s.imol['g'].to_array()[vidx]; l = s.imol['l'].to_array()[vidx]
                dev = float(max(np.abs(g - exp_g).max(), np.abs(l - exp_l).max()) / F)
                rec.check(dev <= 1e-6, 'raoult-rr', 'TP', f'ideal-package flash differs from the Raoult Rachford-Rice split by {dev:.3g} of the feed (V model {V!r}, V flash {V_tp!r}; {ids}, z={z.tolist()}, T={T0}, P={P0})', residual=dev)
        # ---- two property packages over the same chemical objects in one process (the solvers cache bubble / dew point objects per package): the ideal-package
        #      flash right after the activity-coefficient one must still be the Raoult split, and the activity-coefficient flash after that must repeat itself
        if kind in ('family', 'any') and not case['inert'] and okTP and case.get('xpkg', True):
            thi = thermo(ids, ideal=True)
            z = np.array(case['x']); cs = [thi.chemicals[i] for i in case['ids']]
            si = make(case, thi)
            if flash(si, T=T0, P=P0):
                rec.hit('two-packages')
                K = np.array([c_.Psat(T0) for c_ in cs]) / P0
                V = raoult_rr(z, K); F = case['F']
                xl = z / (1 + V * (K - 1)); yv = K * xl
                exp_g = V * F * yv if V > 0 else np.zeros_like(z); exp_l = (1 - V) * F * xl if V < 1 else np.zeros_like(z)
                if V in (0.0, 1.0): exp_g, exp_l = (z * F * V, z * F * (1 - V))
                vi = [thi.chemicals.index(i) for i in case['ids']]
                g = si.imol['g'].to_array()[vi]; l = si.imol['l'].to_array()[vi]
                dev = float(max(np.abs(g - exp_g).max(), np.abs(l - exp_l).max()) / F)
                rec.check(dev <= 1e-6, 'raoult-rr', 'TP/after-activity-package', f'ideal-package flash run right after the activity-coefficient package on the same chemicals differs from the Raoult Rachford-Rice split by {dev:.3g} of the feed ({ids}, z={z.tolist()}, T={T0}, P={P0})', residual=dev)
                sd = make(case, th)
                if flash(sd, T=T0, P=P0):
                    a_ = np.array([r.to_array() for r in s.imol.data.rows]); b_ = np.array([r.to_array() for r in sd.imol.data.rows])
                    rec.check(np.allclose(a_, b_, rtol=0, atol=1e-9 * F), 'independent-reflash', 'TP/after-ideal-package', f'the activity-coefficient T-P flash on {ids} gives another split after the ideal package was used on the same chemicals (max deviation {np.abs(a_ - b_).max() / F:.3g} of the feed)')
        # ---- single component: T/V and P/V specifications put the stream on the saturation line
        if kind == 'single' and not case['inert']:
            c = chems[case['ids'][0]]
            s = make(case, th)
            if flash(s, T=T0, V=V0):
                rec.check(s.T == T0, 'single-component', 'TV/T', f'single component {c.ID}: vle(T={T0}, V={V0}) left T={s.T!r}')
                Ps = c.Psat(T0)
                rec.check(abs(s.P - Ps) <= 1e-9 * Ps, 'single-component', 'TV/P', f'single component {c.ID}: vle(T={T0}, V={V0}) left P={s.P!r} but Psat(T)={Ps!r}')
                rec.check(abs(vfrac(s, vidx) - V0) <= 1e-9, 'single-component', 'TV/V', f'single component: vapour fraction {vfrac(s, vidx)!r} != {V0}')
            s = make(case, th)
            if flash(s, P=P0, V=V0):
                Ts = c.Tsat(P0, check_validity=False)
                rec.check(s.P == P0 and abs(s.T - Ts) <= 1e-9 * Ts, 'single-component', 'PV', f'single component {c.ID}: vle(P={P0}, V={V0}) left T={s.T!r} (Tsat={Ts!r}), P={s.P!r}')
                rec.check(abs(vfrac(s, vidx) - V0) <= 1e-9, 'single-component', 'PV/V', f'single component: vapour fraction {vfrac(s, vidx)!r} != {V0}')
            rec.mark_nontrivial(case_hash(case))
        # ---- V specifications (families, every x >= 0.02)
        if kind == 'family' and not case['inert']:
            for spec_name, spec in (('PV', {'P': P0, 'V': V0}), ('TV', {'T': T0, 'V': V0})):
                s = make(case, th)
                if not flash(s, **spec): continue
                Vg = vfrac(s, vidx)
                fixed = 'P' if spec_name == 'PV' else 'T'
                # resolution: the search variable is located to T_tol = 5e-8 K (PV) or P_tol = 1 Pa (TV); translate to vapour fraction with the slope across the two-phase window
                vb = 1e-5
                if spec_name == 'TV':
                    pr = make(case, th)
                    if flash(pr, T=T0, V=0.02):
                        pa = pr.P
                        if flash(pr, T=T0, V=0.98): vb = max(1e-5, 10 * 0.96 / max(abs(pa - pr.P), 1e-9) * 1.0)
                rec.check(getattr(s, fixed) == spec[fixed], 'spec-TP', spec_name, f'vle({spec}) left {fixed}={getattr(s, fixed)!r}')
                rec.check(abs(Vg - V0) <= vb, 'vapour-fraction', spec_name, f'vle({spec}) on {ids}: vapour fraction {Vg!r}', residual=abs(Vg - V0))
                # independent flash of a fresh stream at the returned (T, P)
                s3 = make(case, th)
                if flash(s3, T=s.T, P=s.P):
                    V3 = vfrac(s3, vidx)
                    sfx_ = ''
                    if abs(V3 - V0) > 5e-3 + vb:
                        # mechanism: do the library's own bubble and dew solvers bracket a two-phase window at the returned state? (a dew temperature below the
                        # bubble temperature at one pressure is the recorded C08 dew-solver finding reaching the flash, which takes its bounds from them)
                        try:
                            z_ = np.array(case['x']); cs_ = tuple(chems[i] for i in case['ids'])
                            dp_ = eq.DewPoint(cs_, th)
                            Tb_ = eq.BubblePoint(cs_, th).solve_Ty(z_, s.P)[0]; Td_, xd_ = dp_.solve_Tx(z_, s.P)
                            if Td_ < Tb_ - 1e-6: sfx_ = '/dew-below-bubble'
                            else:
                                # the same finding with the iterate on the other side: the dew solver's returned temperature is not a root of the dew equation
                                from vt.workloads.c08 import dew_status
                                if dew_status(dp_, z_, Td_, s.P, xd_, 'solve_Tx')[0] == 'unconverged': sfx_ = '/dew-solver-unconverged'
                        except Exception: pass
                    rec.check(abs(V3 - V0) <= 5e-3 + vb, 'independent-reflash', spec_name + sfx_, f'vle({spec}) returned T={s.T!r}, P={s.P!r}; an independent TP flash there gives vapour fraction {V3!r}, not {V0} ({ids}, z={case["x"]})', residual=abs(V3 - V0))
                two_phase = True
        # ---- x / y specifications (binary equilibrium sets): the fixed variable is written, the named phase has the specified composition
        if len(case['ids']) == 2 and kind != 'single':
            zA = case['x'][0]
            fv = case['f'] if 0 < case['f'] < 1 else 0.5
            v = min(max(zA * (0.6 + 0.8 * fv), 0.01), 0.99)       # near the overall composition, so that the lever rule is often feasible
            for nm in ('Tx', 'Ty', 'Px', 'Py'):
                s = make(case, th)
                fixed = {'T': T0} if nm[0] == 'T' else {'P': P0}
                if not flash(s, **fixed, **{nm[1]: [v, 1 - v]}): continue
                rec.hit('spec-xy')
                rec.check(getattr(s, nm[0]) == fixed[nm[0]], 'spec-TP', nm, f'vle({fixed}, {nm[1]}=[{v}, {1 - v}]) on {ids} left {nm[0]}={getattr(s, nm[0])!r} (the stream started at T={case["T"] + case.get("dT0", 0)}, P={case["P"] * case.get("P0f", 1)})')
                row = s.imol['l' if nm[1] == 'x' else 'g'].to_array()[vidx]
                if row.sum() > 1e-9 * case['F']:
                    got = row[0] / row.sum()
                    rec.check(abs(got - v) <= 1e-4, 'spec-xy', nm, f'vle({fixed}, {nm[1]}=[{v}, ...]) on {ids}: the {"liquid" if nm[1] == "x" else "vapour"} holds a fraction {got!r} of {case["ids"][0]}', residual=abs(got - v))
        # ---- H and S specifications
        if kind != 'single' or 'N2' in (case['inert'], case.get('inert2')):
            if kind == 'single': rec.hit('single+gas:H/S')      # one volatile chemical diluted by a non-condensable gas: the general solver path (N = 2)
            for fixed_name, fixed in (('P', {'P': P0}), ('T', {'T': T0})):
                probe = make(case, th)
                if not flash(probe, V=0.02, **fixed): continue
                Hlo, Slo, Plo, Tlo_ = probe.H, probe.S, probe.P, probe.T
                if not flash(probe, V=0.98, **fixed): continue
                Hhi, Shi, Phi_, Thi_ = probe.H, probe.S, probe.P, probe.T
                # resolution of the T-specified searches: they solve for the pressure to P_tol = 1 Pa without a final correction step,
                # so H (S) is reproduced to |dH/dP| * P_tol; the P-specified searches end with an exact correction of the split
                slopeH = abs(Hhi - Hlo) / max(abs(Plo - Phi_), 1e-9); slopeS = abs(Shi - Slo) / max(abs(Plo - Phi_), 1e-9)
                if Hhi == Hlo or Shi == Slo: rec.refuse('degenerate two-phase window (probe flashes returned the same state)'); continue
                for q, lo, hi in (('H', Hlo, Hhi), ('S', Slo, Shi)):
                    target = lo + case['f'] * (hi - lo)
                    s = make(case, th)
                    if not flash(s, **fixed, **{q: target}): continue
                    got = getattr(s, q)
                    rec.check(getattr(s, fixed_name) == fixed[fixed_name], 'spec-TP', fixed_name + q, f'vle({fixed}, {q}=...) left {fixed_name}={getattr(s, fixed_name)!r}')
                    sfx = ''
                    if fixed_name == 'T':
                        # is the returned pressure the solution at all?  independent TP flash of a fresh stream at (T, P returned)
                        chk = make(case, th)
                        if flash(chk, T=T0, P=s.P):
                            val = getattr(chk, q)
                            ref_b = (10 * slopeH if q == 'H' else 10 * slopeS) + (1e-5 * chk.C if q == 'H' else 5e-3 * abs(Shi - Slo))
                            if abs(val - target) > ref_b: sfx = '/unconverged-pressure'
                            else: sfx = '/stream-not-at-returned-pressure'
                    if q == 'H':
                        C = s.C
                        bound = 1e-5 * C if fixed_name == 'P' else max(1e-5 * C, 10 * slopeH * 1.0)
                        rec.check(abs(got - target) <= bound, 'spec-H', fixed_name + 'H' + sfx, f'vle({fixed}, H={target!r}) on {ids}: stream H = {got!r} (residual {abs(got - target) / C:.3g} K*C)', residual=abs(got - target) / C)
                    else:
                        rng_ = abs(Shi - Slo)
                        sbound = 5e-3 * rng_ if fixed_name == 'P' else max(5e-3 * rng_, 10 * slopeS * 1.0)
                        # the final step of set_PS moves a fraction of one phase into the other assuming the entropy is linear in that fraction; what it
                        # neglects is the entropy of mixing, bounded by R*F*ln(2) for the material moved (R in kJ/kmol/K, F in kmol/hr)
                        if fixed_name == 'P' and sbound < abs(got - target) <= 8.314462618 * s.F_mol * math.log(2.): sfx = '/first-order-correction-error'
                        rec.check(abs(got - target) <= sbound, 'spec-S', fixed_name + 'S' + sfx, f'vle({fixed}, S={target!r}) on {ids}: stream S = {got!r} (residual {abs(got - target) / rng_:.3g} of S_vap - S_liq)', residual=abs(got - target) / rng_)
                    if 0 < vfrac(s, vidx) < 1: two_phase = True
        try:
            if extra_clauses(case, rec, th, ids, vidx, flash): two_phase = True
        except Exception as e:
            rec.exception('harness', e, what=f'harness error in the additional clauses: {type(e).__name__}: {e}')
        if case.get('hist'):
            try:
                if history_clauses(case['hist'], rec): two_phase = True
            except Exception as e:
                rec.exception('harness', e, what=f'harness error in the history clauses: {type(e).__name__}: {e}')
            tmo.settings.set_thermo(th)
    if two_phase: rec.mark_nontrivial(case_hash(case))


def rows_of(s):
    return np.array([r.to_array() for r in s.imol.data.rows])


def raoult_rr_light(z, K, zl):
    """Rachford-Rice with a non-partitioning gas: z (volatile) and zl (gas-only) are fractions of the whole feed, V the vapour fraction of the whole feed.
    sum(y) - sum(x) = sum z_i (K_i - 1) / (1 + V (K_i - 1)) + zl / V is decreasing in V and +inf at V -> 0."""
    f = lambda V: (z * (K - 1) / (1 + V * (K - 1))).sum() + zl / V
    if f(1.0) >= 0: return 1.0
    lo, hi = 0.0, 1.0
    for _ in range(200):
        mid = 0.5 * (lo + hi)
        if f(mid) > 0: lo = mid
        else: hi = mid
    return 0.5 * (lo + hi)


def extra_clauses(case, rec, th, ids, vidx, flash):
    """clauses added by the coverage audit; returns True when a two-phase result was judged"""
    kind = case['kind']; chems = th.chemicals
    T0, P0, V0, k = case['T'], case['P'], case['V'], case['k']
    inert = case['inert']; two = False
    Tstart = max(255., T0 + case.get('dT0', 0.0)); Pstart = P0 * case.get('P0f', 1.0)

    # ---- single component, H / S specified: the dedicated one-chemical solvers (saturation line between the saturated liquid and vapour, outside it a one-phase state)
    if kind == 'single' and 'N2' not in (inert, case.get('inert2')):
        # (a solid-locked solute with N_solutes = 0 takes no part: still the one-chemical solvers)
        c = chems[case['ids'][0]]
        if inert: rec.hit('single+solid:H/S')
        for fixed_name, fixed in (('P', {'P': P0}), ('T', {'T': T0})):
            lo_s = make(case, th); hi_s = make(case, th)
            if not (flash(lo_s, V=0.0, **fixed) and flash(hi_s, V=1.0, **fixed)): continue
            for q in ('H', 'S'):
                lo, hi = getattr(lo_s, q), getattr(hi_s, q)
                if not (hi > lo): rec.refuse('single component: saturated vapour value not above the saturated liquid value'); continue
                target = lo + case['f'] * (hi - lo)
                s = make(case, th)
                if not flash(s, **fixed, **{q: target}): continue
                nm = fixed_name + q
                rec.hit('single:' + nm)
                rec.check(getattr(s, fixed_name) == fixed[fixed_name], 'spec-TP', 'single/' + nm, f'single component {c.ID}: vle({fixed}, {q}=...) left {fixed_name}={getattr(s, fixed_name)!r} (the stream started at T={Tstart}, P={Pstart})')
                got = getattr(s, q)
                nw = '' if getattr(s, fixed_name) == fixed[fixed_name] else f'/{fixed_name}-not-written'      # the stream is not at the specified T (P): its H / S is evaluated elsewhere
                if q == 'H':
                    C = s.C
                    rec.check(abs(got - target) <= 1e-5 * C, 'spec-H', 'single/' + nm + nw, f'single component {c.ID}: vle({fixed}, H={target!r}): stream H = {got!r} (residual {abs(got - target) / C:.3g} K*C)', residual=abs(got - target) / C)
                elif not (0 < case['f'] < 1):
                    # a one-phase state is located by solving S(T) = target, and the pure-component liquid entropy functions of the package are step functions of T
                    # (2 J/mol/K steps for benzene): the target cannot be reproduced closer than a step, which is not the flash's doing
                    rec.refuse('single component, S outside the saturated values: entropy reproduction not judged (entropy functions are not continuous in T)')
                else:
                    rec.check(abs(got - target) <= 5e-3 * (hi - lo), 'spec-S', 'single/' + nm + nw, f'single component {c.ID}: vle({fixed}, S={target!r}): stream S = {got!r} (residual {abs(got - target) / (hi - lo):.3g} of S_vap - S_liq)', residual=abs(got - target) / (hi - lo))
                if 0 < case['f'] < 1:
                    # on the saturation line: the other variable is the saturation value and the vapour fraction is the position between the saturated states
                    if fixed_name == 'P':
                        Ts = c.Tsat(P0, check_validity=False)
                        rec.check(abs(s.T - Ts) <= 1e-9 * Ts, 'single-component', nm + '/T', f'single component {c.ID}: vle(P={P0}, {q} between the saturated values) left T={s.T!r} but Tsat(P)={Ts!r}')
                    else:
                        Ps = c.Psat(T0)
                        rec.check(abs(s.P - Ps) <= 1e-9 * Ps, 'single-component', nm + '/P', f'single component {c.ID}: vle(T={T0}, {q} between the saturated values) left P={s.P!r} but Psat(T)={Ps!r}')
                    rec.check(abs(vfrac(s, vidx) - case['f']) <= 1e-6, 'single-component', nm + '/V', f'single component {c.ID}: vle({fixed}, {q} at {case["f"]} between the saturated values) gives vapour fraction {vfrac(s, vidx)!r}')
        # P exactly at the saturation pressure: any split is an equilibrium; T and P are written
        Ps = c.Psat(T0)
        s = make(case, th)
        if flash(s, T=T0, P=Ps):
            rec.hit('single:at-Psat')
            rec.check(s.T == T0 and s.P == Ps, 'spec-TP', 'single/TP-at-Psat', f'single component {c.ID}: vle(T={T0}, P=Psat(T)={Ps!r}) left T={s.T!r}, P={s.P!r}')

    # ---- V specifications for every kind of mixture (outside the family class only the kept variable is judged)
    if kind != 'single' and (kind != 'family' or inert):
        for nm, spec, fixed in (('PV', {'P': P0, 'V': V0}, 'P'), ('TV', {'T': T0, 'V': V0}, 'T')):
            s = make(case, th)
            if not flash(s, **spec): continue
            rec.hit('V-spec:any-kind')
            rec.check(getattr(s, fixed) == spec[fixed], 'spec-TP', nm + '/any-mixture', f'vle({spec}) on {ids} ({kind}) left {fixed}={getattr(s, fixed)!r} (the stream started at T={Tstart}, P={Pstart})')
            if 0 < vfrac(s, vidx) < 1: two = True

    # ---- scaling under the other specification pairs: k * feed with the extensive specification (H, S) multiplied by k
    if kind == 'any': rec.refuse('scaling under V / H specifications on a cross-family non-ideal mixture: not judged (the vapour-fraction clauses are restricted to families: V(T) is not single-valued near a heteroazeotrope)')
    if kind in ('family', 'ideal'):
        base = {}
        for nm, spec in (('PV', {'P': P0, 'V': V0}), ('TV', {'T': T0, 'V': V0})):
            a = make(case, th); b = make(case, th, scale=k)
            if not (flash(a, **spec) and flash(b, **spec)): continue
            base[nm] = a
            ra, rb = rows_of(a), rows_of(b); F = ra.sum()
            bound = 1e-5
            if nm == 'TV':
                # the pressure is located to P_tol = 1 Pa in each of the two runs: translate to flows with the width of the two-phase window
                pr = make(case, th)
                if flash(pr, T=T0, V=0.02):
                    pa = pr.P
                    if flash(pr, T=T0, V=0.98): bound = max(1e-5, 10 * 0.96 / max(abs(pa - pr.P), 1e-9))
            dev = float(np.abs(rb - k * ra).max() / (F * k))
            rec.check(dev <= bound, 'scaling', nm, f'vle({spec}) of {k}*feed is not {k} times the flash of the feed: max deviation {dev:.3g} of the feed ({ids})', residual=dev)
            # V is located to V_tol = 1e-6 in each run; with dT/dV below 100 K across the two-phase window the temperatures agree to 1e-4 K
            if nm == 'PV': rec.check(abs(a.T - b.T) <= 1e-4, 'scaling', 'PV/T', f'vle({spec}): feed gives T={a.T!r}, {k}*feed gives T={b.T!r}', residual=abs(a.T - b.T))
            else: rec.check(abs(a.P - b.P) <= 2.0 + 1e-9 * a.P, 'scaling', 'TV/P', f'vle({spec}): feed gives P={a.P!r}, {k}*feed gives P={b.P!r}', residual=abs(a.P - b.P))
        if 'PV' in base:
            a0 = base['PV']
            for q in ('H',):
                # (not done for S: the liquid entropy functions of the property package are not smooth in T at the 1e-13 K level - values jump by whole J/mol/K
                #  between adjacent temperatures - so two runs that end one ulp apart in T reproduce 'the same' S at visibly different splits)
                target = getattr(a0, q)          # the enthalpy of the two-phase state at (P0, V0)
                a = make(case, th); b = make(case, th, scale=k)
                if not (flash(a, P=P0, **{q: target}) and flash(b, P=P0, **{q: target * k})): continue
                ra, rb = rows_of(a), rows_of(b); F = ra.sum()
                dev = float(np.abs(rb - k * ra).max() / (F * k))
                # H is reproduced exactly by the final correction in both runs; the split then agrees to the temperature resolution (bound as for the T/P flash)
                rec.check(dev <= 1e-5, 'scaling', 'P' + q, f'vle(P={P0}, {q}=...) of {k}*feed (with {q} multiplied by {k}) is not {k} times the flash of the feed: max deviation {dev:.3g} of the feed ({ids})', residual=dev)

    # ---- the pressure exactly on the bubble / dew pressure the flash itself computes (families): all liquid at the bubble pressure, all vapour at the dew pressure
    if kind == 'family' and not inert and case.get('boundary'):
        try:
            pr = make(case, th); v = pr.vle; v._setup()
            Pb = float(v._bubble_point.solve_Py(v._z, T0)[0]); Pd = float(v._dew_point.solve_Px(v._z, T0)[0])
        except Exception as e:
            rec.refuse(f'bubble/dew point unavailable: {type(e).__name__}'); Pb = Pd = None
        if Pb is not None and Pd < Pb:
            s = make(case, th)
            if flash(s, T=T0, P=Pb):
                rec.hit('boundary:P=P_bubble')
                rec.check(vfrac(s, vidx) == 0.0 and s.P == Pb and s.T == T0, 'phase-boundary', 'at-bubble', f'P = P_bubble = {Pb!r} at T={T0}: vapour fraction {vfrac(s, vidx)!r}, T={s.T!r}, P={s.P!r} ({ids}, z={case["x"]})')
            s = make(case, th)
            if flash(s, T=T0, P=Pd):
                rec.hit('boundary:P=P_dew')
                rec.check(vfrac(s, vidx) == 1.0 and s.P == Pd and s.T == T0, 'phase-boundary', 'at-dew', f'P = P_dew = {Pd!r} at T={T0}: vapour fraction {vfrac(s, vidx)!r}, T={s.T!r}, P={s.P!r} ({ids}, z={case["x"]})')

    # ---- ideal package with a non-condensable gas (and a solid that takes no part): Rachford-Rice with a non-partitioning fraction
    if kind == 'ideal' and inert == 'N2':
        s = make(case, th)
        if flash(s, T=T0, P=P0):
            F = case['F']; zv = np.array(case['x']) * F; nl = case['inert_frac'] * F
            Ft = zv.sum() + nl                        # the solid-locked solute (N_solutes = 0) does not dilute either phase
            z = zv / Ft; zl = nl / Ft
            cs = [chems[i] for i in case['ids']]
            K = np.array([c.Psat(T0) for c in cs]) / P0
            V = raoult_rr_light(z, K, zl)
            if V >= 1.0: exp_g, exp_l = zv, np.zeros_like(zv)
            else:
                xl = z / (1 + V * (K - 1)); exp_l = (1 - V) * Ft * xl; exp_g = zv - exp_l
            g = s.imol['g'].to_array()[vidx]; l = s.imol['l'].to_array()[vidx]
            dev = float(max(np.abs(g - exp_g).max(), np.abs(l - exp_l).max()) / F)
            rec.hit('raoult-rr:with-gas')
            rec.check(dev <= 1e-6, 'raoult-rr', 'TP/non-condensable', f'ideal-package flash with {case["inert_frac"]} N2 differs from the Raoult Rachford-Rice split (non-partitioning gas) by {dev:.3g} of the feed (V model {V!r}; {ids}, z={case["x"]}, T={T0}, P={P0})', residual=dev)
            if 0 < V < 1: two = True

    # ---- the Gibbs-minimising solver method offered by VLE (vle.method = 'shgo'): same phase-boundary and iso-fugacity conditions at specified T and P
    if kind == 'family' and not inert and case.get('shgo'):
        z = np.array(case['x']); cs = tuple(chems[i] for i in case['ids'])
        try:
            Pb = eq.BubblePoint(cs, th).solve_Py(z.copy(), T0)[0]; Pd = eq.DewPoint(cs, th).solve_Px(z.copy(), T0)[0]
        except Exception as e:
            rec.refuse(f'bubble/dew point unavailable: {type(e).__name__}'); Pb = Pd = None
        if Pb is not None:
            P0_case = P0
            if not (Pd * (1 + 1e-4) < P0 < Pb * (1 - 1e-4)) and Pd < Pb and case.get('shgo_inside'):
                P_in = float(Pd + V0 * (Pb - Pd))            # three times out of four a pressure inside the two-phase window (random T, P seldom are)
                if 2e4 <= P_in <= 1e6: P0 = P_in
            s = make(case, th); s.vle.method = 'shgo'
            if flash(s, T=T0, P=P0):
                rec.hit('method:shgo')
                rec.check(s.T == T0 and s.P == P0, 'spec-TP', 'TP/method=shgo', f'vle(T={T0}, P={P0}) with method shgo left T={s.T!r}, P={s.P!r}')
                Vs = vfrac(s, vidx)
                if P0 >= Pb * (1 + 1e-6): rec.check(Vs == 0.0, 'phase-boundary', 'above-bubble/method=shgo', f'P={P0} >= P_bubble={Pb!r} at T={T0} but vapour fraction is {Vs!r} ({ids}, z={z.tolist()})')
                elif P0 <= Pd * (1 - 1e-6): rec.check(Vs == 1.0, 'phase-boundary', 'below-dew/method=shgo', f'P={P0} <= P_dew={Pd!r} at T={T0} but vapour fraction is {Vs!r} ({ids}, z={z.tolist()})')
                elif Pd * (1 + 1e-4) < P0 < Pb * (1 - 1e-4):
                    rec.hit('method:shgo/inside')
                    rec.check(0.0 < Vs < 1.0, 'phase-boundary', 'inside/method=shgo', f'P_dew={Pd!r} < P={P0} < P_bubble={Pb!r} at T={T0} but method shgo returns vapour fraction {Vs!r} ({ids}, z={z.tolist()})')
                if 0.0 < Vs < 1.0:
                    g = s.imol['g'].to_array()[vidx]; l = s.imol['l'].to_array()[vidx]
                    y = g / g.sum(); x = l / l.sum()
                    Psat = np.array([c.Psat(T0) for c in cs])
                    gam = th.Gamma(cs)(x.copy(), T0); phi = th.Phi(cs)(y.copy(), T0, P0); pcf = th.PCF(cs)(T0, P0, Psat)
                    fl = x * gam * Psat * pcf; fg = y * phi * P0
                    dev = float((np.abs(fl - fg) / fg).max())
                    rec.check(dev <= 1e-4, 'iso-fugacity', 'TP/method=shgo', f'liquid and vapour fugacities differ by {dev:.3g} (relative) after vle(T={T0}, P={P0}) with method shgo on {ids}: f_l={fl.tolist()}, f_g={fg.tolist()}', residual=dev)
                    two = True
            P0 = P0_case

    # ---- the feed initially vapour / split, and a chain of calls with different specifications on the one stream (remembered K, V, T)
    if kind == 'family' and not inert:
        ref = make(case, th); s = make(case, th, split=True)
        if flash(ref, T=T0, P=P0) and flash(s, T=T0, P=P0):
            rec.hit('initial-distribution')
            rec.check(s.T == T0 and s.P == P0, 'spec-TP', 'TP/initial-distribution', f'vle(T={T0}, P={P0}) on a feed that starts split over g / l left T={s.T!r}, P={s.P!r}')
            Va, Vb = vfrac(ref, vidx), vfrac(s, vidx)
            rec.check(abs(Va - Vb) <= 5e-3, 'independent-reflash', 'initial-distribution', f'vle(T={T0}, P={P0}) on {ids}: vapour fraction {Va!r} from an all-liquid feed but {Vb!r} from the same feed split {case.get("dist0")} over g / l', residual=abs(Va - Vb))
            # chain: P,V then P,H on the same stream
            if flash(s, P=P0, V=V0):
                Vg = vfrac(s, vidx)
                rec.hit('chained')
                rec.check(s.P == P0, 'spec-TP', 'PV/chained', f'vle(P={P0}, V={V0}) after a T/P flash on the same stream left P={s.P!r}')
                rec.check(abs(Vg - V0) <= 1e-5, 'vapour-fraction', 'PV/chained', f'vle(P={P0}, V={V0}) after a T/P flash on the same stream: vapour fraction {Vg!r}', residual=abs(Vg - V0))
                fr = make(case, th)
                if flash(fr, P=P0, V=V0):
                    rec.check(abs(fr.T - s.T) <= 1e-6, 'independent-reflash', 'PV/chained', f'vle(P={P0}, V={V0}): T={s.T!r} after a T/P flash on the same stream but {fr.T!r} on a fresh stream', residual=abs(fr.T - s.T))
                    # move along the two-phase line with H, on the stream that remembers the P/V solution
                    pr = make(case, th)
                    if flash(pr, P=P0, V=min(0.98, max(0.02, 1 - V0))):
                        target = pr.H
                        if flash(s, P=P0, H=target):
                            C = s.C
                            rec.check(s.P == P0, 'spec-TP', 'PH/chained', f'vle(P={P0}, H=...) after T/P and P/V flashes on the same stream left P={s.P!r}')
                            rec.check(abs(s.H - target) <= 1e-5 * C, 'spec-H', 'PH/chained', f'vle(P={P0}, H={target!r}) after T/P and P/V flashes on the same stream: stream H = {s.H!r} (residual {abs(s.H - target) / C:.3g} K*C)', residual=abs(s.H - target) / C)
                two = True
    return two


# ---------------------------------------------------------------------------
# seeded round 5: a HISTORY on one stream (hence one VLE object, which remembers K values, the vapour fraction, T, P, the set of chemicals it was set up
# for and the bubble / dew point objects of that set): flash - the contents of the stream change - flash again.  The second (and third) result is judged by
# the clauses of the property alone: specified T / P written, phase boundaries, iso-fugacity and the independent re-flash (families), the Raoult Rachford-Rice
# split and pressure (ideal package), enthalpy reproduced, and scaling when the new contents are k times the old ones.

HIST_MODES = ('swap', 'swap', 'drop', 'add', 'new-proportions', 'scaled', 'unchanged', 'disjoint', 'other-stream')
HIST_METHODS = ('imol-set', 'imol-touch', 'copy_flow', 'copy_like', 'mix_from', 'empty-set', 'proxy')
HIST_POOL_IDEAL = ANY + ('N2',)


def _fractions(r, n):
    while True:
        x = [r.uniform(0.05, 1) for _ in range(n)]; s = sum(x); x = [v / s for v in x]
        if min(x) >= 0.02: return x


def gen_hist(r):
    hk = r.choice(['family', 'family', 'family', 'ideal', 'ideal'])
    fam = r.choice(sorted(FAM)) if hk == 'family' else None
    pool = list(FAM[fam]) if fam else list(ANY)
    mode = r.choice(HIST_MODES)
    spec2 = r.choice(['TP', 'TP', 'TP', 'TV', 'TV', 'TH'] if hk == 'ideal' else ['TP', 'TP', 'TP', 'TV', 'TV', 'PV', 'PH', 'TH', 'xy'])
    nA = r.randrange(2, min(4, len(pool)) + 1)
    if spec2 == 'xy':      # x / y specifications are for binary equilibrium sets
        nA = 2
        if mode in ('drop', 'add', 'scaled'): mode = 'swap'
    if mode == 'drop': nA = max(nA, 3)
    if mode in ('swap', 'add', 'other-stream'): nA = min(nA, len(pool) - 1)
    if mode == 'disjoint': nA = min(nA, len(pool) - 2)
    idsA = r.sample(pool, nA)
    rest = [i for i in pool if i not in idsA]
    if mode in ('swap', 'other-stream'): idsB = list(idsA); idsB[r.randrange(nA)] = r.choice(rest)
    elif mode == 'drop': idsB = list(idsA); del idsB[r.randrange(nA)]
    elif mode == 'add': idsB = idsA + [r.choice(rest)]
    elif mode == 'disjoint': idsB = r.sample(rest, 2 if spec2 == 'xy' else r.randrange(2, min(4, len(rest)) + 1))
    else: idsB = list(idsA)
    xA = _fractions(r, nA)
    xB = list(xA) if mode in ('scaled', 'unchanged') else _fractions(r, len(idsB))
    FA = round(10 ** r.uniform(-2, 3), 5)
    k = round(10 ** r.uniform(-2, 2), 5)
    h = {'kind': hk, 'fam': fam, 'mode': mode, 'idsA': idsA, 'xA': xA, 'idsB': idsB, 'xB': xB, 'FA': FA,
         'FB': FA if mode == 'unchanged' else (FA * k if mode == 'scaled' else FA * round(r.uniform(0.5, 2.0), 4)), 'k': k,
         'T': round(r.uniform(280, 450), 2), 'P': round(10 ** r.uniform(math.log10(2e4), 6), 1), 'V1': round(r.uniform(0.05, 0.95), 4), 'V2': round(r.uniform(0.03, 0.97), 4),
         'Ts': round(r.uniform(280, 450), 2), 'Psf': r.choice([1.0, 0.5, 2.0]),
         'spec1': r.choice(['TV', 'TV', 'TP-inside', 'TP-inside', 'TP', 'TH', 'TS', 'PV', 'PH']),
         'spec2': spec2, 'xy': r.choice(['Tx', 'Ty', 'Px', 'Py']),
         'sameT': r.random() < 0.8, 'dT': r.choice([-1, 1]) * round(r.uniform(2, 30), 2), 'inside': r.random() < 0.85,
         'method': r.choice(HIST_METHODS), 'obj': r.choice(['MultiStream', 'MultiStream', 'Stream']),
         'third': r.random() < 0.35, 'xA3': _fractions(r, nA),
         'n2': (r.choice([None, None, None, 'both', 'B-only', 'A-only']) if hk == 'ideal' else None), 'n2_frac': round(r.uniform(0.001, 0.02), 5)}
    if mode == 'scaled': h['spec1'] = h['spec2'] = 'TP'; h['sameT'] = True; h['n2'] = h['n2'] and 'both'
    return h


def hist_stream(th, amounts, T, P, obj='MultiStream'):
    """a stream holding `amounts` (ID -> kmol/hr), volatile chemicals as liquid and N2 as gas"""
    if obj == 'Stream':
        return tmo.Stream(None, T=T, P=P, thermo=th, phase='l', **amounts)      # becomes a MultiStream at its first vle call
    s = tmo.MultiStream(None, phases=('g', 'l'), T=T, P=P, thermo=th)
    for i, v in amounts.items(): s.imol['g' if i == 'N2' else 'l', i] = v
    return s


def change_contents(s, th, amounts, method, T, P):
    """make the stream hold `amounts`, the way a user would; returns the object to go on with (the proxy shares all data and the equilibrium objects)"""
    IDs = th.chemicals.IDs
    if method == 'proxy': s = s.proxy(); method = 'imol-set'
    if method in ('imol-set', 'empty-set'):
        if method == 'empty-set': s.empty()
        for i in IDs:
            v = amounts.get(i, 0.)
            s.imol['g', i] = v if i == 'N2' else 0.; s.imol['l', i] = 0. if i == 'N2' else v
    elif method == 'imol-touch':
        # only the chemicals whose amount changes are touched, what is there keeps its distribution over the phases
        for i in IDs:
            v = amounts.get(i, 0.); g = float(s.imol['g', i]); l = float(s.imol['l', i])
            if v == 0.:
                if g or l: s.imol['g', i] = 0.; s.imol['l', i] = 0.
            elif g + l > 0.:
                if g: s.imol['g', i] = g * (v / (g + l))
                if l: s.imol['l', i] = l * (v / (g + l))
            else: s.imol['g' if i == 'N2' else 'l', i] = v
    elif method == 'copy_flow': s.copy_flow(hist_stream(th, amounts, T, P))
    elif method == 'copy_like': s.copy_like(hist_stream(th, amounts, T, P))
    elif method == 'mix_from':
        ks = list(amounts); a = {i: (amounts[i] if n == 0 else 0.5 * amounts[i]) for n, i in enumerate(ks)}; b = {i: amounts[i] - a[i] for i in ks if amounts[i] - a[i] > 0}
        s.mix_from([hist_stream(th, a, T, P), hist_stream(th, b, T, P)] if b else [hist_stream(th, a, T, P)])
    else: raise ValueError(method)
    return s


def totals_of(s):
    a = np.asarray(s.imol.data.to_array())      # (a Stream that was not flashed yet has one row)
    return a.sum(0) if a.ndim == 2 else a


def fixed_point_status(th, cs, x, y, V, T, P):
    """mechanism probe for an iso-fugacity mismatch: continue the plain successive substitution (K = gamma Psat pcf / (phi P), Rachford-Rice for V) from the returned split,
    with the package's own model objects as data.  'unconverged' when that iteration converges (step < 1e-12) to a split whose fugacities agree to 1e-8 and which lies more
    than 1e-5 (ten times the flash's K_tol = 1e-6) away from the returned one: the flash returned an iterate of its fixed point, not its limit."""
    try:
        gam = th.Gamma(cs); phi = th.Phi(cs); pcf = th.PCF(cs)
        Psat = np.array([c.Psat(T) for c in cs]); pc = pcf(T, P, Psat)
        z = V * y + (1 - V) * x; z = z / z.sum()
        x0, y0, V0 = x.copy(), y.copy(), V
        for _ in range(500):
            K = pc * Psat * gam(x.copy(), T) / (phi(y.copy(), T, P) * P)
            Vn = _bisect(lambda v: float((z * (K - 1) / (1 + v * (K - 1))).sum()), 1e-12, 1 - 1e-12)
            if Vn is None: return 'unknown'
            xn = z / (1 + Vn * (K - 1)); yn = K * xn; xn = xn / xn.sum(); yn = yn / yn.sum()
            step = max(np.abs(xn - x).max(), np.abs(yn - y).max(), abs(Vn - V))
            x, y, V = xn, yn, Vn
            if step < 1e-12: break
        else: return 'unknown'
        fl = x * gam(x.copy(), T) * Psat * pc; fg = y * phi(y.copy(), T, P) * P
        if float((np.abs(fl - fg) / fg).max()) > 1e-8: return 'unknown'
        moved = max(np.abs(x - x0).max(), np.abs(y - y0).max(), abs(V - V0))
        return 'unconverged' if moved > 1e-5 else 'at-fixed-point'
    except Exception:
        return 'unknown'


def _bisect(f, lo, hi, n=100):
    flo, fhi = f(lo), f(hi)
    if not (flo < 0 < fhi or fhi < 0 < flo): return None
    for _ in range(n):
        mid = 0.5 * (lo + hi)
        if (f(mid) < 0) == (flo < 0): lo = mid
        else: hi = mid
    return 0.5 * (lo + hi)


def history_clauses(h, rec):
    """returns True when a two-phase result of a flash after a change of contents was judged"""
    ideal = h['kind'] == 'ideal'; mode = h['mode']; method = h['method']
    th = thermo(HIST_POOL_IDEAL if ideal else FAM[h['fam']], ideal=ideal)
    tmo.settings.set_thermo(th)
    chems = th.chemicals
    idsA, idsB, xA, xB, FA, FB = h['idsA'], h['idsB'], h['xA'], h['xB'], h['FA'], h['FB']
    n2A = h['n2'] in ('both', 'A-only'); n2B = h['n2'] in ('both', 'B-only')
    amtA = {i: x * FA for i, x in zip(idsA, xA)}; amtB = {i: x * FB for i, x in zip(idsB, xB)}
    if n2A: amtA['N2'] = h['n2_frac'] * FA
    if n2B: amtB['N2'] = h['n2_frac'] * FB
    V1, V2 = h['V1'], h['V2']
    hist = f"{h['obj']} holding {idsA} flashed with {h['spec1']}, contents changed ({mode}, through {method}) to {idsB}"
    if mode == 'other-stream': hist = f"{h['obj']} holding {idsA} flashed with {h['spec1']}, then another {h['obj']} of the same package holding {idsB}"
    two = False

    def flash(s, step, **spec):
        nm = ''.join(sorted(spec))
        try:
            s.vle(**spec); return True
        except Exception as e:
            if type(e).__name__ in REFUSE: rec.refuse(f'history/{step}/{nm}: {type(e).__name__}'); return False
            # as everywhere in C04: the property speaks about calculations that return; programming errors in the call path are still reported
            if not isinstance(e, (TypeError, AttributeError, KeyError, IndexError, NameError, UnboundLocalError)):
                rec.refuse(f'history/{step}/{nm}: raised {type(e).__name__}'); return False
            rec.exception('flash', e, what=f'{step} flash of a history ({hist}): vle({spec}) raised {type(e).__name__}: {str(e)[:140]}'); return False

    def Psats(ids_, T): return np.array([chems[i].Psat(T) for i in ids_])

    def window_P(ids_, x_, T):
        """(P_bubble, P_dew) of the volatile mixture at T: Raoult's law for the ideal package, the public bubble / dew point solvers otherwise"""
        z = np.array(x_)
        if ideal:
            Ps = Psats(ids_, T); return float((z * Ps).sum()), float(1. / (z / Ps).sum())
        cs = tuple(chems[i] for i in ids_)
        try: return float(eq.BubblePoint(cs, th).solve_Py(z.copy(), T)[0]), float(eq.DewPoint(cs, th).solve_Px(z.copy(), T)[0])
        except Exception as e:
            rec.refuse(f'history: bubble/dew point unavailable: {type(e).__name__}'); return None

    def window_T(ids_, x_, P):
        z = np.array(x_)
        if ideal:
            Tb = _bisect(lambda T: (z * Psats(ids_, T)).sum() - P, 250., 480., 60); Td = _bisect(lambda T: 1. / (z / Psats(ids_, T)).sum() - P, 250., 480., 60)
            return None if Tb is None or Td is None else (Tb, Td)
        cs = tuple(chems[i] for i in ids_)
        try: return float(eq.BubblePoint(cs, th).solve_Ty(z.copy(), P)[0]), float(eq.DewPoint(cs, th).solve_Tx(z.copy(), P)[0])
        except Exception as e:
            rec.refuse(f'history: bubble/dew point unavailable: {type(e).__name__}'); return None

    def P_inside(ids_, x_, T, V):
        w = window_P(ids_, x_, T)
        if w is None or not (w[1] < w[0]): return None
        P = round(w[0] - V * (w[0] - w[1]), 1)
        return P if 2e4 <= P <= 1e6 else None

    def pick_TP(ids_, x_, T, P, V):
        """a (T, P) of the box at which the mixture is (nominally) two-phase: the drawn T with a pressure inside the window, else the drawn P with a temperature inside"""
        if not h['inside']: return T, P
        Pi = P_inside(ids_, x_, T, V)
        if Pi is not None: return T, Pi
        w = window_T(ids_, x_, P)
        if w is not None and w[0] < w[1]:
            Ti = round(w[0] + V * (w[1] - w[0]), 2)
            if 280. <= Ti <= 450.: return Ti, P
        return None

    def judge_TP(s, ids_, x_, amt, T, P, sfx, with_n2, what):
        """the clauses for specified T and P on a stream that now holds ids_ (fractions x_ of the volatile part)"""
        vidx = [chems.index(i) for i in ids_]; z = np.array(x_); F = float(sum(amt[i] for i in ids_))
        rec.check(s.T == T and s.P == P, 'spec-TP', 'TP/history', f'{what}: vle(T={T}, P={P}) left T={s.T!r}, P={s.P!r}')
        V = vfrac(s, vidx)
        g = s.imol['g'].to_array()[vidx]; l = s.imol['l'].to_array()[vidx]
        if ideal:
            K = Psats(ids_, T) / P
            if with_n2:
                nl = amt['N2']; Ft = F + nl; zz = z * F / Ft
                Vm = raoult_rr_light(zz, K, nl / Ft)
                if Vm >= 1.0: exp_g, exp_l = z * F, np.zeros_like(z)
                else:
                    xl = zz / (1 + Vm * (K - 1)); exp_l = (1 - Vm) * Ft * xl; exp_g = z * F - exp_l
            else:
                Vm = raoult_rr(z, K)
                xl = z / (1 + Vm * (K - 1)); yv = K * xl
                exp_g = Vm * F * yv; exp_l = (1 - Vm) * F * xl
                if Vm in (0.0, 1.0): exp_g, exp_l = (z * F * Vm, z * F * (1 - Vm))
            dev = float(max(np.abs(g - exp_g).max(), np.abs(l - exp_l).max()) / F)
            rec.check(dev <= 1e-6, 'raoult-rr', 'TP/history/' + sfx, f'{what}: the ideal-package flash at T={T}, P={P} differs from the Raoult Rachford-Rice split of the present contents by {dev:.3g} of the feed (V model {Vm!r}, V flash {V!r}; z={z.tolist()})', residual=dev)
            return 0 < Vm < 1
        w = window_P(ids_, x_, T)
        if w is not None:
            Pb, Pd = w
            if P >= Pb * (1 + 1e-6): rec.check(V == 0.0, 'phase-boundary', 'above-bubble/history/' + sfx, f'{what}: P={P} >= P_bubble={Pb!r} at T={T} but vapour fraction is {V!r} (z={z.tolist()})')
            elif P <= Pd * (1 - 1e-6): rec.check(V == 1.0, 'phase-boundary', 'below-dew/history/' + sfx, f'{what}: P={P} <= P_dew={Pd!r} at T={T} but vapour fraction is {V!r} (z={z.tolist()})')
            elif Pd * (1 + 1e-4) < P < Pb * (1 - 1e-4):
                rec.hit('history:inside-window')
                rec.check(0.0 < V < 1.0, 'phase-boundary', 'inside/history/' + sfx, f'{what}: P_dew={Pd!r} < P={P} < P_bubble={Pb!r} at T={T} but vapour fraction is {V!r} (z={z.tolist()})')
        if 0.0 < V < 1.0:
            y = g / g.sum(); x = l / l.sum(); cs = tuple(chems[i] for i in ids_)
            Psat = Psats(ids_, T)
            fl = x * th.Gamma(cs)(x.copy(), T) * Psat * th.PCF(cs)(T, P, Psat); fg = y * th.Phi(cs)(y.copy(), T, P) * P
            dev = float((np.abs(fl - fg) / fg).max())
            # (the suffix is the recorded fixed-point mechanism, independent of the history: a fresh stream gives the same iterate)
            ksfx = 'TP/unconverged-fixed-point' if dev > 1e-4 and fixed_point_status(th, cs, x, y, V, T, P) == 'unconverged' else 'TP/history/' + sfx
            rec.check(dev <= 1e-4, 'iso-fugacity', ksfx, f'{what}: liquid and vapour fugacities differ by {dev:.3g} (relative) after vle(T={T}, P={P}): f_l={fl.tolist()}, f_g={fg.tolist()}', residual=dev)
        fr = hist_stream(th, amt, h['Ts'], P * h['Psf'])
        if flash(fr, 'fresh', T=T, P=P):
            Vf = vfrac(fr, vidx)
            rec.check(abs(Vf - V) <= 5e-3, 'independent-reflash', 'TP/history/' + sfx, f'{what}: vle(T={T}, P={P}) gives vapour fraction {V!r} but {Vf!r} on a fresh stream with the same contents', residual=abs(Vf - V))
        return 0.0 < V < 1.0

    # ---- where the second flash takes place: a point of the T/P box at which the SECOND mixture is two-phase (85 %), else the drawn (T, P)
    tp = pick_TP(idsB, xB, h['T'], h['P'], V2)
    if tp is None: rec.refuse('history: no two-phase point of the second mixture found inside the T/P box'); return False
    T2, P2 = tp
    spec1 = h['spec1']
    T1 = T2 if h['sameT'] else min(450., max(280., round(T2 + h['dT'], 2)))
    # ---- first flash, on the first contents
    s = hist_stream(th, amtA, h['Ts'], P2 * h['Psf'], h['obj'])
    if spec1 == 'TV': ok = flash(s, 'first', T=T1, V=V1)
    elif spec1 == 'TP': ok = flash(s, 'first', T=T1, P=P2)
    elif spec1 == 'TP-inside':
        P1 = P_inside(idsA, xA, T1, V1)
        ok = flash(s, 'first', T=T1, P=P2 if P1 is None else P1)
    elif spec1 in ('TH', 'TS'):
        pr = hist_stream(th, amtA, h['Ts'], P2)
        ok = flash(pr, 'probe', T=T1, V=V1) and flash(s, 'first', T=T1, **{spec1[1]: getattr(pr, spec1[1])})
    elif spec1 == 'PV': ok = flash(s, 'first', P=P2, V=V1)
    else:
        pr = hist_stream(th, amtA, h['Ts'], P2)
        ok = flash(pr, 'probe', P=P2, V=V1) and flash(s, 'first', P=P2, H=pr.H)
    if not ok: return False
    if spec1 in ('PV', 'PH'):
        # the second flash is specified at the very temperature the first one returned
        T2 = float(s.T) if h['sameT'] else round(float(s.T) + h['dT'], 2)
        if not (280. <= T2 <= 450.): rec.refuse('history: the temperature returned by the first flash is outside the T box'); return False
        if h['inside']:
            P2 = P_inside(idsB, xB, T2, V2)
            if P2 is None: rec.refuse('history: no two-phase point of the second mixture found inside the T/P box'); return False
    rows1 = rows_of(s).copy(); P1_used = float(s.P)
    # ---- the contents change
    first = s
    if mode == 'other-stream': s = hist_stream(th, amtB, h['Ts'], P2 * h['Psf'], h['obj'])      # not a change of contents: ANOTHER stream of the same package is flashed next
    else: s = change_contents(s, th, amtB, method, h['Ts'], P2)
    tot = totals_of(s); want = np.array([amtB.get(i, 0.) for i in chems.IDs])
    if not np.allclose(tot, want, rtol=1e-12, atol=0.0): rec.refuse(f'history: {method} did not leave the intended contents (not a flash)'); return False
    same_set = mode == 'other-stream' or set(idsA) | ({'N2'} if n2A else set()) == set(idsB) | ({'N2'} if n2B else set())      # (another stream has equilibrium objects of its own)
    what = f'history ({hist}), second flash'
    rec.hit('history'); rec.hit('history:' + mode); rec.hit('history:method=' + method); rec.hit('history:first=' + spec1); rec.hit('history:' + h['kind'])
    if h['obj'] == 'Stream': rec.hit('history:obj=Stream')
    # ---- second flash, on the new contents
    spec2 = h['spec2']; vidx = [chems.index(i) for i in idsB]
    if spec2 == 'xy' and (len(idsB) != 2 or n2B): spec2 = 'TP'      # x / y specifications: binary equilibrium sets
    if spec2 == 'TP':
        if not flash(s, 'second', T=T2, P=P2): return False
        rec.hit('history:second=TP')
        two = judge_TP(s, idsB, xB, amtB, T2, P2, mode, n2B, what)
        if two and h['sameT'] and not same_set: rec.hit('history:same-T/changed-set/two-phase')
        if mode == 'scaled' and spec1 == 'TP' and P1_used == P2:
            k = h['k']; rows2 = rows_of(s); F = rows1.sum()
            okk = np.allclose(rows2, k * rows1, rtol=0, atol=1e-5 * F * k); key = 'TP/history/rescaled-contents'
            if not okk and not ideal and 0 < vfrac(s, vidx) < 1:
                try:
                    g = rows2[0][vidx]; l = rows2[1][vidx]; y = g / g.sum(); x = l / l.sum(); cs = tuple(chems[i] for i in idsB); Psat = Psats(idsB, T2)
                    fl = x * th.Gamma(cs)(x.copy(), T2) * Psat * th.PCF(cs)(T2, P2, Psat); fg = y * th.Phi(cs)(y.copy(), T2, P2) * P2
                    if float((np.abs(fl - fg) / fg).max()) > 1e-2: key = 'TP/unconverged-fixed-point'      # the recorded mechanism (an unconverged iterate depends on rounding)
                except Exception: pass
            rec.hit('history:rescaled')
            rec.check(okk, 'scaling', key, f'{what}: the contents were multiplied by {k} and flashed again at T={T2}, P={P2}: the flows are not {k} times those of the first flash (max deviation {np.abs(rows2 - k * rows1).max() / (F * k):.3g} of the feed)', residual=float(np.abs(rows2 - k * rows1).max() / (F * k)))
    elif spec2 in ('TV', 'PV'):
        spec = {'T': T2, 'V': V2} if spec2 == 'TV' else {'P': P2, 'V': V2}; fixed = spec2[0]
        if not flash(s, 'second', **spec): return False
        rec.hit('history:second=' + spec2)
        rec.check(getattr(s, fixed) == spec[fixed], 'spec-TP', spec2 + '/history', f'{what}: vle({spec}) left {fixed}={getattr(s, fixed)!r}')
        Vg = vfrac(s, vidx)
        if ideal:
            if n2B: rec.refuse('history: T/V on the ideal package with a non-condensable gas: pressure not judged (no closed model kept for it)')
            else:
                z = np.array(xB); Ps = Psats(idsB, T2); Pb = float((z * Ps).sum()); Pd = float(1. / (z / Ps).sum())
                Pm = _bisect(lambda P: float((z * (Ps - P) / (P + V2 * (Ps - P))).sum()), Pd * (1 - 1e-9), Pb * (1 + 1e-9))
                if Pm is not None:
                    # resolution: P_tol = 1 Pa, or V_tol = 1e-6 translated to pressure with the width of the two-phase window
                    bound = 2.0 + 1e-5 * (Pb - Pd)
                    rec.check(abs(s.P - Pm) <= bound, 'raoult-rr', 'TV-pressure/history/' + mode, f'{what}: vle(T={T2}, V={V2}) with the ideal package returned P={s.P!r}, but the Raoult Rachford-Rice vapour fraction of the present contents equals {V2} at P={Pm!r} (z={z.tolist()})', residual=abs(s.P - Pm) / (Pb - Pd))
                    rec.check(abs(Vg - V2) <= max(1e-5, 10 * 0.96 / max(Pb - Pd, 1e-9)), 'vapour-fraction', 'TV/history/' + mode, f'{what}: vle(T={T2}, V={V2}): vapour fraction {Vg!r}', residual=abs(Vg - V2))
                    two = True
        else:
            vb = 1e-5
            if spec2 == 'TV':
                pr = hist_stream(th, amtB, h['Ts'], P2)
                if flash(pr, 'probe', T=T2, V=0.02):
                    pa = pr.P
                    if flash(pr, 'probe', T=T2, V=0.98): vb = max(1e-5, 10 * 0.96 / max(abs(pa - pr.P), 1e-9) * 1.0)
            rec.check(abs(Vg - V2) <= vb, 'vapour-fraction', spec2 + '/history/' + mode, f'{what}: vle({spec}): vapour fraction {Vg!r}', residual=abs(Vg - V2))
            fr = hist_stream(th, amtB, h['Ts'], P2 * h['Psf'])
            if 280. <= s.T <= 450. and 2e4 <= s.P <= 1e6 and flash(fr, 'fresh', T=s.T, P=s.P):
                V3 = vfrac(fr, vidx); key = spec2 + '/history/' + mode
                if abs(V3 - V2) > 5e-3 + vb:
                    try:
                        z_ = np.array(xB); cs_ = tuple(chems[i] for i in idsB)
                        dp_ = eq.DewPoint(cs_, th); Td_, xd_ = dp_.solve_Tx(z_, s.P)
                        if Td_ < eq.BubblePoint(cs_, th).solve_Ty(z_, s.P)[0] - 1e-6: key = spec2 + '/dew-below-bubble'      # the recorded dew-solver finding reaching the flash
                        else:
                            from vt.workloads.c08 import dew_status
                            if dew_status(dp_, z_, Td_, s.P, xd_, 'solve_Tx')[0] == 'unconverged': key = spec2 + '/dew-solver-unconverged'
                    except Exception: pass
                rec.check(abs(V3 - V2) <= 5e-3 + vb, 'independent-reflash', key, f'{what}: vle({spec}) returned T={s.T!r}, P={s.P!r}; a T-P flash of a fresh stream with the same contents there gives vapour fraction {V3!r}, not {V2} (z={xB})', residual=abs(V3 - V2))
            two = True
        if two and fixed == 'T' and h['sameT'] and not same_set: rec.hit('history:same-T/changed-set/two-phase')
    elif spec2 == 'xy':
        # the specified composition: that of the named phase of a fresh stream with the same contents at (T2, P2) (rounded), so that the lever rule is feasible
        nm = h['xy']; fixed = {'T': T2} if nm[0] == 'T' else {'P': P2}
        vo = sorted(vidx)      # x / y are given in the order of the chemicals of the package
        pr = hist_stream(th, amtB, h['Ts'], P2)
        if not flash(pr, 'probe', T=T2, P=P2): return False
        row = pr.imol['l' if nm[1] == 'x' else 'g'].to_array()[vo]
        if not (0 < vfrac(pr, vidx) < 1): rec.refuse('history: x / y specification not exercised (the second mixture is one phase at the chosen point)'); return False
        v = min(max(round(float(row[0] / row.sum()), 4), 0.001), 0.999)
        if not flash(s, 'second', **fixed, **{nm[1]: [v, 1 - v]}): return False
        rec.hit('history:second=xy')
        rec.check(getattr(s, nm[0]) == fixed[nm[0]], 'spec-TP', nm + '/history', f'{what}: vle({fixed}, {nm[1]}=[{v}, {1 - v}]) left {nm[0]}={getattr(s, nm[0])!r}')
        row = s.imol['l' if nm[1] == 'x' else 'g'].to_array()[vo]
        if row.sum() > 1e-9 * FB:
            got = row[0] / row.sum()
            rec.check(abs(got - v) <= 1e-4, 'spec-xy', nm + '/history/' + mode, f'{what}: vle({fixed}, {nm[1]}=[{v}, ...]): the {"liquid" if nm[1] == "x" else "vapour"} holds a fraction {got!r} of {chems.IDs[vo[0]]}', residual=abs(got - v))
        two = 0 < vfrac(s, vidx) < 1
    elif spec2 == 'TH':
        # the enthalpy of the two-phase state of the new contents at (T2, V2); reproduced to |dH/dP| * P_tol (the T-specified search solves for the pressure to P_tol = 1 Pa)
        pr = hist_stream(th, amtB, h['Ts'], P2)
        if not flash(pr, 'probe', T=T2, V=0.02): return False
        Hlo, Plo = pr.H, pr.P
        if not flash(pr, 'probe', T=T2, V=0.98): return False
        Hhi, Phi_ = pr.H, pr.P
        if not flash(pr, 'probe', T=T2, V=V2): return False
        target = pr.H
        if Hhi == Hlo: rec.refuse('history: degenerate two-phase window (probe flashes returned the same state)'); return False
        slopeH = abs(Hhi - Hlo) / max(abs(Plo - Phi_), 1e-9)
        if not flash(s, 'second', T=T2, H=target): return False
        rec.hit('history:second=TH')
        rec.check(s.T == T2, 'spec-TP', 'TH/history', f'{what}: vle(T={T2}, H=...) left T={s.T!r}')
        C = s.C; got = s.H; key = 'TH/history/' + mode
        if abs(got - target) > max(1e-5 * C, 10 * slopeH):
            # the recorded mechanisms of the T-specified searches (same classification as for streams without a history)
            chk = hist_stream(th, amtB, h['Ts'], P2)
            if flash(chk, 'fresh', T=T2, P=s.P): key = 'TH/unconverged-pressure' if abs(chk.H - target) > 10 * slopeH + 1e-5 * chk.C else 'TH/stream-not-at-returned-pressure'
        rec.check(abs(got - target) <= max(1e-5 * C, 10 * slopeH), 'spec-H', key, f'{what}: vle(T={T2}, H={target!r}): stream H = {got!r} (residual {abs(got - target) / C:.3g} K*C)', residual=abs(got - target) / C)
        two = 0 < vfrac(s, vidx) < 1
    else:      # PH: the enthalpy of the two-phase state of the new contents at (P2, V2)
        pr = hist_stream(th, amtB, h['Ts'], P2)
        if not flash(pr, 'probe', P=P2, V=V2): return False
        target = pr.H
        if not flash(s, 'second', P=P2, H=target): return False
        rec.hit('history:second=PH')
        C = s.C
        rec.check(s.P == P2, 'spec-TP', 'PH/history', f'{what}: vle(P={P2}, H=...) left P={s.P!r}')
        rec.check(abs(s.H - target) <= 1e-5 * C, 'spec-H', 'PH/history/' + mode, f'{what}: vle(P={P2}, H={target!r}): stream H = {s.H!r} (residual {abs(s.H - target) / C:.3g} K*C)', residual=abs(s.H - target) / C)
        rec.check(abs(s.T - pr.T) <= 1e-3, 'independent-reflash', 'PH/history/' + mode, f'{what}: vle(P={P2}, H = the enthalpy of a fresh stream with the same contents at vapour fraction {V2}) returned T={s.T!r}; the fresh stream is at T={pr.T!r}', residual=abs(s.T - pr.T))
        two = 0 < vfrac(s, vidx) < 1
    # ---- third flash: back to the first set of chemicals (new proportions), at the temperature of the second flash
    if h['third'] and spec2 in ('TP', 'TV'):
        amt3 = {i: x * FA for i, x in zip(idsA, h['xA3'])}
        if n2A: amt3['N2'] = h['n2_frac'] * FA
        P3 = P_inside(idsA, h['xA3'], T2, V1)
        if P3 is None: rec.refuse('history: no two-phase point of the third mixture found inside the T/P box')
        else:
            s = change_contents(first if mode == 'other-stream' else s, th, amt3, method, h['Ts'], P3)
            if np.allclose(totals_of(s), np.array([amt3.get(i, 0.) for i in chems.IDs]), rtol=1e-12, atol=0.0) and flash(s, 'third', T=T2, P=P3):
                rec.hit('history:third')
                if judge_TP(s, idsA, h['xA3'], amt3, T2, P3, 'back-to-first-set', n2A, f'history ({hist}, and back to {idsA} through {method}), third flash'): two = True
    return two


def replay(case, rec):
    run_case(case, rec)


def run(rec, rng, tier, shard, nshards):
    n = 100 if tier == 'quick' else 1650
    for i in range(n):
        case = gen_case(rng)
        try:
            run_case(case, rec)
        except Exception as e:
            rec.exception('harness', e, what=f'harness error: {type(e).__name__}: {e}')
        if i % 23 == 0: rec.sample(case)
