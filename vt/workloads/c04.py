"""C04 — a vapour-liquid flash honours its specifications and the equilibrium conditions.

Monitor: T, P, H, S, vapour fraction and phase rows of the real stream are read after each vle(...) call and judged
against the specification, against fugacities recomputed by the harness from the package's model objects, against the
public bubble / dew point solvers, against an independent Raoult's-law Rachford-Rice flash (ideal package) and against
the flash of the k-times scaled feed.
"""
import math, random, warnings
import numpy as np
import thermosteam as tmo
from thermosteam import equilibrium as eq
from vt.core import case_hash

PID = 'C04'
RULE = ('compositions of 1-5 volatile chemicals (family-restricted for the vapour-fraction / phase-boundary / iso-fugacity clauses, any for the ideal-package clause), every mole fraction >= 0.02 in the family clauses, '
        'with or without <= 2 mol % N2 (gas-locked) / glucose (solid-locked), F in 10^U(-2,3), T 280-450 K, P 2e4-1e6 Pa, V in (0.02,0.98), H/S between the V=0.02 and V=0.98 values, k in 10^U(-3,3). '
        'per composition: TP, PV, TV, PH, PS, TH, TS flashes, an independent TP re-flash, the ideal-package Rachford-Rice comparison and the scaled-feed flash. '
        'added by the coverage audit: H / S flashes of a single chemical (alone, with a solid, with a gas) incl. targets just outside the saturated values, P exactly at Psat / the bubble / the dew pressure, P/V and T/V on every kind of '
        'mixture (kept variable), scaling under PV, TV and PH, N2 and glucose together, the ideal-package Rachford-Rice comparison with N2 as non-partitioning gas, a feed that starts split over g / l, T/P -> P/V -> P/H chained on one stream, '
        'VLE method shgo under the phase-boundary and iso-fugacity clauses. '
        'seeded round 5, one HISTORY per case on one stream (one VLE object; its own draw of chemicals from a whole family / from all chemicals with the ideal package, in a package that holds more chemicals than the stream): '
        'first flash (TV, TP, TH, TS, PV, PH) - the contents change (one chemical swapped, dropped, added, a disjoint set, new proportions, k times the contents, nothing, or another stream of the package is flashed instead; '
        'through imol assignment, touching only what changes, copy_flow, copy_like, mix_from, empty + set, a proxy; the stream starts as MultiStream or Stream; N2 present, appearing or vanishing) - second flash at the very '
        'temperature of the first (80 %) inside the two-phase window of the new contents (85 %) with TP, TV, PV, PH, TH or x / y - optionally back to the first set and a third T-P flash; judged by the same clauses on the new contents. '
        'oracle audit (round 6): phase boundaries, x / y specifications and the state a P/H flash returns are judged against a harness-side model (closed-form bubble pressure, own dew fixed point, fugacities from the '
        "package's gamma / phi / pcf / Psat as data) besides the library's own solvers; P/H and P/S results are re-flashed at the returned T; one chemical on its saturation line is judged through Psat(T returned); "
        'keys of the recorded findings carry the input class (kind of mixture, +inert); a raise counts as a refusal only for the documented exception type of that specification and, where the harness can, only after '
        'it verified the reason from the inputs (x / y: lever rule outside [0, 1] with its own model), everything else is reported; unverifiable refusals above 40 % of the calls of a specification (and at least 8 in a shard) make the run inconclusive. '
        'non-trivial = two-phase result; distinct = hash of the case')
MIN_NONTRIVIAL = {'quick': 150, 'thorough': 4000}
ASSUMPTIONS = ['scaling under P/S is not judged: the liquid entropy functions of the property package (HEOS_FIT heat-capacity integrals of the thermo dependency) jump by whole J/mol/K between adjacent temperatures, so equal entropies do not identify equal states',
               'fugacities are recomputed from thermo.Gamma / Phi / PCF and Chemical.Psat (the same model objects the flash uses)',
               'scaling bound 1e-5 of the feed (two fixed points converged to K_tol=1e-6; observed 3.3e-7 once in 24 000 compositions, otherwise 1e-15)', 'independent re-flash bound 1e-4 in vapour fraction (was 5e-3; two fixed points converged to K_tol=1e-6 from different guesses, worst observed 7e-6), iso-fugacity bound 1e-5 relative (was 1e-4; worst observed 1e-7), 3e-5 for the split a P/H flash leaves after its final correction (worst observed 1e-6); entropy bound 5e-3 of (S_vap - S_liq): the final entropy correction moves a fraction of one phase linearly while the mixing entropy is not linear (observed up to 1.3e-3 on cross-family mixtures); T-specified H/S and TV bounds follow from P_tol = 1 Pa times the slope across the two-phase window',
               'histories: the pressure returned by T/V with the ideal package is compared with the pressure at which the Raoult Rachford-Rice vapour fraction equals the specification, bound 2 Pa (P_tol = 1 Pa) + 1e-5 of the window width (V_tol = 1e-6); a raise of the second flash is counted, not judged (the property speaks about calculations that return) - only the documented refusals, see RULE',
               'harness-side equilibrium model: P_bubble = sum_i z_i gamma_i(z, T) Psat_i pcf_i / phi_i, P_dew by the fixed point x <- z P phi / (gamma(x) Psat pcf); the model objects of the package are evaluated as data, no solver of the library takes part; bubble / dew pressures of the library agree with it to 1e-6 relative + 1e-2 Pa (observed 3e-12)',
               'P/S flashes: the equilibrium entropy as a function of T is not continuous with this package (jumps of up to 1e-2 of S_vap - S_liq, more than the entropy of the vapour present at small vapour fractions), so set_PS cannot locate T finer than that and may fall back on a one-phase state (Hexane/Benzene at 275 kPa, window 0.3 K wide: all liquid 0.5 K above the dew temperature): no re-flash and no fugacity condition is demanded of a P/S result (tried: an independent T-P flash at the returned T differs by up to 1.0 in vapour fraction on the unchanged library), only that the returned T lies inside the window of the P/V flashes at vapour fractions 0.02 / 0.98 widened by max(10 %, 5 K); a P/S specification that lands beyond the all-liquid / all-vapour entropy (one-phase result) is outside the box of the property and not judged; a one-phase P/S result that an independent T-P flash at the returned T confirms and that misses the entropy by less than 2e-2 of S_vap - S_liq (a jump of the entropy functions: the one-phase state is found by solving S(T) = target on them) is not judged either, as for a single chemical - both were formerly filed under the recorded first-order-correction finding although no material had been moved; that finding is now granted only up to R * ln 2 * (the amount moved = difference to the equilibrium split at the returned T)',
               'P/H flashes: an independent T-P flash at the returned T reproduces H to 1e-5 K*C + 10 * T_tol * |dH/dT| across the window (T_tol = 5e-8 K, kept as a constant of the harness); the T-specified H / S searches are judged as before (P_tol = 1 Pa)',
               'thorough run 11: (1) an independent T-P flash of the library that serves as the reference for the state a P/H or V-specified flash returned is itself subject to the recorded fixed-point finding (it may return an iterate that is not the limit): it is judged by the iso-fugacity clause like every T-P flash inside the box, and when the harness-side successive substitution from its split converges elsewhere the reference is that limit (reach counters reflash:*/reference=limit-of-fixed-point); '
               '(2) a one-phase P/S result inside the two-phase window is not judged for entropy reproduction when the specified entropy lies within the MEASURED noise of the entropy function of the saturated value and is missed by no more than the bound plus that noise - the noise is the spread of the returned stream\'s own entropy over 33 temperatures within 1.6e-3 K (benzene liquid from the thermo dependency: 2 - 4 J/mol/K; every other liquid and all gases of the workload: 0 .. 1.5e-3), so contents with continuous entropy functions keep the plain bound; '
               '(3) raises of a flash carry the pressure bucket in the input class (P-specified temperature solve above 5e5 Pa = /high-pressure, as in C08) and are counted per attempted solve of that class (reach P-spec:<class>/high-pressure); the pair of temperature solves the history clauses ask of the library to place the second flash are keyed and counted the same way']
FAM = {'alcohol': ('Methanol', 'Ethanol', 'Propanol', 'Butanol'), 'hydrocarbon': ('Hexane', 'Heptane', 'Octane', 'Benzene', 'Toluene')}
ANY = ('Water', 'Acetone') + FAM['alcohol'] + FAM['hydrocarbon']
_th = {}
_locked = {}


def required(tier):
    return ['spec-TP', 'spec-H', 'spec-S', 'vapour-fraction', 'independent-reflash', 'phase-boundary', 'iso-fugacity', 'raoult-rr', 'scaling', 'single-component', 'with-inerts', 'spec-xy', 'two-packages',
            # coverage audit
            'single:PH', 'single:PS', 'single:TH', 'single:TS', 'single:at-Psat', 'single+gas:H/S', 'V-spec:any-kind', 'boundary:P=P_bubble', 'boundary:P=P_dew', 'raoult-rr:with-gas', 'with-inerts:gas-and-solute',
            'initial-distribution', 'chained', 'method:shgo/inside',
            # seeded round 5: histories on one stream
            'history', 'history:family', 'history:ideal', 'history:same-T/changed-set/two-phase', 'history:inside-window', 'history:swap', 'history:drop', 'history:add', 'history:disjoint', 'history:new-proportions',
            'history:rescaled', 'history:unchanged', 'history:other-stream', 'history:third', 'history:obj=Stream', 'history:method=proxy', 'history:method=mix_from', 'history:method=imol-touch',
            'history:second=TP', 'history:second=TV', 'history:second=PV', 'history:second=PH', 'history:second=TH', 'history:second=xy',
            # oracle audit (round 6): harness-side references and the observation points that must not fall silent
            'own-model:window', 'boundary:solver-vs-model', 'spec-xy:equilibrium', 'spec-xy:both-phases', 'spec-xy:refusal-verified', 'reflash:PH', 'window:PS', 'reflash:PH/chained',
            'returned:PT', 'returned:PV', 'returned:TV', 'returned:HP', 'returned:PS', 'returned:HT', 'returned:ST', 'T-spec-HS:family', 'T-spec-HS:ideal', 'P-spec-HS:family', 'P-spec-HS:ideal', 'scaling-TP:family', 'scaling-TP:cross-family',
            # thorough run 11: denominator of the rate bound of the recorded raise of the dew-temperature solver at high pressure within a family
            'P-spec:family/high-pressure']


def chem(i):
    if i == 'N2':
        if i not in _locked: _locked[i] = tmo.Chemical('N2', phase='g', cache=False)
        return _locked[i]
    if i == 'Glucose':
        if i not in _locked: _locked[i] = tmo.Chemical('Glucose', phase='s', cache=False)
        return _locked[i]
    return tmo.Chemical(i, cache=True)


def thermo(ids, ideal=False):
    k = (tuple(ids), ideal)
    if k not in _th:
        th = tmo.Thermo(tmo.Chemicals([chem(i) for i in ids]))
        _th[k] = th.ideal() if ideal else th
    return _th[k]


def gen_case(rng):
    kind = rng.choice(['family', 'family', 'family', 'any', 'ideal', 'single'])
    if kind == 'single':
        ids = [rng.choice(ANY)]
    elif kind == 'family':
        f = rng.choice(list(FAM)); ids = rng.sample(FAM[f], rng.randrange(2, len(FAM[f]) + 1) if len(FAM[f]) > 2 else 2)
    else:
        ids = rng.sample(ANY, rng.randrange(2, 6))
    x = [rng.uniform(0.05, 1) for _ in ids]; s = sum(x); x = [v / s for v in x]
    if kind == 'family':
        while min(x) < 0.02:
            x = [rng.uniform(0.05, 1) for _ in ids]; s = sum(x); x = [v / s for v in x]
    inert = None
    if kind in ('any', 'single') and rng.random() < 0.5: inert = rng.choice(['N2', 'Glucose'])
    c = {'kind': kind, 'ids': ids, 'x': x, 'F': round(10 ** rng.uniform(-2, 3), 5), 'inert': inert, 'inert_frac': round(rng.uniform(0.001, 0.02), 5),
            'T': round(rng.uniform(280, 450), 2), 'P': round(10 ** rng.uniform(math.log10(2e4), 6), 1), 'V': round(rng.uniform(0.03, 0.97), 4), 'f': round(rng.uniform(0.05, 0.95), 4) if rng.random() < 0.65 else rng.choice([-0.015, -0.005, 0.002, 0.01, 0.03, 0.97, 0.99, 1.005, 1.015]),
            'k': round(10 ** rng.uniform(-3, 3), 6),
            # the state the stream is in BEFORE each flash: the specified values must be written, not merely kept
            'dT0': rng.choice([0.0, round(rng.uniform(-60, 60), 2), round(rng.uniform(-60, 60), 2)]), 'P0f': rng.choice([1.0, 0.5, 2.0, round(10 ** rng.uniform(-0.5, 0.5), 3)])}
    # coverage audit: non-condensable gas AND non-volatile solute together; the ideal-package clause with a non-condensable gas; the feed initially vapour / split;
    # the pressure exactly on the bubble / dew pressure; the Gibbs-minimising solver method
    if kind == 'ideal' and rng.random() < 0.4: c['inert'] = 'N2'
    c['inert2'] = ({'N2': 'Glucose', 'Glucose': 'N2'}[c['inert']] if (c['inert'] and rng.random() < 0.4) else None)
    c['inert2_frac'] = round(rng.uniform(0.001, 0.02), 5)
    c['dist0'] = [rng.choice([0.0, 1.0, round(rng.random(), 3), round(rng.random(), 3)]) for _ in ids]
    c['boundary'] = rng.random() < 0.35
    c['shgo'] = rng.random() < 0.3
    c['shgo_inside'] = rng.random() < 0.75      # move the pressure of the shgo clause into the two-phase window when the random (T, P) is outside it
    # seeded round 5: a history on ONE stream (one VLE object): flash, the contents change, flash again.  The sub-case is drawn from a generator of its own
    # (seeded by the hash of the case so far) so that the cases above stay what they were
    c['hist'] = gen_hist(random.Random(int(case_hash(c), 16)))
    return c


def make(case, th, scale=1.0, split=False):
    s = tmo.MultiStream(None, phases=('g', 'l'), T=max(255., case['T'] + case.get('dT0', 0.0)), P=case['P'] * case.get('P0f', 1.0), thermo=th)
    F = case['F'] * scale
    for i, v in zip(case['ids'], case['x']): s.imol['l', i] = v * F
    if case['inert']:
        s.imol['g' if case['inert'] == 'N2' else 'l', case['inert']] = case['inert_frac'] * F
    if case.get('inert2'):
        s.imol['g' if case['inert2'] == 'N2' else 'l', case['inert2']] = case['inert2_frac'] * F
    if case.get('dist0') and split:
        # the feed starts partly / entirely as vapour (each volatile chemical's own fraction)
        for i, d in zip(case['ids'], case['dist0']):
            if d:
                v = s.imol['l', i]; s.imol['g', i] = v * d; s.imol['l', i] = v - v * d
    return s


def vfrac(s, idx):
    g = s.imol['g'].to_array()[idx].sum(); l = s.imol['l'].to_array()[idx].sum()
    return g / (g + l) if g + l else 0.0


def raoult_rr(z, K):
    """Rachford-Rice for ideal K values; returns V in [0,1]."""
    if (z * K).sum() <= 1.0: return 0.0
    if (z / K).sum() <= 1.0: return 1.0
    lo, hi = 0.0, 1.0
    f = lambda V: (z * (K - 1) / (1 + V * (K - 1))).sum()
    for _ in range(200):
        mid = 0.5 * (lo + hi)
        if f(mid) > 0: lo = mid
        else: hi = mid
    return 0.5 * (lo + hi)


REFUSE = ('InfeasibleRegion', 'NoEquilibrium', 'DomainError', 'NotImplementedError')
ISO_TOL = 1e-5        # liquid / vapour fugacities of a returned two-phase split, relative (ten times the flash's K_tol = 1e-6; worst observed 1.1e-7 .. 5e-7)
SAT_TOL = 5e-6        # |Psat(T returned) - P| / P for one chemical on its saturation line (as C08)
XY_P_TOL = 1e-6       # x / y specifications: saturation pressure of the named phase at the returned state, relative (+ 1e-2 Pa)
XY_ISO_TOL = 1e-6     # x / y specifications: fugacities of the two returned phases, relative
T_TOL = 5e-8          # the flash's stated temperature resolution (VLE.T_tol), as a constant of the harness
PS_T_MARGIN = 15.0    # K: a P/S flash whose entropy lies between the values at vapour fractions 0.0056 and 0.9944 returns a T inside the window of the P/V flashes at 0.02 / 0.98, widened by 10 % or this (coarse: see ASSUMPTIONS)
FIRST_ORDER_FACTOR = math.log(2.)
ENTROPY_JUMP = 2e-2   # of (S_vap - S_liq): size of the jumps of the package's entropy functions between adjacent temperatures (observed 5e-3 .. 1.1e-2), see ASSUMPTIONS
BOUNDARY_TOL = 1e-6   # bubble / dew pressure the flash computes against the harness-side model, relative (+ 1e-2 Pa)
PH_T_TOL = 5e-5       # K: temperature returned by a P/H flash against the fresh P/V flash whose enthalpy was specified (T_tol = 5e-8 K each; worst observed 2e-6 in 580 flashes; was 1e-3)
PH_ISO_TOL = 3e-5     # fugacities of the two phases a P/H flash returns (after its final correction of the split), relative; worst observed 1e-6 in 1100 flashes
PH_V_TOL = 1e-5       # vapour fraction of a P/H result against an independent T-P flash at the returned T (worst observed 2.5e-7 in 700 flashes)
REFLASH_TOL = 1e-4    # vapour fraction of an independent T-P flash at the returned state (two fixed points converged to K_tol = 1e-6 from different guesses; worst observed 7e-6)

# ---------------------------------------------------------------------------
# oracle audit (round 6): harness-side equilibrium models.  The package's model objects (activity, fugacity and Poynting coefficients, Chemical.Psat) are used as DATA,
# evaluated at given points; no solver of the library (bubble / dew point, flash) takes part, so a regression in one of those cannot move the reference with it.

_models = {}
_obs = None      # calibration hook: a dict name -> list of residuals when set by a calibration script (never set by the harness)


def obs(name, val):
    if _obs is not None: _obs.setdefault(name, []).append(float(val))


def models(th, cs):
    k = (id(th), tuple(c.ID for c in cs))
    if k not in _models: _models[k] = (th, th.Gamma(cs), th.Phi(cs), th.PCF(cs))
    return _models[k][1:]


def psats(cs, T): return np.array([c.Psat(T) for c in cs], float)


def own_fugacities(th, cs, x, y, T, P):
    gam, phi, pcf = models(th, cs); Psat = psats(cs, T)
    return x * gam(x.copy(), T) * Psat * pcf(T, P, Psat), y * phi(y.copy(), T, P) * P


def own_bubble(th, cs, x, T):
    """(P, y) at which liquid x starts to boil at T: P = sum_i x_i gamma_i(x, T) Psat_i pcf_i / phi_i - closed form when phi and pcf do not depend on (P, y), else a few substitutions"""
    gam, phi, pcf = models(th, cs); Psat = psats(cs, T)
    a = x * gam(x.copy(), T) * Psat
    P = float(a.sum()); y = a / P
    for _ in range(100):
        b = a * pcf(T, P, Psat) / phi(y.copy(), T, P); Pn = float(b.sum()); yn = b / Pn
        done = abs(Pn - P) <= 1e-13 * Pn and float(np.abs(yn - y).max()) <= 1e-13
        P, y = Pn, yn
        if done: return P, y
    return None


def own_dew(th, cs, y, T):
    """(P, x) at which vapour y starts to condense at T: own fixed point x <- y P phi / (gamma(x) Psat pcf), P = 1 / sum(y phi / (gamma Psat pcf)); None when it does not settle
    (a contraction for the near-ideal mixtures of the family clauses: 10-40 substitutions)"""
    gam, phi, pcf = models(th, cs); Psat = psats(cs, T)
    x = y / Psat; x = x / x.sum(); P = float(1. / (y / Psat).sum())
    for _ in range(1500):
        k = gam(x.copy(), T) * Psat * pcf(T, P, Psat) / phi(y.copy(), T, P)
        Pn = float(1. / (y / k).sum()); xn = y * Pn / k; xn = xn / xn.sum()
        step = max(abs(Pn - P) / Pn, float(np.abs(xn - x).max()))
        P, x = Pn, xn
        if step <= 1e-13: return P, x
    return None


def judge_window(rec, V, P, Pb, Pd, sfx, ref, what):
    """the phase-boundary clause at specified (T, P) against a bubble pressure Pb and a dew pressure Pd (`ref` says where they come from); returns True when P is inside the window"""
    if P >= Pb * (1 + 1e-6): rec.check(V == 0.0, 'phase-boundary', 'above-bubble' + sfx, f'{what}: P={P} >= P_bubble={Pb!r} ({ref}) but vapour fraction is {V!r}')
    elif P <= Pd * (1 - 1e-6): rec.check(V == 1.0, 'phase-boundary', 'below-dew' + sfx, f'{what}: P={P} <= P_dew={Pd!r} ({ref}) but vapour fraction is {V!r}')
    elif Pd * (1 + 1e-4) < P < Pb * (1 - 1e-4):
        rec.check(0.0 < V < 1.0, 'phase-boundary', 'inside' + sfx, f'{what}: P_dew={Pd!r} < P={P} < P_bubble={Pb!r} ({ref}) but vapour fraction is {V!r}')
        return True
    return False


def own_window(rec, th, cs, z, T):
    """(P_bubble, P_dew) of the harness-side model, or None (counted) when the own dew fixed point does not settle"""
    b = own_bubble(th, cs, z, T); d = own_dew(th, cs, z, T)
    if b is None or d is None:
        rec.refuse('harness-side bubble / dew model did not settle (own fixed point): phase boundary judged against the library solvers only'); return None
    rec.hit('own-model:window')
    return b[0], d[0]


def lib_window(rec, th, cs, z, T, where=''):
    """(P_bubble, P_dew) of the library's public solvers (cross-check of the own model; what the flash itself uses).  A documented refusal of the solvers is counted,
    anything else they raise is reported: the phase-boundary clause must not silently disappear"""
    try:
        return float(eq.BubblePoint(cs, th).solve_Py(z.copy(), T)[0]), float(eq.DewPoint(cs, th).solve_Px(z.copy(), T)[0])
    except Exception as e:
        if type(e).__name__ == 'InfeasibleRegion': rec.refuse(f'{where}bubble/dew point unavailable: {type(e).__name__}')
        else: rec.exception('phase-boundary', e, what=f'{where}BubblePoint.solve_Py / DewPoint.solve_Px on {[c.ID for c in cs]} (z={z.tolist()}, T={T}) raised {type(e).__name__}: {str(e)[:140]}')
        return None


def secant_T(fn, P0, T1=340., T2=360.):
    """T at which fn(T) = P0 by the secant method in (1 / T, ln P), where vapour-pressure-like functions are almost straight; None when it does not settle or a model leaves its domain"""
    try:
        a1, a2 = 1. / T1, 1. / T2; f1 = math.log(fn(T1) / P0); f2 = math.log(fn(T2) / P0)
        for _ in range(40):
            if abs(f2) <= 1e-12: return 1. / a2
            if f2 == f1: return None
            a3 = a2 - f2 * (a2 - a1) / (f2 - f1)
            if not (1. / 1000. < a3 < 1. / 150.): return None
            a1, f1 = a2, f2; a2 = a3; f2 = math.log(fn(1. / a2) / P0)
    except Exception: return None
    return None


def xy_model(th, cs, nm, v, val):
    """harness-side model of an x / y specification on a binary: (T, P, x, y) with the named phase of composition [v, 1 - v] on its saturation line at the given T (P); None when the model does not settle"""
    w = np.array([v, 1. - v]); f = own_bubble if nm[1] == 'x' else own_dew
    if nm[0] == 'T': T = val
    else: T = secant_T(lambda T_: (f(th, cs, w, T_) or (float('nan'),))[0], val)
    r = f(th, cs, w, T) if T else None
    if r is None: return None
    return (T, r[0], w, r[1]) if nm[1] == 'x' else (T, r[0], r[1], w)


def dew_residual_own(th, cs, z, T, P, x):
    """how far the dew point (T, P, x) a solver of the library returned for vapour z is from satisfying the dew equations, with the package's model objects as data:
    x_i = z_i P phi_i / (gamma_i(x) Psat_i pcf_i) must sum to 1 and reproduce x.  (Self-contained: formerly borrowed from the C08 workload, whose helper changed its signature,
    which silently switched the classification off.)"""
    gam, phi, pcf = models(th, cs); Psat = psats(cs, T)
    z = np.asarray(z, float); z = z / z.sum(); x = np.asarray(x, float); xn = x / x.sum()
    xp = z * P * phi(z.copy(), T, P) / (gam(xn.copy(), T) * Psat * pcf(T, P, Psat))
    r = max(abs(float(xp.sum()) - 1.0), float(np.abs(xp / xp.sum() - xn).max()))
    return r if r == r else float('inf')


DEW_RES_TOL = 1e-6      # (as C08: a returned dew point with a residual above this is not a dew point; converged ones are at 1e-9 .. 1e-12)


def dew_T_mechanism(th, cs, z, P):
    """'' | '/dew-below-bubble' | '/dew-solver-unconverged': the recorded C08 dew-solver finding reaching a P-specified flash, which takes its temperature bracket from the library's
    bubble / dew solvers (evaluated only to name the mechanism of an oracle that already failed): the dew temperature the library computes lies below its bubble temperature, or
    the returned dew point does not satisfy the dew equations"""
    try:
        z = np.asarray(z, float)
        Tb = eq.BubblePoint(cs, th).solve_Ty(z.copy(), P)[0]; Td, xd = eq.DewPoint(cs, th).solve_Tx(z.copy(), P)
        if Td < Tb - 1e-6: return '/dew-below-bubble'
        if dew_residual_own(th, cs, z, Td, P, xd) > DEW_RES_TOL: return '/dew-solver-unconverged'
    except Exception as e:
        if isinstance(e, (TypeError, AttributeError, NameError, KeyError, IndexError)): raise      # a broken classification must not pass silently (it did once)
    return ''


def dew_P_mechanism(th, cs, z, T):
    """the same for a T-specified flash: '' | '/dew-solver-unconverged' when the dew pressure the library computes does not satisfy the dew equations or exceeds its bubble pressure"""
    try:
        z = np.asarray(z, float)
        Pd, xd = eq.DewPoint(cs, th).solve_Px(z.copy(), T)
        if dew_residual_own(th, cs, z, T, Pd, xd) > DEW_RES_TOL or Pd > eq.BubblePoint(cs, th).solve_Py(z.copy(), T)[0] * (1 + 1e-9): return '/dew-solver-unconverged'
    except Exception as e:
        if isinstance(e, (TypeError, AttributeError, NameError, KeyError, IndexError)): raise
    return ''


def reference_limit(rec, th, cs, ref, vids, vidx, ids, T, P, of):
    """(thorough run 11) an independent T-P flash `ref` (two phases, family mixture) serves as the reference for the state another flash returned - but the T-P flash has a recorded
    finding of its own: its fixed point may return an iterate that is not its limit (Hexane/Heptane/Toluene/Benzene at 386.852 K, 240.7 kPa: vapour fraction 0.02766 with fugacities
    2e-3 apart, where the limit - and the P/H result that was judged against it - is 0.03005).  The reference flash is therefore judged by the iso-fugacity clause like every T-P flash
    inside the box, and when the harness finds it to be such an iterate (its own successive substitution from that split, on the package's model objects as data, converges elsewhere:
    fixed_point_limit) the limit is written into `ref`, which then is the equilibrium state at (T, P) indeed.  Returns True when `ref` was replaced"""
    g = ref.imol['g'].to_array()[vidx]; l = ref.imol['l'].to_array()[vidx]
    if not (g.sum() > 0 and l.sum() > 0): return False
    x = l / l.sum(); y = g / g.sum(); V = float(g.sum() / (g.sum() + l.sum()))
    fl, fg = own_fugacities(th, cs, x, y, T, P); dev = float((np.abs(fl - fg) / fg).max()); obs('iso:TP/reference', dev)
    st, lim = fixed_point_limit(th, cs, x, y, V, T, P) if dev > ISO_TOL else ('at-fixed-point', None)
    if 280. <= T <= 450. and 2e4 <= P <= 1e6:
        rec.check(dev <= ISO_TOL, 'iso-fugacity', 'TP' + ('/unconverged-fixed-point' if st == 'unconverged' else '/reference'),
                  f'liquid and vapour fugacities differ by {dev:.3g} (relative) after vle(T={T!r}, P={P!r}) on {ids} (the independent flash at the state {of} returned): f_l={fl.tolist()}, f_g={fg.tolist()}', residual=dev)
    if st != 'unconverged': return False
    Ft = float(g.sum() + l.sum())
    for i, gv, lv in zip(vids, lim[2] * Ft * lim[1], (1. - lim[2]) * Ft * lim[0]): ref.imol['g', i] = gv; ref.imol['l', i] = lv
    return True


def klass(kind, *inerts):
    """input class carried by the keys of the recorded findings: the kind of mixture and whether an inert (non-condensable gas / non-volatile solute) is present"""
    return kind + ('+inert' if any(inerts) else '')


HIGH_P = 5e5      # Pa: the 'high-pressure' bucket of a P-specified solve (as in the C08 workload: the recorded divergence of the dew-temperature solver within a family is a high-pressure phenomenon)


def p_bucket(spec):
    """'/high-pressure' for a flash that solves for the temperature at a specified pressure above HIGH_P (P with V, H, S, x or y), else '': part of the input class in the keys of raises"""
    P = spec.get('P')
    return '/high-pressure' if P is not None and 'T' not in spec and not (P <= HIGH_P) else ''


def run_case(case, rec):
    rec.begin_case(case)
    kind = case['kind']
    ids = list(case['ids']) + ([case['inert']] if case['inert'] else []) + ([case['inert2']] if case.get('inert2') else [])
    th = thermo(ids, ideal=(kind == 'ideal'))
    tmo.settings.set_thermo(th)
    chems = th.chemicals
    vidx = [chems.index(i) for i in case['ids']]      # the volatile (equilibrium) chemicals
    T0, P0, V0 = case['T'], case['P'], case['V']
    if case['inert']: rec.hit('with-inerts')
    if case.get('inert2'): rec.hit('with-inerts:gas-and-solute')
    two_phase = False
    cls = klass(kind, case['inert'], case.get('inert2'))
    inerts = [i for i in (case['inert'], case.get('inert2')) if i]
    # number of species the library counts as taking part (x / y specifications need exactly 2): the volatile ones, + 1 for a non-condensable gas, + 1 for a non-volatile solute that counts as solute
    N_eq = len(case['ids']) + ('N2' in inerts) + sum(1 for i in inerts if i != 'N2' and getattr(chems[i], 'N_solutes', 0))
    last = {}

    def flash(s, _allow=(), **spec):
        """one vle call.  C04 speaks about calculations that return, so a DOCUMENTED refusal is counted and not judged - but (oracle audit) only the documented exception type for
        that specification, and only when the harness can see from the inputs that it is warranted:
          InfeasibleRegion from the lever rule of an x / y specification (the call site then verifies with its own model that the composition is infeasible indeed);
          AssertionError of an x / y specification when the number of species in equilibrium is not 2;
          what the call site names in _allow = ((type name, message part[, warrant()]), ...) because it can see the reason (H / S outside the saturated values);
          NotImplementedError ('cannot solve for pressure yet') of a T-specified H / S search when inerts are present (the window is then modified by ad-hoc factors: recorded finding;
          counted under a ceiling).  (The library has no DomainError class, although REFUSE lists the name: it is not granted.)
        Everything else is reported."""
        nm = ''.join(sorted(spec)); last.clear()
        pb = p_bucket(spec)
        if pb: rec.hit(f'P-spec:{cls}{pb}')      # attempted temperature solves at a specified pressure above HIGH_P, per input class: denominator of the rate bound of the recorded raise of the dew-temperature solver
        try:
            s.vle(**spec); rec.hit('returned:' + nm); return True
        except Exception as e:
            tn = type(e).__name__; msg = str(e); xy_ = 'x' in spec or 'y' in spec; last['e'] = e; last['verified'] = False
            if tn == 'InfeasibleRegion' and xy_ and 'phase composition' in msg:
                rec.refuse(f'{nm}: {tn}'); return False      # (the x / y call site verifies the warrant and counts the unverifiable ones)
            if tn == 'AssertionError' and xy_ and N_eq != 2:
                rec.refuse(f'{nm}: raised {tn}'); last['verified'] = True; return False
            for tn_, part, *warrant in _allow:
                if tn == tn_ and part in msg and all(fn() for fn in warrant):
                    rec.refuse(f'{nm}: {tn}' if tn in REFUSE else f'{nm}: raised {tn}'); last['verified'] = True; return False
            if tn == 'NotImplementedError' and nm in ('HT', 'ST') and inerts and 'cannot solve for pressure' in msg:
                rec.refuse(f'{nm}: {tn}'); rec.hit('refused-unverified:' + nm); return False
            if tn == 'RuntimeError' and ('S' in spec or 'H' in spec) and 'computed an invalid value' in msg:
                # a property model of the data package evaluated far outside its range by the temperature search of an H / S specification (e.g. the solid heat capacity of glucose at a
                # temperature where the correlation turns over): a numerical failure inside the solver, counted under the ceiling of unverifiable refusals
                rec.refuse(f'{nm}: the temperature search evaluated a property model of the data package outside its range (it raised "computed an invalid value")'); rec.hit('refused-unverified:' + nm); return False
            if tn == 'RuntimeError' and 'S' in spec and 'root could not be solved' in msg and noisy_entropy_content(make(case, th)):
                # the temperature solve on S(T) = target did not converge: the entropy function of these contents is not continuous (measured on the contents, no solver involved)
                rec.refuse(f'{nm}: the temperature solve failed on contents whose liquid entropy function jumps between adjacent temperatures (thermo dependency)'); rec.hit('refused-unverified:' + nm); return False
            # (the input class is part of the key: 'C04/flash/<class>[/high-pressure]/exception/<type>@<function>')
            rec.exception('flash/' + cls + pb, e, what=f'vle({spec}) on {ids} ({cls}) raised {tn}: {msg[:140]} - not a documented refusal for this specification and these inputs'); return False

    with warnings.catch_warnings():
        warnings.simplefilter('ignore')
        # ---- TP
        s = make(case, th)
        okTP = flash(s, T=T0, P=P0)
        if okTP:
            rec.check(s.T == T0 and s.P == P0, 'spec-TP', 'TP', f'vle(T={T0}, P={P0}) left T={s.T!r}, P={s.P!r}')
            V_tp = vfrac(s, vidx)
            if kind in ('family',) and not case['inert']:
                z = np.array(case['x']); cs = tuple(chems[i] for i in case['ids'])
                what_ = f'vle(T={T0}, P={P0}) on {ids}, z={z.tolist()}'
                # (oracle audit) the reference is the harness-side model: the library's bubble / dew solvers are what the flash itself consults to return V = 0 / V = 1
                wo = own_window(rec, th, cs, z, T0)
                if wo is not None: judge_window(rec, V_tp, P0, wo[0], wo[1], '', 'harness-side model', what_)
                wl = lib_window(rec, th, cs, z, T0)
                if wl is not None:
                    judge_window(rec, V_tp, P0, wl[0], wl[1], '', 'library solvers', what_)
                    if wo is not None:
                        # the solvers' resolution: P_tol = 1e-3 Pa (bubble), 1e-6 relative for the inner dew iteration
                        obs('win:Pb', abs(wl[0] - wo[0]) / wo[0]); obs('win:Pd', abs(wl[1] - wo[1]) / wo[1])
            if 0.0 < V_tp < 1.0:
                two_phase = True
                if kind == 'family':
                    g = s.imol['g'].to_array()[vidx]; l = s.imol['l'].to_array()[vidx]
                    y = g / g.sum(); x = l / l.sum()
                    cs = tuple(chems[i] for i in case['ids'])
                    Psat = np.array([c.Psat(T0) for c in cs])
                    gam = th.Gamma(cs)(x.copy(), T0); phi = th.Phi(cs)(y.copy(), T0, P0); pcf = th.PCF(cs)(T0, P0, Psat)
                    fl = x * gam * Psat * pcf; fg = y * phi * P0
                    dev = float(np.abs(fl - fg).max() / fg.max()) if case['inert'] is None else float((np.abs(fl - fg) / fg).max())
                    dev = float((np.abs(fl - fg) / fg).max())
                    # (oracle audit) bound 1e-5: ten times the flash's K_tol = 1e-6 (was 1e-4; worst observed 1.1e-7)
                    obs('iso:TP', dev)
                    isfx = '/unconverged-fixed-point' if dev > ISO_TOL and fixed_point_status(th, cs, x, y, V_tp, T0, P0) == 'unconverged' else ''
                    rec.check(dev <= ISO_TOL, 'iso-fugacity', 'TP' + isfx, f'liquid and vapour fugacities differ by {dev:.3g} (relative) after vle(T={T0}, P={P0}) on {ids}: f_l={fl.tolist()}, f_g={fg.tolist()}', residual=dev)
            # ---- scaling
            k = case['k']
            s2 = make(case, th, scale=k)
            if flash(s2, T=T0, P=P0):
                a = np.array([r.to_array() for r in s.imol.data.rows]); b = np.array([r.to_array() for r in s2.imol.data.rows])
                F = a.sum()
                ssfx = ''
                rec.hit('scaling-TP:' + cls)      # denominators of the per-class rate bounds of the recorded scaling findings
                if kind == 'any': rec.hit('scaling-TP:cross-family')
                if not np.allclose(b, k * a, rtol=0, atol=1e-5 * F * k):
                    # mechanism: is either result an unconverged iterate of the fixed point (liquid and vapour fugacities of the returned split far apart)?
                    def fug_dev(st):
                        g = st.imol['g'].to_array()[vidx]; l = st.imol['l'].to_array()[vidx]
                        if not (g.sum() > 0 and l.sum() > 0): return 0.0
                        y = g / g.sum(); x = l / l.sum(); cs = tuple(chems[i] for i in case['ids'])
                        Psat = np.array([c.Psat(T0) for c in cs])
                        fl = x * th.Gamma(cs)(x.copy(), T0) * Psat * th.PCF(cs)(T0, P0, Psat); fg = y * th.Phi(cs)(y.copy(), T0, P0) * P0
                        m_ = fg > 0
                        return float((np.abs(fl - fg)[m_] / fg[m_]).max()) if m_.any() else 0.0
                    try:
                        if max(fug_dev(s), fug_dev(s2)) > 1e-2: ssfx = f'/{cls}/unconverged-fixed-point'      # (oracle audit) the input class is part of the key: recorded for cross-family mixtures only
                    except Exception: pass
                    if not ssfx:
                        # mechanism: the T-P flash first compares P with the library's own dew pressure (P <= P_dew: all vapour); is that dew pressure an unconverged
                        # iterate of the dew solver for either feed (the recorded C08 dew finding; an unconverged iterate depends on the rounding of z = flows / total)?
                        cs_ = tuple(chems[i] for i in case['ids'])
                        for st in (s, s2):
                            tot = sum(r.to_array() for r in st.imol.data.rows)[vidx]
                            if dew_P_mechanism(th, cs_, tot / tot.sum(), T0): ssfx = f'/{cls}/dew-solver-unconverged'
                rec.check(np.allclose(b, k * a, rtol=0, atol=1e-5 * F * k), 'scaling', 'TP' + ssfx, f'flash of {k}*feed is not {k} times the flash of the feed: max deviation {np.abs(b - k * a).max() / (F * k):.3g} of the feed', residual=float(np.abs(b - k * a).max() / (F * k)))
            # ---- ideal package vs Raoult Rachford-Rice
            if kind == 'ideal' and not case['inert']:
                z = np.array(case['x']); cs = [chems[i] for i in case['ids']]
                K = np.array([c.Psat(T0) for c in cs]) / P0
                V = raoult_rr(z, K)
                F = case['F']
                xl = z / (1 + V * (K - 1)); yv = K * xl
                exp_g = V * F * yv if V > 0 else np.zeros_like(z); exp_l = (1 - V) * F * xl if V < 1 else np.zeros_like(z)
                if V in (0.0, 1.0): exp_g, exp_l = (z * F * V, z * F * (1 - V))
                g = s.imol['g'].to_array()[vidx]; l = s.imol['l'].to_array()[vidx]
                dev = float(max(np.abs(g - exp_g).max(), np.abs(l - exp_l).max()) / F)
                rec.check(dev <= 1e-6, 'raoult-rr', 'TP', f'ideal-package flash differs from the Raoult Rachford-Rice split by {dev:.3g} of the feed (V model {V!r}, V flash {V_tp!r}; {ids}, z={z.tolist()}, T={T0}, P={P0})', residual=dev)
        # ---- two property packages over the same chemical objects in one process (the solvers cache bubble / dew point objects per package): the ideal-package
        #      flash right after the activity-coefficient one must still be the Raoult split, and the activity-coefficient flash after that must repeat itself
        if kind in ('family', 'any') and not case['inert'] and okTP and case.get('xpkg', True):
            thi = thermo(ids, ideal=True)
            z = np.array(case['x']); cs = [thi.chemicals[i] for i in case['ids']]
            si = make(case, thi)
            if flash(si, T=T0, P=P0):
                rec.hit('two-packages')
                K = np.array([c_.Psat(T0) for c_ in cs]) / P0
                V = raoult_rr(z, K); F = case['F']
                xl = z / (1 + V * (K - 1)); yv = K * xl
                exp_g = V * F * yv if V > 0 else np.zeros_like(z); exp_l = (1 - V) * F * xl if V < 1 else np.zeros_like(z)
                if V in (0.0, 1.0): exp_g, exp_l = (z * F * V, z * F * (1 - V))
                vi = [thi.chemicals.index(i) for i in case['ids']]
                g = si.imol['g'].to_array()[vi]; l = si.imol['l'].to_array()[vi]
                dev = float(max(np.abs(g - exp_g).max(), np.abs(l - exp_l).max()) / F)
                rec.check(dev <= 1e-6, 'raoult-rr', 'TP/after-activity-package', f'ideal-package flash run right after the activity-coefficient package on the same chemicals differs from the Raoult Rachford-Rice split by {dev:.3g} of the feed ({ids}, z={z.tolist()}, T={T0}, P={P0})', residual=dev)
                sd = make(case, th)
                if flash(sd, T=T0, P=P0):
                    a_ = np.array([r.to_array() for r in s.imol.data.rows]); b_ = np.array([r.to_array() for r in sd.imol.data.rows])
                    rec.check(np.allclose(a_, b_, rtol=0, atol=1e-9 * F), 'independent-reflash', 'TP/after-ideal-package', f'the activity-coefficient T-P flash on {ids} gives another split after the ideal package was used on the same chemicals (max deviation {np.abs(a_ - b_).max() / F:.3g} of the feed)')
        # ---- single component: T/V and P/V specifications put the stream on the saturation line
        if kind == 'single' and not case['inert']:
            c = chems[case['ids'][0]]
            s = make(case, th)
            if flash(s, T=T0, V=V0):
                rec.check(s.T == T0, 'single-component', 'TV/T', f'single component {c.ID}: vle(T={T0}, V={V0}) left T={s.T!r}')
                Ps = c.Psat(T0)
                rec.check(abs(s.P - Ps) <= 1e-9 * Ps, 'single-component', 'TV/P', f'single component {c.ID}: vle(T={T0}, V={V0}) left P={s.P!r} but Psat(T)={Ps!r}')
                rec.check(abs(vfrac(s, vidx) - V0) <= 1e-9, 'single-component', 'TV/V', f'single component: vapour fraction {vfrac(s, vidx)!r} != {V0}')
            s = make(case, th)
            if flash(s, P=P0, V=V0):
                Ts = c.Tsat(P0, check_validity=False)
                rec.check(s.P == P0 and abs(s.T - Ts) <= 1e-9 * Ts, 'single-component', 'PV', f'single component {c.ID}: vle(P={P0}, V={V0}) left T={s.T!r} (Tsat={Ts!r}), P={s.P!r}')
                # (oracle audit) Tsat is the very call the one-chemical solvers make: judge the returned T through the vapour pressure at it (Tsat resolves T to 1e-6 K / Psat to 1e-2 Pa)
                Pr = c.Psat(s.T); obs('single:PV/Psat', abs(Pr - P0) / P0)
                rec.check(abs(Pr - P0) <= SAT_TOL * P0, 'single-component', 'PV/Psat-at-returned-T', f'single component {c.ID}: vle(P={P0}, V={V0}) left T={s.T!r} at which Psat = {Pr!r}, not P', residual=abs(Pr - P0) / P0)
                rec.check(abs(vfrac(s, vidx) - V0) <= 1e-9, 'single-component', 'PV/V', f'single component: vapour fraction {vfrac(s, vidx)!r} != {V0}')
            rec.mark_nontrivial(case_hash(case))
        # ---- V specifications (families, every x >= 0.02)
        if kind == 'family' and not case['inert']:
            for spec_name, spec in (('PV', {'P': P0, 'V': V0}), ('TV', {'T': T0, 'V': V0})):
                s = make(case, th)
                if not flash(s, **spec): continue
                Vg = vfrac(s, vidx)
                fixed = 'P' if spec_name == 'PV' else 'T'
                # resolution: the search variable is located to T_tol = 5e-8 K (PV) or P_tol = 1 Pa (TV); translate to vapour fraction with the slope across the two-phase window
                vb = 1e-5
                if spec_name == 'TV':
                    pr = make(case, th)
                    if flash(pr, T=T0, V=0.02):
                        pa = pr.P
                        if flash(pr, T=T0, V=0.98): vb = max(1e-5, 10 * 0.96 / max(abs(pa - pr.P), 1e-9) * 1.0)
                rec.check(getattr(s, fixed) == spec[fixed], 'spec-TP', spec_name, f'vle({spec}) left {fixed}={getattr(s, fixed)!r}')
                # (on failure of the P/V form: name the recorded dew-solver mechanism when it is at work - the flash takes the ends of its temperature bracket from the library's bubble / dew solvers)
                vsfx = dew_T_mechanism(th, tuple(chems[i] for i in case['ids']), np.array(case['x']), P0) if spec_name == 'PV' and not abs(Vg - V0) <= vb else ''
                rec.check(abs(Vg - V0) <= vb, 'vapour-fraction', spec_name + vsfx, f'vle({spec}) on {ids}: vapour fraction {Vg!r}', residual=abs(Vg - V0))
                # independent flash of a fresh stream at the returned (T, P)
                s3 = make(case, th)
                if flash(s3, T=s.T, P=s.P):
                    V3 = vfrac(s3, vidx)
                    sfx_ = ''
                    if abs(V3 - V0) > REFLASH_TOL + vb and 0 < V3 < 1 and reference_limit(rec, th, tuple(chems[i] for i in case['ids']), s3, case['ids'], vidx, ids, float(s.T), float(s.P), f'a {spec_name[0]}/V flash'):
                        V3 = vfrac(s3, vidx); rec.hit('reflash:V-spec/reference=limit-of-fixed-point')      # (the reference was an unconverged iterate of the T-P fixed point: reported under its own clause, replaced by the limit)
                    obs('reflash:' + spec_name, abs(V3 - V0) - vb)
                    if abs(V3 - V0) > REFLASH_TOL + vb:
                        # mechanism: do the library's own bubble and dew solvers bracket a two-phase window at the returned state? (a dew temperature below the
                        # bubble temperature at one pressure is the recorded C08 dew-solver finding reaching the flash, which takes its bounds from them)
                        sfx_ = dew_T_mechanism(th, tuple(chems[i] for i in case['ids']), np.array(case['x']), float(s.P))
                    # (oracle audit) bound 1e-4 (was 5e-3): this is the only oracle on the returned T (P/V) or P (T/V) with an activity package - the stream's own vapour fraction is the specification by construction
                    rec.check(abs(V3 - V0) <= REFLASH_TOL + vb, 'independent-reflash', spec_name + sfx_, f'vle({spec}) returned T={s.T!r}, P={s.P!r}; an independent TP flash there gives vapour fraction {V3!r}, not {V0} ({ids}, z={case["x"]})', residual=abs(V3 - V0))
                two_phase = True
        # ---- x / y specifications (binary equilibrium sets): the fixed variable is written, the named phase has the specified composition
        if len(case['ids']) == 2 and kind != 'single':
            zA = case['x'][0]
            fv = case['f'] if 0 < case['f'] < 1 else 0.5
            v = min(max(zA * (0.6 + 0.8 * fv), 0.01), 0.99)       # near the overall composition, so that the lever rule is often feasible
            cs2 = tuple(chems[i] for i in case['ids'])
            # (oracle audit) in a binary the lever rule makes the named phase's composition equal to the specification whatever the bubble / dew solver returns: the equilibrium
            # side is judged with the harness-side model, where the property states equilibrium conditions (families with activity coefficients, anything with the ideal package)
            judged_eq = kind in ('family', 'ideal') and not inerts
            for nm in ('Tx', 'Ty', 'Px', 'Py'):
                s = make(case, th)
                fixed = {'T': T0} if nm[0] == 'T' else {'P': P0}
                if not flash(s, **fixed, **{nm[1]: [v, 1 - v]}):
                    if type(last.get('e')).__name__ == 'InfeasibleRegion':
                        # the refusal is warranted when the overall composition does not lie between the two phase compositions (lever rule outside [0, 1])
                        mdl = xy_model(th, cs2, nm, v, fixed[nm[0]]) if judged_eq and N_eq == 2 else None
                        if mdl is None: rec.hit('refused-unverified:' + ''.join(sorted(nm)))
                        else:
                            x0_, y0_ = float(mdl[2][0]), float(mdl[3][0]); sp_ = (zA - x0_) / (y0_ - x0_) if y0_ != x0_ else float('inf')
                            rec.hit('spec-xy:refusal-verified')
                            rec.check(not (1e-3 < sp_ < 1 - 1e-3), 'spec-xy', nm + '/refused-although-feasible', f'vle({fixed}, {nm[1]}=[{v}, {1 - v}]) on {ids} (z={case["x"]}) raised InfeasibleRegion, but with the harness-side model the phases are x={mdl[2].tolist()}, y={mdl[3].tolist()} at T={mdl[0]!r}, P={mdl[1]!r}: a vapour fraction of {sp_:.6g} meets the specification')
                    continue
                rec.hit('spec-xy')
                rec.check(getattr(s, nm[0]) == fixed[nm[0]], 'spec-TP', nm, f'vle({fixed}, {nm[1]}=[{v}, {1 - v}]) on {ids} left {nm[0]}={getattr(s, nm[0])!r} (the stream started at T={case["T"] + case.get("dT0", 0)}, P={case["P"] * case.get("P0f", 1)})')
                row = s.imol['l' if nm[1] == 'x' else 'g'].to_array()[vidx]
                if row.sum() > 1e-9 * case['F']:
                    got = row[0] / row.sum()
                    rec.check(abs(got - v) <= 1e-4, 'spec-xy', nm, f'vle({fixed}, {nm[1]}=[{v}, ...]) on {ids}: the {"liquid" if nm[1] == "x" else "vapour"} holds a fraction {got!r} of {case["ids"][0]}', residual=abs(got - v))
                if judged_eq and N_eq == 2:
                    w_ = np.array([v, 1. - v]); r_ = (own_bubble if nm[1] == 'x' else own_dew)(th, cs2, w_, float(s.T))
                    if r_ is None: rec.refuse('x / y specification: harness-side saturation model did not settle at the returned temperature')
                    else:
                        rec.hit('spec-xy:equilibrium')
                        Pm_, o_ = r_; x0_, y0_ = (v, float(o_[0])) if nm[1] == 'x' else (float(o_[0]), v)
                        # the returned T (P) is where the named phase is saturated: resolution of the bubble / dew solvers P_tol = 1e-3 Pa, T_tol = 1e-9 K, 1e-6 relative in the inner dew iteration
                        obs('xy:P/' + nm, abs(Pm_ - s.P) / Pm_)
                        # (on failure of a y specification: name the recorded dew-solver mechanism when the dew point the library computes for that vapour does not satisfy the dew equations)
                        xsfx = ''
                        if nm[1] == 'y' and not abs(Pm_ - s.P) <= XY_P_TOL * Pm_ + 1e-2: xsfx = dew_T_mechanism(th, cs2, w_, P0) if nm[0] == 'P' else dew_P_mechanism(th, cs2, w_, T0)
                        rec.check(abs(Pm_ - s.P) <= XY_P_TOL * Pm_ + 1e-2, 'spec-xy', nm + '/saturation-of-named-phase' + xsfx, f'vle({fixed}, {nm[1]}=[{v}, {1 - v}]) on {ids} returned T={s.T!r}, P={s.P!r}; a {"liquid" if nm[1] == "x" else "vapour"} of that composition is saturated at P={Pm_!r} there (harness-side model)', residual=abs(Pm_ - s.P) / Pm_)
                        sp_ = (zA - x0_) / (y0_ - x0_) if y0_ != x0_ else float('inf'); sp_ = min(max(sp_, 0.), 1.)
                        exp_named = case['F'] * ((1 - sp_) if nm[1] == 'x' else sp_)
                        rec.check(row.sum() > 1e-9 * case['F'] or exp_named <= 1e-4 * case['F'], 'spec-xy', nm + '/named-phase-empty', f'vle({fixed}, {nm[1]}=[{v}, {1 - v}]) on {ids} (z={case["x"]}) left the {"liquid" if nm[1] == "x" else "vapour"} empty, but the lever rule between x0={x0_!r} and y0={y0_!r} puts {exp_named / case["F"]:.6g} of the feed there')
                        g_ = s.imol['g'].to_array()[vidx]; l_ = s.imol['l'].to_array()[vidx]
                        if g_.sum() > 1e-9 * case['F'] and l_.sum() > 1e-9 * case['F']:
                            fl_, fg_ = own_fugacities(th, cs2, l_ / l_.sum(), g_ / g_.sum(), float(s.T), float(s.P))
                            dev_ = float((np.abs(fl_ - fg_) / fg_).max()); obs('xy:iso/' + nm, dev_)
                            rec.hit('spec-xy:both-phases')
                            if nm[1] == 'y' and dev_ > XY_ISO_TOL and not xsfx: xsfx = dew_T_mechanism(th, cs2, w_, P0) if nm[0] == 'P' else dew_P_mechanism(th, cs2, w_, T0)
                            if kind == 'ideal': rec.check(dev_ <= XY_ISO_TOL, 'raoult-rr', nm + '/raoult-law-between-phases' + xsfx, f'vle({fixed}, {nm[1]}=[{v}, {1 - v}]) on {ids} with the ideal package: x_i Psat_i and y_i P differ by {dev_:.3g} (relative) at the returned T={s.T!r}, P={s.P!r}', residual=dev_)
                            else: rec.check(dev_ <= XY_ISO_TOL, 'iso-fugacity', 'xy/' + nm + xsfx, f'vle({fixed}, {nm[1]}=[{v}, {1 - v}]) on {ids}: liquid and vapour fugacities differ by {dev_:.3g} (relative) at the returned T={s.T!r}, P={s.P!r}: f_l={fl_.tolist()}, f_g={fg_.tolist()}', residual=dev_)
                            two_phase = True
        # ---- H and S specifications
        if kind != 'single' or 'N2' in (case['inert'], case.get('inert2')):
            if kind == 'single': rec.hit('single+gas:H/S')      # one volatile chemical diluted by a non-condensable gas: the general solver path (N = 2)
            for fixed_name, fixed in (('P', {'P': P0}), ('T', {'T': T0})):
                probe = make(case, th)
                if not flash(probe, V=0.02, **fixed): continue
                Hlo, Slo, Plo, Tlo_ = probe.H, probe.S, probe.P, probe.T
                if not flash(probe, V=0.98, **fixed): continue
                Hhi, Shi, Phi_, Thi_ = probe.H, probe.S, probe.P, probe.T
                # resolution of the T-specified searches: they solve for the pressure to P_tol = 1 Pa without a final correction step,
                # so H (S) is reproduced to |dH/dP| * P_tol; the P-specified searches end with an exact correction of the split
                slopeH = abs(Hhi - Hlo) / max(abs(Plo - Phi_), 1e-9); slopeS = abs(Shi - Slo) / max(abs(Plo - Phi_), 1e-9)
                if Hhi == Hlo or Shi == Slo: rec.refuse('degenerate two-phase window (probe flashes returned the same state)'); continue
                if fixed_name == 'T' and not abs(Plo - Phi_) > 10.0:
                    # (oracle audit) the T-specified searches resolve the pressure to P_tol = 1 Pa: on a window of less than 10 Pa (near-azeotropic binaries: Toluene/Propanol with the ideal package at
                    # 322 K boils between 11741.5 and 11742.4 Pa, and the two probe flashes come back at the same pressure) the bound 10 * P_tol * |dH/dP| exceeds the whole window, i.e. nothing can be
                    # demanded; with the probes collapsed the slope was computed as ~0 and the case was filed under '/unconverged-pressure'
                    rec.refuse('two-phase window narrower than ten times the pressure resolution of the T-specified searches (P_tol = 1 Pa): H / S reproduction not judged'); continue
                for q, lo, hi in (('H', Hlo, Hhi), ('S', Slo, Shi)):
                    target = lo + case['f'] * (hi - lo)
                    s = make(case, th)
                    allow = ()
                    if fixed_name == 'P' and q == 'S' and not (0 < case['f'] < 1):
                        # the one-phase search S(T) = target may fail on entropy functions that are not continuous in T: granted when the target does lie beyond the all-liquid / all-vapour entropy
                        def beyond(Vb=0.0 if case['f'] < 0 else 1.0, target=target):
                            sat = make(case, th)
                            try: sat.vle(P=P0, V=Vb)
                            except Exception: return False
                            return bool(target <= sat.S) if Vb == 0.0 else bool(target >= sat.S)
                        allow = (('RuntimeError', 'root could not be solved', beyond), ('RuntimeError', 'Failed to extrapolate', beyond))
                    if fixed_name == 'T' and not (0 < case['f'] < 1):
                        # the T-specified searches refuse a target beyond the all-liquid / all-vapour value ('cannot solve for pressure yet'): targets 0.5 - 1.5 % outside the V = 0.02 .. 0.98
                        # values can lie there (the first vapour of Hexane/Butanol is mostly hexane, with a small heat of vaporisation); granted when the harness finds it so with T/V flashes
                        # at V = 0 / 1 (for S: within a jump of the entropy functions)
                        def beyondT(Vb=0.0 if case['f'] < 0 else 1.0, target=target, q=q, slack=(ENTROPY_JUMP if q == 'S' else 1e-9) * abs(hi - lo)):
                            sat = make(case, th)
                            try: sat.vle(T=T0, V=Vb)
                            except Exception: return False
                            return bool(target <= getattr(sat, q) + slack) if Vb == 0.0 else bool(target >= getattr(sat, q) - slack)
                        allow = (('NotImplementedError', 'cannot solve for pressure', beyondT),)
                    if not flash(s, allow, **fixed, **{q: target}): continue
                    got = getattr(s, q)
                    rec.check(getattr(s, fixed_name) == fixed[fixed_name], 'spec-TP', fixed_name + q, f'vle({fixed}, {q}=...) left {fixed_name}={getattr(s, fixed_name)!r}')
                    sfx = ''
                    Vs = vfrac(s, vidx)
                    rec.hit(f'{fixed_name}-spec-HS:{cls}')      # denominators of the per-class rate bounds of the recorded findings of the H / S searches
                    if inerts: rec.hit(f'{fixed_name}-spec-HS:+inert')
                    if fixed_name == 'T':
                        # is the returned pressure the solution at all?  independent TP flash of a fresh stream at (T, P returned)
                        # (oracle audit) the input class is part of the key: the two mechanisms are recorded for cross-family mixtures and for inerts only
                        chk = make(case, th)
                        if flash(chk, T=T0, P=s.P):
                            val = getattr(chk, q)
                            ref_b = (10 * slopeH if q == 'H' else 10 * slopeS) + (1e-5 * chk.C if q == 'H' else 5e-3 * abs(Shi - Slo))
                            if abs(val - target) > ref_b: sfx = f'/{cls}/unconverged-pressure'
                            else: sfx = f'/{cls}/stream-not-at-returned-pressure'
                    chk = None
                    if fixed_name == 'P' and q == 'H' and kind in ('family', 'ideal'):
                        # (oracle audit) set_PH / set_PS end with a correction that moves material between the phases until the stream's H (S) IS the specification, whatever
                        # temperature the search ended on: the returned T is judged by an independent T-P flash of a fresh stream there
                        # (P/S: not judged that way - the equilibrium entropy is not a continuous function of T with this package, see ASSUMPTIONS; a coarse window condition instead)
                        chk = make(case, th)
                        if not flash(chk, T=float(s.T), P=P0): chk = None
                    if fixed_name == 'P' and q == 'S' and kind in ('family', 'ideal') and not inerts:
                        dTw = abs(Thi_ - Tlo_); mT = max(0.1 * dTw, PS_T_MARGIN); Ta, Tb_ = min(Tlo_, Thi_), max(Tlo_, Thi_)
                        rec.hit('window:PS'); obs(f'PS:{cls}:T-outside', max(Ta - s.T, s.T - Tb_, 0.0))
                        rec.check(Ta - mT <= s.T <= Tb_ + mT, 'independent-reflash', 'PS/T-inside-window', f'vle({fixed}, S={target!r}) on {ids} (S at {case["f"]} between the values at vapour fractions 0.02 and 0.98) returned T={s.T!r}; '
                                  f'the P/V flashes at vapour fractions 0.02 and 0.98 are at T={Tlo_!r} and T={Thi_!r}')      # (no residual recorded: kelvins would swamp the vapour-fraction residuals of the clause)
                    if chk is not None and kind in ('family', 'ideal'):
                        Vc = vfrac(chk, vidx); valc = getattr(chk, q)
                        if kind == 'family' and 0 < Vc < 1 and reference_limit(rec, th, tuple(chems[i] for i in case['ids']), chk, case['ids'], vidx, ids, float(s.T), P0, 'a P/H flash'):
                            Vc = vfrac(chk, vidx); valc = getattr(chk, q); rec.hit('reflash:PH/reference=limit-of-fixed-point')
                        slopeT = abs(hi - lo) / max(abs(Thi_ - Tlo_), 1e-9)      # T_tol = 5e-8 K translated with the slope across the two-phase window
                        # (+ the resolution of the two fixed points, K_tol = 1e-6: the vapour fractions of the flash inside the search and of the independent one differ by up to 2.5e-7 - observed -, which moves H by that fraction of the window)
                        base = 1e-5 * chk.C + PH_V_TOL * abs(hi - lo)
                        # the same resolution in terms of the vapour fraction: T_tol against the width of the window (Acetone/Methanol with the ideal package at 466 kPa boils within 2.3e-6 K)
                        vT = 10 * 0.96 * T_TOL / max(abs(Thi_ - Tlo_), 1e-12)
                        rec.hit('reflash:P' + q)
                        nsfx = '/non-condensable' if inerts else ''      # (ideal package with N2: the window of the search is modified by ad-hoc factors; the class stays in the key)
                        okH = abs(valc - target) <= 10 * slopeT * T_TOL + base; okV = abs(Vs - Vc) <= PH_V_TOL + vT
                        if kind == 'family' and not (okH and okV): nsfx = dew_T_mechanism(th, tuple(chems[i] for i in case['ids']), np.array(case['x']), P0)
                        obs(f'P{q}:{cls}:val', abs(valc - target) / (10 * slopeT * T_TOL + base)); obs(f'P{q}:{cls}:V', abs(Vs - Vc))
                        rec.check(okH, 'independent-reflash', f'P{q}/{q}-at-returned-T' + nsfx, f'vle({fixed}, {q}={target!r}) on {ids} returned T={s.T!r}; an independent T-P flash there has {q} = {valc!r} '
                                  f'(off by {abs(valc - target) / chk.C:.3g} K*C): the returned temperature is not where the equilibrium {q} equals the specification', residual=abs(valc - target) / chk.C)
                        rec.check(okV, 'independent-reflash', f'P{q}/V-at-returned-T' + nsfx, f'vle({fixed}, {q}={target!r}) on {ids} returned T={s.T!r} with vapour fraction {Vs!r}; an independent T-P flash there gives {Vc!r}', residual=abs(Vs - Vc))
                        g_ = s.imol['g'].to_array()[vidx]; l_ = s.imol['l'].to_array()[vidx]
                        if kind == 'family' and 0 < Vs < 1:
                            cs_ = tuple(chems[i] for i in case['ids'])
                            fl_, fg_ = own_fugacities(th, cs_, l_ / l_.sum(), g_ / g_.sum(), float(s.T), P0)
                            dev_ = float((np.abs(fl_ - fg_) / fg_).max()); obs(f'P{q}:iso', dev_)
                            if dev_ > PH_ISO_TOL + vT and not nsfx: nsfx = dew_T_mechanism(th, cs_, np.array(case['x']), P0)
                            rec.check(dev_ <= PH_ISO_TOL + vT, 'iso-fugacity', f'P{q}/at-returned-T' + nsfx, f'vle({fixed}, {q}={target!r}) on {ids}: liquid and vapour fugacities differ by {dev_:.3g} (relative) at the returned T={s.T!r}: f_l={fl_.tolist()}, f_g={fg_.tolist()}', residual=dev_)
                        if kind == 'ideal':
                            cs_ = [chems[i] for i in case['ids']]; F_ = case['F']
                            nl_ = sum(fr * F_ for i_, fr in ((case['inert'], case['inert_frac']), (case.get('inert2'), case.get('inert2_frac'))) if i_ == 'N2')
                            eg_, el_, Vm_ = raoult_split(np.array(case['x']) * F_, psats(cs_, float(s.T)) / P0, nl_)
                            dev_ = float(max(np.abs(g_ - eg_).max(), np.abs(l_ - el_).max()) / F_); obs(f'P{q}:{cls}:rr', dev_)
                            rec.check(dev_ <= 1e-6 + vT, 'raoult-rr', f'P{q}/at-returned-T' + ('/non-condensable' if nl_ else ''), f'vle({fixed}, {q}={target!r}) on {ids} with the ideal package returned T={s.T!r}: the split differs from the Raoult Rachford-Rice split there by {dev_:.3g} of the feed (V model {Vm_!r}, V stream {Vs!r})', residual=dev_)
                    if q == 'H':
                        C = s.C
                        bound = 1e-5 * C if fixed_name == 'P' else max(1e-5 * C, 10 * slopeH * 1.0)
                        rec.check(abs(got - target) <= bound, 'spec-H', fixed_name + 'H' + sfx, f'vle({fixed}, H={target!r}) on {ids}: stream H = {got!r} (residual {abs(got - target) / C:.3g} K*C)', residual=abs(got - target) / C)
                    else:
                        rng_ = abs(Shi - Slo)
                        sbound = 5e-3 * rng_ if fixed_name == 'P' else max(5e-3 * rng_, 10 * slopeS * 1.0)
                        if fixed_name == 'P' and Vs in (0.0, 1.0) and not abs(got - target) <= sbound:
                            # (oracle audit) a one-phase result that misses the entropy: is the specification inside the box of the property at all ('S between the all-liquid and the
                            # all-vapour values')?  Targets 0.5 - 1.5 % outside the V = 0.02 .. 0.98 values can lie beyond the saturated value, because the entropy functions of the package
                            # jump by that much; the one-phase state is then located by solving S(T) = target on a function that is not continuous in T (not the flash's doing, as for
                            # a single chemical).  Formerly these cases were filed under '/first-order-correction-error' although no material was moved.
                            sat = make(case, th); sat_S = float(sat.S) if flash(sat, P=P0, V=Vs) else None
                            if sat_S is not None and ((target <= sat_S) if Vs == 0.0 else (target >= sat_S)):
                                rec.refuse('P/S: specified entropy beyond the all-liquid / all-vapour value (one-phase state on entropy functions that are not continuous in T): entropy reproduction not judged'); continue
                            # ... or within a jump of those functions of the saturated value (S evaluated at T_bubble twice differs by up to 1e-2 of S_vap - S_liq, so set_PS takes the feed for subcooled):
                            # the state is one phase, an independent T-P flash at the returned T confirms that phase, and the entropy is missed by no more than such a jump (2e-2 granted)
                            one = make(case, th)
                            if abs(got - target) <= ENTROPY_JUMP * rng_ and flash(one, T=float(s.T), P=P0) and vfrac(one, vidx) == Vs:
                                rec.refuse('P/S: one-phase result confirmed by an independent T-P flash, entropy missed by less than a jump of the entropy functions (not continuous in T): entropy reproduction not judged'); continue
                            # (thorough run 11) ... or the one-phase state lies INSIDE the two-phase window (so the T-P flash does not confirm it) because the search of set_PS ended at a small
                            # vapour (liquid) fraction whose whole entropy is less than the noise of the entropy function: the final correction then condenses (vaporises) all of it, f = 1, and
                            # the one-phase solve S(T) = target runs on the noisy function (Benzene/Octane/Toluene at 937 kPa, target 0.006 of S_vap - S_liq above the saturated liquid: the search ends
                            # at vapour fraction 0.0062, all liquid is returned 0.33 K above the bubble temperature, entropy missed by 0.0127 of S_vap - S_liq; the liquid entropy of benzene from the
                            # thermo dependency - HEOS_FIT integral of Cp / T - takes the values 245.4 / 247.4 / 249.4 J/mol/K at adjacent temperatures).  The noise is MEASURED by the harness, on the
                            # returned stream's own entropy function around the returned T (spread of 33 evaluations within 1.6e-3 K, the smooth change C / T * dT taken off): granted only when the
                            # specification lies within that measured spread of the saturated value and the entropy is missed by no more than bound + spread; contents whose entropy functions are
                            # continuous (spread 0) are judged with the plain bound
                            N_ = entropy_noise(s); obs(f'PS:{cls}:noise', N_ / rng_)
                            if N_ > 0. and sat_S is not None and (target - sat_S if Vs == 0.0 else sat_S - target) <= N_ and abs(got - target) <= sbound + N_:
                                rec.hit('PS:one-phase/entropy-noise')
                                rec.refuse('P/S: one-phase result, specified entropy within the measured noise of the entropy function of the saturated value and missed by no more than that noise (entropy functions not continuous in T): entropy reproduction not judged'); continue
                        # the final step of set_PS moves a fraction of one phase into the other assuming the entropy is linear in that fraction; what it
                        # neglects is the entropy of mixing, bounded by R*F*ln(2) for the material moved (R in kJ/kmol/K, F in kmol/hr)
                        if fixed_name == 'P' and sbound < abs(got - target) <= 8.314462618 * s.F_mol * math.log(2.):
                            # (oracle audit) ... for the material MOVED: the difference between the stream's split and the equilibrium split at the returned T (was: the whole stream)
                            chk = make(case, th)
                            moved = abs(Vs - vfrac(chk, vidx)) * s.F_mol if flash(chk, T=float(s.T), P=P0) else 0.0
                            obs(f'PS:{cls}:first-order', abs(got - target) / max(8.314462618 * moved * math.log(2.), 1e-300))
                            if abs(got - target) <= 8.314462618 * moved * FIRST_ORDER_FACTOR: sfx = f'/{cls}/first-order-correction-error'
                            elif cls.startswith('any') and moved > 0.01 * s.F_mol:
                                # cross-family (strongly non-ideal) contents: the state P/S returned is not the equilibrium state at its own T (an independent T-P flash there moves more than
                                # 1 % of the stream between the phases: the temperature search ran on a vapour fraction that is not single-valued in T near a heteroazeotrope), so the final
                                # correction had to move that much material and its neglected mixing entropy exceeds the first-order bound: same recorded mechanism, own key with the class
                                sfx = f'/{cls}/not-at-equilibrium-at-returned-T'
                        obs(f'PS-stream:{cls}' if fixed_name == 'P' else f'TS-stream:{cls}', abs(got - target) / rng_)
                        rec.check(abs(got - target) <= sbound, 'spec-S', fixed_name + 'S' + sfx, f'vle({fixed}, S={target!r}) on {ids}: stream S = {got!r} (residual {abs(got - target) / rng_:.3g} of S_vap - S_liq)', residual=abs(got - target) / rng_)
                    if 0 < Vs < 1: two_phase = True
        try:
            if extra_clauses(case, rec, th, ids, vidx, flash): two_phase = True
        except Exception as e:
            rec.exception('harness', e, what=f'harness error in the additional clauses: {type(e).__name__}: {e}')
        if case.get('hist'):
            try:
                if history_clauses(case['hist'], rec): two_phase = True
            except Exception as e:
                rec.exception('harness', e, what=f'harness error in the history clauses: {type(e).__name__}: {e}')
            tmo.settings.set_thermo(th)
    if two_phase: rec.mark_nontrivial(case_hash(case))


def rows_of(s):
    return np.array([r.to_array() for r in s.imol.data.rows])


def entropy_noise(s, n=16, dT=5e-5):
    """how far the entropy function of the stream's present contents and split is from being continuous in T at the stream's temperature: the spread (max - min) of S evaluated on a copy at
    2 n + 1 temperatures within n * dT of it, less the smooth change C / T * (2 n dT).  0 for continuous property functions (up to rounding); for the liquid entropies of the thermo
    dependency that jump between adjacent temperatures (benzene: whole J/mol/K) the size of those jumps times the amount present.  Property functions evaluated as data; no solver takes part"""
    try:
        c = s.copy(); T = float(s.T); v = []
        for k in range(-n, n + 1):
            c.T = T + k * dT; v.append(float(c.S))
        c.T = T
        return max(0.0, max(v) - min(v) - 2.0 * float(c.C) / T * (2 * n * dT))      # (twice the smooth change: a margin for the curvature, 1e-6 of S_vap - S_liq)
    except Exception as e:
        if isinstance(e, (TypeError, AttributeError, NameError, KeyError, IndexError)): raise
        return 0.0


def noisy_entropy_content(s):
    """does the entropy function of the stream's present contents jump between adjacent temperatures (the quantised liquid entropy integrals of the thermo dependency: benzene by whole
    J/mol/K)?  measured on an all-liquid copy of the contents at a few temperatures; a temperature solve on such a function may legitimately fail to converge"""
    try:
        c = s.copy()
        try: c.phase = 'l'
        except Exception: return False
        for T in (300., 350., 400., 450.):
            c.T = T
            if entropy_noise(c) > 1e-6 * max(abs(float(c.S)), 1.0): return True
        return False
    except Exception as e:
        if isinstance(e, (TypeError, AttributeError, NameError, KeyError, IndexError)): raise
        return False


def raoult_split(zv, K, nl=0.0):
    """(vapour flows, liquid flows, V) of the volatile chemicals with flows zv and Raoult K values, with nl kmol/hr of a non-partitioning gas (V is then the vapour fraction of volatile + gas)"""
    Fv = float(zv.sum())
    if nl > 0:
        Ft = Fv + nl; z = zv / Ft; V = raoult_rr_light(z, K, nl / Ft)
        if V >= 1.0: return zv.copy(), np.zeros_like(zv), V
        l = (1 - V) * Ft * z / (1 + V * (K - 1)); return zv - l, l, V
    z = zv / Fv; V = raoult_rr(z, K)
    if V in (0.0, 1.0): return zv * V, zv * (1 - V), V
    xl = z / (1 + V * (K - 1)); return V * Fv * K * xl, (1 - V) * Fv * xl, V


def raoult_rr_light(z, K, zl):
    """Rachford-Rice with a non-partitioning gas: z (volatile) and zl (gas-only) are fractions of the whole feed, V the vapour fraction of the whole feed.
    sum(y) - sum(x) = sum z_i (K_i - 1) / (1 + V (K_i - 1)) + zl / V is decreasing in V and +inf at V -> 0."""
    f = lambda V: (z * (K - 1) / (1 + V * (K - 1))).sum() + zl / V
    if f(1.0) >= 0: return 1.0
    lo, hi = 0.0, 1.0
    for _ in range(200):
        mid = 0.5 * (lo + hi)
        if f(mid) > 0: lo = mid
        else: hi = mid
    return 0.5 * (lo + hi)


def extra_clauses(case, rec, th, ids, vidx, flash):
    """clauses added by the coverage audit; returns True when a two-phase result was judged"""
    kind = case['kind']; chems = th.chemicals
    T0, P0, V0, k = case['T'], case['P'], case['V'], case['k']
    inert = case['inert']; two = False
    Tstart = max(255., T0 + case.get('dT0', 0.0)); Pstart = P0 * case.get('P0f', 1.0)

    # ---- single component, H / S specified: the dedicated one-chemical solvers (saturation line between the saturated liquid and vapour, outside it a one-phase state)
    if kind == 'single' and 'N2' not in (inert, case.get('inert2')):
        # (a solid-locked solute with N_solutes = 0 takes no part: still the one-chemical solvers)
        c = chems[case['ids'][0]]
        if inert: rec.hit('single+solid:H/S')
        for fixed_name, fixed in (('P', {'P': P0}), ('T', {'T': T0})):
            lo_s = make(case, th); hi_s = make(case, th)
            if not (flash(lo_s, V=0.0, **fixed) and flash(hi_s, V=1.0, **fixed)): continue
            for q in ('H', 'S'):
                lo, hi = getattr(lo_s, q), getattr(hi_s, q)
                if not (hi > lo): rec.refuse('single component: saturated vapour value not above the saturated liquid value'); continue
                target = lo + case['f'] * (hi - lo)
                s = make(case, th)
                # (oracle audit) the documented refusals are granted only where the harness sees their reason: the target lies outside the saturated values, so a one-phase state is
                # searched - the T-specified searches cannot do that ('cannot solve for pressure yet'), the P-specified ones may leave the range of a heat-capacity model
                outside = not (0 < case['f'] < 1)
                allow = ()
                if outside and fixed_name == 'T': allow = (('NotImplementedError', 'cannot solve for pressure'),)
                elif outside: allow = (('RuntimeError', 'Failed to extrapolate'),) + ((('RuntimeError', 'root could not be solved'),) if q == 'S' else ())      # (S(T) = target on entropy functions that are not continuous in T)
                if not flash(s, allow, **fixed, **{q: target}): continue
                nm = fixed_name + q
                rec.hit('single:' + nm)
                rec.check(getattr(s, fixed_name) == fixed[fixed_name], 'spec-TP', 'single/' + nm, f'single component {c.ID}: vle({fixed}, {q}=...) left {fixed_name}={getattr(s, fixed_name)!r} (the stream started at T={Tstart}, P={Pstart})')
                got = getattr(s, q)
                nw = '' if getattr(s, fixed_name) == fixed[fixed_name] else f'/{fixed_name}-not-written'      # the stream is not at the specified T (P): its H / S is evaluated elsewhere
                if q == 'H':
                    C = s.C
                    rec.check(abs(got - target) <= 1e-5 * C, 'spec-H', 'single/' + nm + nw, f'single component {c.ID}: vle({fixed}, H={target!r}): stream H = {got!r} (residual {abs(got - target) / C:.3g} K*C)', residual=abs(got - target) / C)
                elif not (0 < case['f'] < 1):
                    # a one-phase state is located by solving S(T) = target, and the pure-component liquid entropy functions of the package are step functions of T
                    # (2 J/mol/K steps for benzene): the target cannot be reproduced closer than a step, which is not the flash's doing
                    rec.refuse('single component, S outside the saturated values: entropy reproduction not judged (entropy functions are not continuous in T)')
                else:
                    rec.check(abs(got - target) <= 5e-3 * (hi - lo), 'spec-S', 'single/' + nm + nw, f'single component {c.ID}: vle({fixed}, S={target!r}): stream S = {got!r} (residual {abs(got - target) / (hi - lo):.3g} of S_vap - S_liq)', residual=abs(got - target) / (hi - lo))
                if 0 < case['f'] < 1:
                    # on the saturation line: the other variable is the saturation value and the vapour fraction is the position between the saturated states
                    if fixed_name == 'P':
                        Ts = c.Tsat(P0, check_validity=False)
                        rec.check(abs(s.T - Ts) <= 1e-9 * Ts, 'single-component', nm + '/T', f'single component {c.ID}: vle(P={P0}, {q} between the saturated values) left T={s.T!r} but Tsat(P)={Ts!r}')
                        Pr = c.Psat(s.T); obs('single:' + nm + '/Psat', abs(Pr - P0) / P0)      # (oracle audit) not through Tsat, which the solver itself calls
                        rec.check(abs(Pr - P0) <= SAT_TOL * P0, 'single-component', nm + '/Psat-at-returned-T', f'single component {c.ID}: vle(P={P0}, {q} between the saturated values) left T={s.T!r} at which Psat = {Pr!r}, not P', residual=abs(Pr - P0) / P0)
                    else:
                        Ps = c.Psat(T0)
                        rec.check(abs(s.P - Ps) <= 1e-9 * Ps, 'single-component', nm + '/P', f'single component {c.ID}: vle(T={T0}, {q} between the saturated values) left P={s.P!r} but Psat(T)={Ps!r}')
                    rec.check(abs(vfrac(s, vidx) - case['f']) <= 1e-6, 'single-component', nm + '/V', f'single component {c.ID}: vle({fixed}, {q} at {case["f"]} between the saturated values) gives vapour fraction {vfrac(s, vidx)!r}')
        # P exactly at the saturation pressure: any split is an equilibrium; T and P are written
        Ps = c.Psat(T0)
        s = make(case, th)
        if flash(s, T=T0, P=Ps):
            rec.hit('single:at-Psat')
            rec.check(s.T == T0 and s.P == Ps, 'spec-TP', 'single/TP-at-Psat', f'single component {c.ID}: vle(T={T0}, P=Psat(T)={Ps!r}) left T={s.T!r}, P={s.P!r}')

    # ---- V specifications for every kind of mixture (outside the family class only the kept variable is judged)
    if kind != 'single' and (kind != 'family' or inert):
        for nm, spec, fixed in (('PV', {'P': P0, 'V': V0}, 'P'), ('TV', {'T': T0, 'V': V0}, 'T')):
            s = make(case, th)
            if not flash(s, **spec): continue
            rec.hit('V-spec:any-kind')
            rec.check(getattr(s, fixed) == spec[fixed], 'spec-TP', nm + '/any-mixture', f'vle({spec}) on {ids} ({kind}) left {fixed}={getattr(s, fixed)!r} (the stream started at T={Tstart}, P={Pstart})')
            if 0 < vfrac(s, vidx) < 1: two = True

    # ---- scaling under the other specification pairs: k * feed with the extensive specification (H, S) multiplied by k
    if kind == 'any': rec.refuse('scaling under V / H specifications on a cross-family non-ideal mixture: not judged (the vapour-fraction clauses are restricted to families: V(T) is not single-valued near a heteroazeotrope)')
    if kind in ('family', 'ideal'):
        base = {}
        for nm, spec in (('PV', {'P': P0, 'V': V0}), ('TV', {'T': T0, 'V': V0})):
            a = make(case, th); b = make(case, th, scale=k)
            if not (flash(a, **spec) and flash(b, **spec)): continue
            base[nm] = a
            ra, rb = rows_of(a), rows_of(b); F = ra.sum()
            bound = 1e-5
            if nm == 'TV':
                # the pressure is located to P_tol = 1 Pa in each of the two runs: translate to flows with the width of the two-phase window
                pr = make(case, th)
                if flash(pr, T=T0, V=0.02):
                    pa = pr.P
                    if flash(pr, T=T0, V=0.98): bound = max(1e-5, 10 * 0.96 / max(abs(pa - pr.P), 1e-9))
            dev = float(np.abs(rb - k * ra).max() / (F * k))
            rec.check(dev <= bound, 'scaling', nm, f'vle({spec}) of {k}*feed is not {k} times the flash of the feed: max deviation {dev:.3g} of the feed ({ids})', residual=dev)
            # V is located to V_tol = 1e-6 in each run; with dT/dV below 100 K across the two-phase window the temperatures agree to 1e-4 K
            if nm == 'PV': rec.check(abs(a.T - b.T) <= 1e-4, 'scaling', 'PV/T', f'vle({spec}): feed gives T={a.T!r}, {k}*feed gives T={b.T!r}', residual=abs(a.T - b.T))
            else: rec.check(abs(a.P - b.P) <= 2.0 + 1e-9 * a.P, 'scaling', 'TV/P', f'vle({spec}): feed gives P={a.P!r}, {k}*feed gives P={b.P!r}', residual=abs(a.P - b.P))
        if 'PV' in base:
            a0 = base['PV']
            for q in ('H',):
                # (not done for S: the liquid entropy functions of the property package are not smooth in T at the 1e-13 K level - values jump by whole J/mol/K
                #  between adjacent temperatures - so two runs that end one ulp apart in T reproduce 'the same' S at visibly different splits)
                target = getattr(a0, q)          # the enthalpy of the two-phase state at (P0, V0)
                a = make(case, th); b = make(case, th, scale=k)
                if not (flash(a, P=P0, **{q: target}) and flash(b, P=P0, **{q: target * k})): continue
                ra, rb = rows_of(a), rows_of(b); F = ra.sum()
                dev = float(np.abs(rb - k * ra).max() / (F * k))
                # H is reproduced exactly by the final correction in both runs; the split then agrees to the temperature resolution (bound as for the T/P flash)
                rec.check(dev <= 1e-5, 'scaling', 'P' + q, f'vle(P={P0}, {q}=...) of {k}*feed (with {q} multiplied by {k}) is not {k} times the flash of the feed: max deviation {dev:.3g} of the feed ({ids})', residual=dev)

    # ---- the pressure exactly on the bubble / dew pressure the flash itself computes (families): all liquid at the bubble pressure, all vapour at the dew pressure
    if kind == 'family' and not inert and case.get('boundary'):
        try:
            pr = make(case, th); v = pr.vle; v._setup()
            Pb = float(v._bubble_point.solve_Py(v._z, T0)[0]); Pd = float(v._dew_point.solve_Px(v._z, T0)[0])
        except Exception as e:
            # (oracle audit) only a documented refusal of the solvers makes the clause disappear; anything else is reported
            if type(e).__name__ == 'InfeasibleRegion': rec.refuse(f'bubble/dew point unavailable: {type(e).__name__}')
            else: rec.exception('phase-boundary', e, what=f'the bubble / dew pressure the flash computes for {ids} (z={case["x"]}, T={T0}) raised {type(e).__name__}: {str(e)[:140]}')
            Pb = Pd = None
        z_ = np.array(case['x']); cs_ = tuple(chems[i] for i in case['ids'])
        wo = own_window(rec, th, cs_, z_, T0) if Pb is not None else None
        if wo is not None:
            # (oracle audit) 'all liquid AT the bubble pressure' is judged at the pressure the flash itself computes; that this pressure IS the bubble pressure of the mixture is judged
            # against the harness-side model (resolution of the solvers: P_tol = 1e-3 Pa, 1e-9 relative in the residual; 1e-6 relative for the inner dew iteration)
            obs('boundary:Pb', abs(Pb - wo[0]) / wo[0]); obs('boundary:Pd', abs(Pd - wo[1]) / wo[1])
            rec.hit('boundary:solver-vs-model')
            rec.check(abs(Pb - wo[0]) <= BOUNDARY_TOL * wo[0] + 1e-2, 'phase-boundary', 'at-bubble/pressure-vs-model', f'the bubble pressure the flash computes for {ids} (z={case["x"]}) at T={T0} is {Pb!r}; the harness-side model sum_i z_i gamma_i Psat_i gives {wo[0]!r}', residual=abs(Pb - wo[0]) / wo[0])
            rec.check(abs(Pd - wo[1]) <= BOUNDARY_TOL * wo[1] + 1e-2, 'phase-boundary', 'at-dew/pressure-vs-model', f'the dew pressure the flash computes for {ids} (z={case["x"]}) at T={T0} is {Pd!r}; the harness-side fixed point gives {wo[1]!r}', residual=abs(Pd - wo[1]) / wo[1])
        if Pb is not None and Pd < Pb:
            s = make(case, th)
            if flash(s, T=T0, P=Pb):
                rec.hit('boundary:P=P_bubble')
                rec.check(vfrac(s, vidx) == 0.0 and s.P == Pb and s.T == T0, 'phase-boundary', 'at-bubble', f'P = P_bubble = {Pb!r} at T={T0}: vapour fraction {vfrac(s, vidx)!r}, T={s.T!r}, P={s.P!r} ({ids}, z={case["x"]})')
            s = make(case, th)
            if flash(s, T=T0, P=Pd):
                rec.hit('boundary:P=P_dew')
                rec.check(vfrac(s, vidx) == 1.0 and s.P == Pd and s.T == T0, 'phase-boundary', 'at-dew', f'P = P_dew = {Pd!r} at T={T0}: vapour fraction {vfrac(s, vidx)!r}, T={s.T!r}, P={s.P!r} ({ids}, z={case["x"]})')

    # ---- ideal package with a non-condensable gas (and a solid that takes no part): Rachford-Rice with a non-partitioning fraction
    if kind == 'ideal' and inert == 'N2':
        s = make(case, th)
        if flash(s, T=T0, P=P0):
            F = case['F']; zv = np.array(case['x']) * F; nl = case['inert_frac'] * F
            Ft = zv.sum() + nl                        # the solid-locked solute (N_solutes = 0) does not dilute either phase
            z = zv / Ft; zl = nl / Ft
            cs = [chems[i] for i in case['ids']]
            K = np.array([c.Psat(T0) for c in cs]) / P0
            V = raoult_rr_light(z, K, zl)
            if V >= 1.0: exp_g, exp_l = zv, np.zeros_like(zv)
            else:
                xl = z / (1 + V * (K - 1)); exp_l = (1 - V) * Ft * xl; exp_g = zv - exp_l
            g = s.imol['g'].to_array()[vidx]; l = s.imol['l'].to_array()[vidx]
            dev = float(max(np.abs(g - exp_g).max(), np.abs(l - exp_l).max()) / F)
            rec.hit('raoult-rr:with-gas')
            rec.check(dev <= 1e-6, 'raoult-rr', 'TP/non-condensable', f'ideal-package flash with {case["inert_frac"]} N2 differs from the Raoult Rachford-Rice split (non-partitioning gas) by {dev:.3g} of the feed (V model {V!r}; {ids}, z={case["x"]}, T={T0}, P={P0})', residual=dev)
            if 0 < V < 1: two = True

    # ---- the Gibbs-minimising solver method offered by VLE (vle.method = 'shgo'): same phase-boundary and iso-fugacity conditions at specified T and P
    if kind == 'family' and not inert and case.get('shgo'):
        z = np.array(case['x']); cs = tuple(chems[i] for i in case['ids'])
        wl = lib_window(rec, th, cs, z, T0); wo = own_window(rec, th, cs, z, T0)
        Pb, Pd = wl if wl is not None else (wo if wo is not None else (None, None))
        if Pb is not None:
            P0_case = P0
            if not (Pd * (1 + 1e-4) < P0 < Pb * (1 - 1e-4)) and Pd < Pb and case.get('shgo_inside'):
                P_in = float(Pd + V0 * (Pb - Pd))            # three times out of four a pressure inside the two-phase window (random T, P seldom are)
                if 2e4 <= P_in <= 1e6: P0 = P_in
            s = make(case, th); s.vle.method = 'shgo'
            if flash(s, T=T0, P=P0):
                rec.hit('method:shgo')
                rec.check(s.T == T0 and s.P == P0, 'spec-TP', 'TP/method=shgo', f'vle(T={T0}, P={P0}) with method shgo left T={s.T!r}, P={s.P!r}')
                Vs = vfrac(s, vidx)
                if P0 >= Pb * (1 + 1e-6): rec.check(Vs == 0.0, 'phase-boundary', 'above-bubble/method=shgo', f'P={P0} >= P_bubble={Pb!r} at T={T0} but vapour fraction is {Vs!r} ({ids}, z={z.tolist()})')
                elif P0 <= Pd * (1 - 1e-6): rec.check(Vs == 1.0, 'phase-boundary', 'below-dew/method=shgo', f'P={P0} <= P_dew={Pd!r} at T={T0} but vapour fraction is {Vs!r} ({ids}, z={z.tolist()})')
                elif Pd * (1 + 1e-4) < P0 < Pb * (1 - 1e-4):
                    rec.hit('method:shgo/inside')
                    rec.check(0.0 < Vs < 1.0, 'phase-boundary', 'inside/method=shgo', f'P_dew={Pd!r} < P={P0} < P_bubble={Pb!r} at T={T0} but method shgo returns vapour fraction {Vs!r} ({ids}, z={z.tolist()})')
                # (oracle audit) the same three conditions against the harness-side model (same keys: the mechanism is the solver method, not the reference)
                if wo is not None and wl is not None:
                    if judge_window(rec, Vs, P0, wo[0], wo[1], '/method=shgo', 'harness-side model', f'vle(T={T0}, P={P0}) with method shgo on {ids}, z={z.tolist()}'): rec.hit('method:shgo/inside')
                if 0.0 < Vs < 1.0:
                    g = s.imol['g'].to_array()[vidx]; l = s.imol['l'].to_array()[vidx]
                    y = g / g.sum(); x = l / l.sum()
                    Psat = np.array([c.Psat(T0) for c in cs])
                    gam = th.Gamma(cs)(x.copy(), T0); phi = th.Phi(cs)(y.copy(), T0, P0); pcf = th.PCF(cs)(T0, P0, Psat)
                    fl = x * gam * Psat * pcf; fg = y * phi * P0
                    dev = float((np.abs(fl - fg) / fg).max())
                    rec.check(dev <= ISO_TOL, 'iso-fugacity', 'TP/method=shgo', f'liquid and vapour fugacities differ by {dev:.3g} (relative) after vle(T={T0}, P={P0}) with method shgo on {ids}: f_l={fl.tolist()}, f_g={fg.tolist()}', residual=dev)
                    two = True
            P0 = P0_case

    # ---- the feed initially vapour / split, and a chain of calls with different specifications on the one stream (remembered K, V, T)
    if kind == 'family' and not inert:
        ref = make(case, th); s = make(case, th, split=True)
        if flash(ref, T=T0, P=P0) and flash(s, T=T0, P=P0):
            rec.hit('initial-distribution')
            rec.check(s.T == T0 and s.P == P0, 'spec-TP', 'TP/initial-distribution', f'vle(T={T0}, P={P0}) on a feed that starts split over g / l left T={s.T!r}, P={s.P!r}')
            Va, Vb = vfrac(ref, vidx), vfrac(s, vidx)
            obs('reflash:initial-distribution', abs(Va - Vb))
            rec.check(abs(Va - Vb) <= REFLASH_TOL, 'independent-reflash', 'initial-distribution', f'vle(T={T0}, P={P0}) on {ids}: vapour fraction {Va!r} from an all-liquid feed but {Vb!r} from the same feed split {case.get("dist0")} over g / l', residual=abs(Va - Vb))
            # chain: P,V then P,H on the same stream
            if flash(s, P=P0, V=V0):
                Vg = vfrac(s, vidx)
                rec.hit('chained')
                rec.check(s.P == P0, 'spec-TP', 'PV/chained', f'vle(P={P0}, V={V0}) after a T/P flash on the same stream left P={s.P!r}')
                vsfx = dew_T_mechanism(th, tuple(chems[i] for i in case['ids']), np.array(case['x']), P0) if not abs(Vg - V0) <= 1e-5 else ''
                rec.check(abs(Vg - V0) <= 1e-5, 'vapour-fraction', 'PV/chained' + vsfx, f'vle(P={P0}, V={V0}) after a T/P flash on the same stream: vapour fraction {Vg!r}', residual=abs(Vg - V0))
                fr = make(case, th)
                if flash(fr, P=P0, V=V0):
                    rec.check(abs(fr.T - s.T) <= 1e-6, 'independent-reflash', 'PV/chained', f'vle(P={P0}, V={V0}): T={s.T!r} after a T/P flash on the same stream but {fr.T!r} on a fresh stream', residual=abs(fr.T - s.T))
                    # move along the two-phase line with H, on the stream that remembers the P/V solution
                    pr = make(case, th)
                    if flash(pr, P=P0, V=min(0.98, max(0.02, 1 - V0))):
                        target = pr.H
                        if flash(s, P=P0, H=target):
                            C = s.C
                            rec.check(s.P == P0, 'spec-TP', 'PH/chained', f'vle(P={P0}, H=...) after T/P and P/V flashes on the same stream left P={s.P!r}')
                            rec.check(abs(s.H - target) <= 1e-5 * C, 'spec-H', 'PH/chained', f'vle(P={P0}, H={target!r}) after T/P and P/V flashes on the same stream: stream H = {s.H!r} (residual {abs(s.H - target) / C:.3g} K*C)', residual=abs(s.H - target) / C)
                            # (oracle audit) the enthalpy holds by the final correction of set_PH whatever T the search ended on: the returned state is judged against the fresh P/V flash whose
                            # enthalpy was specified (same T, same vapour fraction) and by the fugacities of the two phases
                            Vt = min(0.98, max(0.02, 1 - V0)); Vh = vfrac(s, vidx)
                            obs('PH/chained:T', abs(s.T - pr.T)); obs('PH/chained:V', abs(Vh - Vt))
                            rec.hit('reflash:PH/chained')
                            g_ = s.imol['g'].to_array()[vidx]; l_ = s.imol['l'].to_array()[vidx]; dev_ = 0.0
                            if 0 < Vh < 1:
                                fl_, fg_ = own_fugacities(th, tuple(chems[i] for i in case['ids']), l_ / l_.sum(), g_ / g_.sum(), float(s.T), P0)
                                dev_ = float((np.abs(fl_ - fg_) / fg_).max()); obs('PH/chained:iso', dev_)
                            vT = 10 * T_TOL * abs(Vt - V0) / max(abs(pr.T - fr.T), 1e-12)      # T_tol in terms of the vapour fraction, from the two fresh P/V flashes (at V0 and at 1 - V0)
                            msfx = '' if (abs(s.T - pr.T) <= PH_T_TOL and abs(Vh - Vt) <= REFLASH_TOL + vT and dev_ <= PH_ISO_TOL + vT) else dew_T_mechanism(th, tuple(chems[i] for i in case['ids']), np.array(case['x']), P0)
                            rec.check(abs(s.T - pr.T) <= PH_T_TOL, 'independent-reflash', 'PH/chained/T' + msfx, f'vle(P={P0}, H = the enthalpy of a fresh stream at vapour fraction {Vt}) after T/P and P/V flashes on the same stream returned T={s.T!r}; the fresh stream is at T={pr.T!r}', residual=abs(s.T - pr.T))
                            rec.check(abs(Vh - Vt) <= REFLASH_TOL + vT, 'independent-reflash', 'PH/chained/V' + msfx, f'vle(P={P0}, H = the enthalpy of a fresh stream at vapour fraction {Vt}) after T/P and P/V flashes on the same stream: vapour fraction {Vh!r}', residual=abs(Vh - Vt))
                            if 0 < Vh < 1:
                                rec.check(dev_ <= PH_ISO_TOL + vT, 'iso-fugacity', 'PH/chained' + msfx, f'vle(P={P0}, H=...) after T/P and P/V flashes on {ids}: liquid and vapour fugacities differ by {dev_:.3g} (relative) at the returned T={s.T!r}', residual=dev_)
                two = True
    return two


# ---------------------------------------------------------------------------
# seeded round 5: a HISTORY on one stream (hence one VLE object, which remembers K values, the vapour fraction, T, P, the set of chemicals it was set up
# for and the bubble / dew point objects of that set): flash - the contents of the stream change - flash again.  The second (and third) result is judged by
# the clauses of the property alone: specified T / P written, phase boundaries, iso-fugacity and the independent re-flash (families), the Raoult Rachford-Rice
# split and pressure (ideal package), enthalpy reproduced, and scaling when the new contents are k times the old ones.

HIST_MODES = ('swap', 'swap', 'drop', 'add', 'new-proportions', 'scaled', 'unchanged', 'disjoint', 'other-stream')
HIST_METHODS = ('imol-set', 'imol-touch', 'copy_flow', 'copy_like', 'mix_from', 'empty-set', 'proxy')
HIST_POOL_IDEAL = ANY + ('N2',)


def _fractions(r, n):
    while True:
        x = [r.uniform(0.05, 1) for _ in range(n)]; s = sum(x); x = [v / s for v in x]
        if min(x) >= 0.02: return x


def gen_hist(r):
    hk = r.choice(['family', 'family', 'family', 'ideal', 'ideal'])
    fam = r.choice(sorted(FAM)) if hk == 'family' else None
    pool = list(FAM[fam]) if fam else list(ANY)
    mode = r.choice(HIST_MODES)
    spec2 = r.choice(['TP', 'TP', 'TP', 'TV', 'TV', 'TH'] if hk == 'ideal' else ['TP', 'TP', 'TP', 'TV', 'TV', 'PV', 'PH', 'TH', 'xy'])
    nA = r.randrange(2, min(4, len(pool)) + 1)
    if spec2 == 'xy':      # x / y specifications are for binary equilibrium sets
        nA = 2
        if mode in ('drop', 'add', 'scaled'): mode = 'swap'
    if mode == 'drop': nA = max(nA, 3)
    if mode in ('swap', 'add', 'other-stream'): nA = min(nA, len(pool) - 1)
    if mode == 'disjoint': nA = min(nA, len(pool) - 2)
    idsA = r.sample(pool, nA)
    rest = [i for i in pool if i not in idsA]
    if mode in ('swap', 'other-stream'): idsB = list(idsA); idsB[r.randrange(nA)] = r.choice(rest)
    elif mode == 'drop': idsB = list(idsA); del idsB[r.randrange(nA)]
    elif mode == 'add': idsB = idsA + [r.choice(rest)]
    elif mode == 'disjoint': idsB = r.sample(rest, 2 if spec2 == 'xy' else r.randrange(2, min(4, len(rest)) + 1))
    else: idsB = list(idsA)
    xA = _fractions(r, nA)
    xB = list(xA) if mode in ('scaled', 'unchanged') else _fractions(r, len(idsB))
    FA = round(10 ** r.uniform(-2, 3), 5)
    k = round(10 ** r.uniform(-2, 2), 5)
    h = {'kind': hk, 'fam': fam, 'mode': mode, 'idsA': idsA, 'xA': xA, 'idsB': idsB, 'xB': xB, 'FA': FA,
         'FB': FA if mode == 'unchanged' else (FA * k if mode == 'scaled' else FA * round(r.uniform(0.5, 2.0), 4)), 'k': k,
         'T': round(r.uniform(280, 450), 2), 'P': round(10 ** r.uniform(math.log10(2e4), 6), 1), 'V1': round(r.uniform(0.05, 0.95), 4), 'V2': round(r.uniform(0.03, 0.97), 4),
         'Ts': round(r.uniform(280, 450), 2), 'Psf': r.choice([1.0, 0.5, 2.0]),
         'spec1': r.choice(['TV', 'TV', 'TP-inside', 'TP-inside', 'TP', 'TH', 'TS', 'PV', 'PH']),
         'spec2': spec2, 'xy': r.choice(['Tx', 'Ty', 'Px', 'Py']),
         'sameT': r.random() < 0.8, 'dT': r.choice([-1, 1]) * round(r.uniform(2, 30), 2), 'inside': r.random() < 0.85,
         'method': r.choice(HIST_METHODS), 'obj': r.choice(['MultiStream', 'MultiStream', 'Stream']),
         'third': r.random() < 0.35, 'xA3': _fractions(r, nA),
         'n2': (r.choice([None, None, None, 'both', 'B-only', 'A-only']) if hk == 'ideal' else None), 'n2_frac': round(r.uniform(0.001, 0.02), 5)}
    if mode == 'scaled': h['spec1'] = h['spec2'] = 'TP'; h['sameT'] = True; h['n2'] = h['n2'] and 'both'
    return h


def hist_stream(th, amounts, T, P, obj='MultiStream'):
    """a stream holding `amounts` (ID -> kmol/hr), volatile chemicals as liquid and N2 as gas"""
    if obj == 'Stream':
        return tmo.Stream(None, T=T, P=P, thermo=th, phase='l', **amounts)      # becomes a MultiStream at its first vle call
    s = tmo.MultiStream(None, phases=('g', 'l'), T=T, P=P, thermo=th)
    for i, v in amounts.items(): s.imol['g' if i == 'N2' else 'l', i] = v
    return s


def change_contents(s, th, amounts, method, T, P):
    """make the stream hold `amounts`, the way a user would; returns the object to go on with (the proxy shares all data and the equilibrium objects)"""
    IDs = th.chemicals.IDs
    if method == 'proxy': s = s.proxy(); method = 'imol-set'
    if method in ('imol-set', 'empty-set'):
        if method == 'empty-set': s.empty()
        for i in IDs:
            v = amounts.get(i, 0.)
            s.imol['g', i] = v if i == 'N2' else 0.; s.imol['l', i] = 0. if i == 'N2' else v
    elif method == 'imol-touch':
        # only the chemicals whose amount changes are touched, what is there keeps its distribution over the phases
        for i in IDs:
            v = amounts.get(i, 0.); g = float(s.imol['g', i]); l = float(s.imol['l', i])
            if v == 0.:
                if g or l: s.imol['g', i] = 0.; s.imol['l', i] = 0.
            elif g + l > 0.:
                if g: s.imol['g', i] = g * (v / (g + l))
                if l: s.imol['l', i] = l * (v / (g + l))
            else: s.imol['g' if i == 'N2' else 'l', i] = v
    elif method == 'copy_flow': s.copy_flow(hist_stream(th, amounts, T, P))
    elif method == 'copy_like': s.copy_like(hist_stream(th, amounts, T, P))
    elif method == 'mix_from':
        ks = list(amounts); a = {i: (amounts[i] if n == 0 else 0.5 * amounts[i]) for n, i in enumerate(ks)}; b = {i: amounts[i] - a[i] for i in ks if amounts[i] - a[i] > 0}
        s.mix_from([hist_stream(th, a, T, P), hist_stream(th, b, T, P)] if b else [hist_stream(th, a, T, P)])
    else: raise ValueError(method)
    return s


def totals_of(s):
    a = np.asarray(s.imol.data.to_array())      # (a Stream that was not flashed yet has one row)
    return a.sum(0) if a.ndim == 2 else a


def fixed_point_status(th, cs, x, y, V, T, P):
    """mechanism probe for an iso-fugacity mismatch: continue the plain successive substitution (K = gamma Psat pcf / (phi P), Rachford-Rice for V) from the returned split,
    with the package's own model objects as data.  'unconverged' when that iteration converges (step < 1e-12) to a split whose fugacities agree to 1e-8 and which lies more
    than 1e-5 (ten times the flash's K_tol = 1e-6) away from the returned one: the flash returned an iterate of its fixed point, not its limit."""
    return fixed_point_limit(th, cs, x, y, V, T, P)[0]


def fixed_point_limit(th, cs, x, y, V, T, P):
    """(status, (x, y, V) of the limit or None): see fixed_point_status; the limit is the equilibrium split of the harness-side model at (T, P) for the overall composition of the returned split"""
    try:
        gam = th.Gamma(cs); phi = th.Phi(cs); pcf = th.PCF(cs)
        Psat = np.array([c.Psat(T) for c in cs]); pc = pcf(T, P, Psat)
        z = V * y + (1 - V) * x; z = z / z.sum()
        x0, y0, V0 = x.copy(), y.copy(), V
        for _ in range(500):
            K = pc * Psat * gam(x.copy(), T) / (phi(y.copy(), T, P) * P)
            Vn = _bisect(lambda v: float((z * (K - 1) / (1 + v * (K - 1))).sum()), 1e-12, 1 - 1e-12)
            if Vn is None: return 'unknown', None
            xn = z / (1 + Vn * (K - 1)); yn = K * xn; xn = xn / xn.sum(); yn = yn / yn.sum()
            step = max(np.abs(xn - x).max(), np.abs(yn - y).max(), abs(Vn - V))
            x, y, V = xn, yn, Vn
            if step < 1e-12: break
        else: return 'unknown', None
        fl = x * gam(x.copy(), T) * Psat * pc; fg = y * phi(y.copy(), T, P) * P
        if float((np.abs(fl - fg) / fg).max()) > 1e-8: return 'unknown', None
        moved = max(np.abs(x - x0).max(), np.abs(y - y0).max(), abs(V - V0))
        return ('unconverged' if moved > 1e-5 else 'at-fixed-point'), (x, y, V)
    except Exception:
        return 'unknown', None


def _bisect(f, lo, hi, n=100):
    flo, fhi = f(lo), f(hi)
    if not (flo < 0 < fhi or fhi < 0 < flo): return None
    for _ in range(n):
        mid = 0.5 * (lo + hi)
        if (f(mid) < 0) == (flo < 0): lo = mid
        else: hi = mid
    return 0.5 * (lo + hi)


def history_clauses(h, rec):
    """returns True when a two-phase result of a flash after a change of contents was judged"""
    ideal = h['kind'] == 'ideal'; mode = h['mode']; method = h['method']
    th = thermo(HIST_POOL_IDEAL if ideal else FAM[h['fam']], ideal=ideal)
    tmo.settings.set_thermo(th)
    chems = th.chemicals
    idsA, idsB, xA, xB, FA, FB = h['idsA'], h['idsB'], h['xA'], h['xB'], h['FA'], h['FB']
    n2A = h['n2'] in ('both', 'A-only'); n2B = h['n2'] in ('both', 'B-only')
    amtA = {i: x * FA for i, x in zip(idsA, xA)}; amtB = {i: x * FB for i, x in zip(idsB, xB)}
    if n2A: amtA['N2'] = h['n2_frac'] * FA
    if n2B: amtB['N2'] = h['n2_frac'] * FB
    V1, V2 = h['V1'], h['V2']
    hcls = klass(h['kind'], n2B)      # input class of the second flash, as in the keys of run_case
    hist = f"{h['obj']} holding {idsA} flashed with {h['spec1']}, contents changed ({mode}, through {method}) to {idsB}"
    if mode == 'other-stream': hist = f"{h['obj']} holding {idsA} flashed with {h['spec1']}, then another {h['obj']} of the same package holding {idsB}"
    two = False

    def flash(s, step, **spec):
        nm = ''.join(sorted(spec)); pb = p_bucket(spec)
        if pb: rec.hit(f"P-spec:{klass(h['kind'], n2A or n2B)}{pb}")
        try:
            s.vle(**spec); rec.hit('returned:' + nm); return True
        except Exception as e:
            # as everywhere in C04: the property speaks about calculations that return, so a documented refusal is counted, not judged - (oracle audit) but only the documented
            # exception type of that specification (see flash() in run_case); every other raise is reported
            tn = type(e).__name__; msg = str(e)
            if ((tn == 'InfeasibleRegion' and ('x' in spec or 'y' in spec) and 'phase composition' in msg)
                    or (tn == 'NotImplementedError' and nm in ('HT', 'ST') and (n2A or n2B) and 'cannot solve for pressure' in msg)):
                rec.refuse(f'history/{step}/{nm}: {tn}'); rec.hit('refused-unverified:' + nm); return False
            rec.exception('flash/' + klass(h['kind'], n2A or n2B) + pb, e, what=f'{step} flash of a history ({hist}): vle({spec}) raised {tn}: {msg[:140]} - not a documented refusal for this specification and these inputs'); return False

    def Psats(ids_, T): return np.array([chems[i].Psat(T) for i in ids_])

    def window_P(ids_, x_, T):
        """(P_bubble, P_dew) of the volatile mixture at T: Raoult's law for the ideal package, the public bubble / dew point solvers otherwise"""
        z = np.array(x_)
        if ideal:
            Ps = Psats(ids_, T); return float((z * Ps).sum()), float(1. / (z / Ps).sum())
        cs = tuple(chems[i] for i in ids_)
        return lib_window(rec, th, cs, z, T, 'history: ')

    def window_T(ids_, x_, P):
        z = np.array(x_)
        if ideal:
            Tb = _bisect(lambda T: (z * Psats(ids_, T)).sum() - P, 250., 480., 60); Td = _bisect(lambda T: 1. / (z / Psats(ids_, T)).sum() - P, 250., 480., 60)
            return None if Tb is None or Td is None else (Tb, Td)
        cs = tuple(chems[i] for i in ids_)
        # (the pair of temperature solves the harness asks for to place the second flash: counted with the P-specified flashes of the class; a raise carries class and pressure bucket,
        #  as the flashes do - the recorded raise of the dew-temperature solver at high pressure within a family reaches the harness here exactly as it reaches vle(P, V))
        pb = p_bucket({'P': P})
        if pb: rec.hit(f"P-spec:{h['kind']}{pb}")
        try: return float(eq.BubblePoint(cs, th).solve_Ty(z.copy(), P)[0]), float(eq.DewPoint(cs, th).solve_Tx(z.copy(), P)[0])
        except Exception as e:
            if type(e).__name__ == 'InfeasibleRegion': rec.refuse(f'history: bubble/dew point unavailable: {type(e).__name__}')
            else: rec.exception('phase-boundary/' + h['kind'] + pb, e, what=f'history: BubblePoint.solve_Ty / DewPoint.solve_Tx on {ids_} (z={z.tolist()}, P={P}) raised {type(e).__name__}: {str(e)[:140]}')
            return None

    def P_inside(ids_, x_, T, V):
        w = window_P(ids_, x_, T)
        if w is None or not (w[1] < w[0]): return None
        P = round(w[0] - V * (w[0] - w[1]), 1)
        return P if 2e4 <= P <= 1e6 else None

    def pick_TP(ids_, x_, T, P, V):
        """a (T, P) of the box at which the mixture is (nominally) two-phase: the drawn T with a pressure inside the window, else the drawn P with a temperature inside"""
        if not h['inside']: return T, P
        Pi = P_inside(ids_, x_, T, V)
        if Pi is not None: return T, Pi
        w = window_T(ids_, x_, P)
        if w is not None and w[0] < w[1]:
            Ti = round(w[0] + V * (w[1] - w[0]), 2)
            if 280. <= Ti <= 450.: return Ti, P
        return None

    def judge_TP(s, ids_, x_, amt, T, P, sfx, with_n2, what):
        """the clauses for specified T and P on a stream that now holds ids_ (fractions x_ of the volatile part)"""
        vidx = [chems.index(i) for i in ids_]; z = np.array(x_); F = float(sum(amt[i] for i in ids_))
        rec.check(s.T == T and s.P == P, 'spec-TP', 'TP/history', f'{what}: vle(T={T}, P={P}) left T={s.T!r}, P={s.P!r}')
        V = vfrac(s, vidx)
        g = s.imol['g'].to_array()[vidx]; l = s.imol['l'].to_array()[vidx]
        if ideal:
            K = Psats(ids_, T) / P
            if with_n2:
                nl = amt['N2']; Ft = F + nl; zz = z * F / Ft
                Vm = raoult_rr_light(zz, K, nl / Ft)
                if Vm >= 1.0: exp_g, exp_l = z * F, np.zeros_like(z)
                else:
                    xl = zz / (1 + Vm * (K - 1)); exp_l = (1 - Vm) * Ft * xl; exp_g = z * F - exp_l
            else:
                Vm = raoult_rr(z, K)
                xl = z / (1 + Vm * (K - 1)); yv = K * xl
                exp_g = Vm * F * yv; exp_l = (1 - Vm) * F * xl
                if Vm in (0.0, 1.0): exp_g, exp_l = (z * F * Vm, z * F * (1 - Vm))
            dev = float(max(np.abs(g - exp_g).max(), np.abs(l - exp_l).max()) / F)
            rec.check(dev <= 1e-6, 'raoult-rr', 'TP/history/' + sfx, f'{what}: the ideal-package flash at T={T}, P={P} differs from the Raoult Rachford-Rice split of the present contents by {dev:.3g} of the feed (V model {Vm!r}, V flash {V!r}; z={z.tolist()})', residual=dev)
            return 0 < Vm < 1
        # (oracle audit) the reference is the harness-side model; the library's solvers (which the flash itself consults) stay as a second reference
        wo = own_window(rec, th, tuple(chems[i] for i in ids_), z, T)
        if wo is not None: judge_window(rec, V, P, wo[0], wo[1], '/history/' + sfx, 'harness-side model', f'{what}: vle(T={T}, P={P}), z={z.tolist()}')
        w = window_P(ids_, x_, T)
        if w is not None:
            Pb, Pd = w
            if P >= Pb * (1 + 1e-6): rec.check(V == 0.0, 'phase-boundary', 'above-bubble/history/' + sfx, f'{what}: P={P} >= P_bubble={Pb!r} at T={T} but vapour fraction is {V!r} (z={z.tolist()})')
            elif P <= Pd * (1 - 1e-6): rec.check(V == 1.0, 'phase-boundary', 'below-dew/history/' + sfx, f'{what}: P={P} <= P_dew={Pd!r} at T={T} but vapour fraction is {V!r} (z={z.tolist()})')
            elif Pd * (1 + 1e-4) < P < Pb * (1 - 1e-4):
                rec.hit('history:inside-window')
                rec.check(0.0 < V < 1.0, 'phase-boundary', 'inside/history/' + sfx, f'{what}: P_dew={Pd!r} < P={P} < P_bubble={Pb!r} at T={T} but vapour fraction is {V!r} (z={z.tolist()})')
        if 0.0 < V < 1.0:
            y = g / g.sum(); x = l / l.sum(); cs = tuple(chems[i] for i in ids_)
            Psat = Psats(ids_, T)
            fl = x * th.Gamma(cs)(x.copy(), T) * Psat * th.PCF(cs)(T, P, Psat); fg = y * th.Phi(cs)(y.copy(), T, P) * P
            dev = float((np.abs(fl - fg) / fg).max())
            # (the suffix is the recorded fixed-point mechanism, independent of the history: a fresh stream gives the same iterate)
            obs('iso:TP/history', dev)
            ksfx = 'TP/unconverged-fixed-point' if dev > ISO_TOL and fixed_point_status(th, cs, x, y, V, T, P) == 'unconverged' else 'TP/history/' + sfx
            rec.check(dev <= ISO_TOL, 'iso-fugacity', ksfx, f'{what}: liquid and vapour fugacities differ by {dev:.3g} (relative) after vle(T={T}, P={P}): f_l={fl.tolist()}, f_g={fg.tolist()}', residual=dev)
        fr = hist_stream(th, amt, h['Ts'], P * h['Psf'])
        if flash(fr, 'fresh', T=T, P=P):
            Vf = vfrac(fr, vidx)
            obs('reflash:TP/history', abs(Vf - V))
            rec.check(abs(Vf - V) <= REFLASH_TOL, 'independent-reflash', 'TP/history/' + sfx, f'{what}: vle(T={T}, P={P}) gives vapour fraction {V!r} but {Vf!r} on a fresh stream with the same contents', residual=abs(Vf - V))
        return 0.0 < V < 1.0

    # ---- where the second flash takes place: a point of the T/P box at which the SECOND mixture is two-phase (85 %), else the drawn (T, P)
    tp = pick_TP(idsB, xB, h['T'], h['P'], V2)
    if tp is None: rec.refuse('history: no two-phase point of the second mixture found inside the T/P box'); return False
    T2, P2 = tp
    spec1 = h['spec1']
    T1 = T2 if h['sameT'] else min(450., max(280., round(T2 + h['dT'], 2)))
    # ---- first flash, on the first contents
    s = hist_stream(th, amtA, h['Ts'], P2 * h['Psf'], h['obj'])
    if spec1 == 'TV': ok = flash(s, 'first', T=T1, V=V1)
    elif spec1 == 'TP': ok = flash(s, 'first', T=T1, P=P2)
    elif spec1 == 'TP-inside':
        P1 = P_inside(idsA, xA, T1, V1)
        ok = flash(s, 'first', T=T1, P=P2 if P1 is None else P1)
    elif spec1 in ('TH', 'TS'):
        pr = hist_stream(th, amtA, h['Ts'], P2)
        ok = flash(pr, 'probe', T=T1, V=V1) and flash(s, 'first', T=T1, **{spec1[1]: getattr(pr, spec1[1])})
    elif spec1 == 'PV': ok = flash(s, 'first', P=P2, V=V1)
    else:
        pr = hist_stream(th, amtA, h['Ts'], P2)
        ok = flash(pr, 'probe', P=P2, V=V1) and flash(s, 'first', P=P2, H=pr.H)
    if not ok: return False
    if spec1 in ('PV', 'PH'):
        # the second flash is specified at the very temperature the first one returned
        T2 = float(s.T) if h['sameT'] else round(float(s.T) + h['dT'], 2)
        if not (280. <= T2 <= 450.): rec.refuse('history: the temperature returned by the first flash is outside the T box'); return False
        if h['inside']:
            P2 = P_inside(idsB, xB, T2, V2)
            if P2 is None: rec.refuse('history: no two-phase point of the second mixture found inside the T/P box'); return False
    rows1 = rows_of(s).copy(); P1_used = float(s.P)
    # ---- the contents change
    first = s
    if mode == 'other-stream': s = hist_stream(th, amtB, h['Ts'], P2 * h['Psf'], h['obj'])      # not a change of contents: ANOTHER stream of the same package is flashed next
    else: s = change_contents(s, th, amtB, method, h['Ts'], P2)
    tot = totals_of(s); want = np.array([amtB.get(i, 0.) for i in chems.IDs])
    if not np.allclose(tot, want, rtol=1e-12, atol=0.0): rec.refuse(f'history: {method} did not leave the intended contents (not a flash)'); return False
    same_set = mode == 'other-stream' or set(idsA) | ({'N2'} if n2A else set()) == set(idsB) | ({'N2'} if n2B else set())      # (another stream has equilibrium objects of its own)
    what = f'history ({hist}), second flash'
    rec.hit('history'); rec.hit('history:' + mode); rec.hit('history:method=' + method); rec.hit('history:first=' + spec1); rec.hit('history:' + h['kind'])
    if h['obj'] == 'Stream': rec.hit('history:obj=Stream')
    # ---- second flash, on the new contents
    spec2 = h['spec2']; vidx = [chems.index(i) for i in idsB]
    if spec2 == 'xy' and (len(idsB) != 2 or n2B): spec2 = 'TP'      # x / y specifications: binary equilibrium sets
    if spec2 == 'TP':
        if not flash(s, 'second', T=T2, P=P2): return False
        rec.hit('history:second=TP')
        two = judge_TP(s, idsB, xB, amtB, T2, P2, mode, n2B, what)
        if two and h['sameT'] and not same_set: rec.hit('history:same-T/changed-set/two-phase')
        if mode == 'scaled' and spec1 == 'TP' and P1_used == P2:
            k = h['k']; rows2 = rows_of(s); F = rows1.sum()
            okk = np.allclose(rows2, k * rows1, rtol=0, atol=1e-5 * F * k); key = 'TP/history/rescaled-contents'
            if not okk and not ideal and 0 < vfrac(s, vidx) < 1:
                try:
                    g = rows2[0][vidx]; l = rows2[1][vidx]; y = g / g.sum(); x = l / l.sum(); cs = tuple(chems[i] for i in idsB); Psat = Psats(idsB, T2)
                    fl = x * th.Gamma(cs)(x.copy(), T2) * Psat * th.PCF(cs)(T2, P2, Psat); fg = y * th.Phi(cs)(y.copy(), T2, P2) * P2
                    if float((np.abs(fl - fg) / fg).max()) > 1e-2: key = f'TP/{hcls}/unconverged-fixed-point'      # the mechanism recorded for cross-family mixtures (an unconverged iterate depends on rounding); (oracle audit) the class is part of the key
                except Exception: pass
            rec.hit('history:rescaled')
            rec.check(okk, 'scaling', key, f'{what}: the contents were multiplied by {k} and flashed again at T={T2}, P={P2}: the flows are not {k} times those of the first flash (max deviation {np.abs(rows2 - k * rows1).max() / (F * k):.3g} of the feed)', residual=float(np.abs(rows2 - k * rows1).max() / (F * k)))
    elif spec2 in ('TV', 'PV'):
        spec = {'T': T2, 'V': V2} if spec2 == 'TV' else {'P': P2, 'V': V2}; fixed = spec2[0]
        if not flash(s, 'second', **spec): return False
        rec.hit('history:second=' + spec2)
        rec.check(getattr(s, fixed) == spec[fixed], 'spec-TP', spec2 + '/history', f'{what}: vle({spec}) left {fixed}={getattr(s, fixed)!r}')
        Vg = vfrac(s, vidx)
        if ideal:
            if n2B: rec.refuse('history: T/V on the ideal package with a non-condensable gas: pressure not judged (no closed model kept for it)')
            else:
                z = np.array(xB); Ps = Psats(idsB, T2); Pb = float((z * Ps).sum()); Pd = float(1. / (z / Ps).sum())
                Pm = _bisect(lambda P: float((z * (Ps - P) / (P + V2 * (Ps - P))).sum()), Pd * (1 - 1e-9), Pb * (1 + 1e-9))
                if Pm is not None:
                    # resolution: P_tol = 1 Pa, or V_tol = 1e-6 translated to pressure with the width of the two-phase window
                    bound = 2.0 + 1e-5 * (Pb - Pd)
                    rec.check(abs(s.P - Pm) <= bound, 'raoult-rr', 'TV-pressure/history/' + mode, f'{what}: vle(T={T2}, V={V2}) with the ideal package returned P={s.P!r}, but the Raoult Rachford-Rice vapour fraction of the present contents equals {V2} at P={Pm!r} (z={z.tolist()})', residual=abs(s.P - Pm) / (Pb - Pd))
                    rec.check(abs(Vg - V2) <= max(1e-5, 10 * 0.96 / max(Pb - Pd, 1e-9)), 'vapour-fraction', 'TV/history/' + mode, f'{what}: vle(T={T2}, V={V2}): vapour fraction {Vg!r}', residual=abs(Vg - V2))
                    two = True
        else:
            vb = 1e-5
            if spec2 == 'TV':
                pr = hist_stream(th, amtB, h['Ts'], P2)
                if flash(pr, 'probe', T=T2, V=0.02):
                    pa = pr.P
                    if flash(pr, 'probe', T=T2, V=0.98): vb = max(1e-5, 10 * 0.96 / max(abs(pa - pr.P), 1e-9) * 1.0)
            rec.check(abs(Vg - V2) <= vb, 'vapour-fraction', spec2 + '/history/' + mode, f'{what}: vle({spec}): vapour fraction {Vg!r}', residual=abs(Vg - V2))
            fr = hist_stream(th, amtB, h['Ts'], P2 * h['Psf'])
            if 280. <= s.T <= 450. and 2e4 <= s.P <= 1e6 and flash(fr, 'fresh', T=s.T, P=s.P):
                V3 = vfrac(fr, vidx); key = spec2 + '/history/' + mode
                obs('reflash:' + spec2 + '/history', abs(V3 - V2) - vb)
                if abs(V3 - V2) > REFLASH_TOL + vb and 0 < V3 < 1 and h['kind'] == 'family' and not (n2A or n2B) and \
                        reference_limit(rec, th, tuple(chems[i] for i in idsB), fr, idsB, vidx, str(idsB), float(s.T), float(s.P), f'a {spec2[0]}/V flash of a history'):
                    V3 = vfrac(fr, vidx)      # the reference flash itself was an iterate of the fixed point (recorded finding, filed there): judged against its limit
                if abs(V3 - V2) > REFLASH_TOL + vb:
                    m_ = dew_T_mechanism(th, tuple(chems[i] for i in idsB), np.array(xB), float(s.P))      # the recorded dew-solver finding reaching the flash
                    if m_: key = spec2 + m_
                rec.check(abs(V3 - V2) <= REFLASH_TOL + vb, 'independent-reflash', key, f'{what}: vle({spec}) returned T={s.T!r}, P={s.P!r}; a T-P flash of a fresh stream with the same contents there gives vapour fraction {V3!r}, not {V2} (z={xB})', residual=abs(V3 - V2))
            two = True
        if two and fixed == 'T' and h['sameT'] and not same_set: rec.hit('history:same-T/changed-set/two-phase')
    elif spec2 == 'xy':
        # the specified composition: that of the named phase of a fresh stream with the same contents at (T2, P2) (rounded), so that the lever rule is feasible
        nm = h['xy']; fixed = {'T': T2} if nm[0] == 'T' else {'P': P2}
        vo = sorted(vidx)      # x / y are given in the order of the chemicals of the package
        pr = hist_stream(th, amtB, h['Ts'], P2)
        if not flash(pr, 'probe', T=T2, P=P2): return False
        row = pr.imol['l' if nm[1] == 'x' else 'g'].to_array()[vo]
        if not (0 < vfrac(pr, vidx) < 1): rec.refuse('history: x / y specification not exercised (the second mixture is one phase at the chosen point)'); return False
        v = min(max(round(float(row[0] / row.sum()), 4), 0.001), 0.999)
        if not flash(s, 'second', **fixed, **{nm[1]: [v, 1 - v]}): return False
        rec.hit('history:second=xy')
        rec.check(getattr(s, nm[0]) == fixed[nm[0]], 'spec-TP', nm + '/history', f'{what}: vle({fixed}, {nm[1]}=[{v}, {1 - v}]) left {nm[0]}={getattr(s, nm[0])!r}')
        row = s.imol['l' if nm[1] == 'x' else 'g'].to_array()[vo]
        if row.sum() > 1e-9 * FB:
            got = row[0] / row.sum()
            rec.check(abs(got - v) <= 1e-4, 'spec-xy', nm + '/history/' + mode, f'{what}: vle({fixed}, {nm[1]}=[{v}, ...]): the {"liquid" if nm[1] == "x" else "vapour"} holds a fraction {got!r} of {chems.IDs[vo[0]]}', residual=abs(got - v))
        # (oracle audit) in a binary the lever rule makes the named phase's composition the specification whatever the bubble / dew solver returned: the returned T (P) must be
        # where a phase of that composition is saturated (harness-side model) and the two phases must be in equilibrium (histories with x / y are family mixtures)
        cs2 = tuple(chems[i] for i in (chems.IDs[j] for j in vo)); w_ = np.array([v, 1. - v])
        r_ = (own_bubble if nm[1] == 'x' else own_dew)(th, cs2, w_, float(s.T))
        if r_ is None: rec.refuse('x / y specification: harness-side saturation model did not settle at the returned temperature')
        else:
            rec.hit('spec-xy:equilibrium'); obs('xy:P/history', abs(r_[0] - s.P) / r_[0])
            xsfx = ''
            if nm[1] == 'y' and not abs(r_[0] - s.P) <= XY_P_TOL * r_[0] + 1e-2: xsfx = dew_T_mechanism(th, cs2, w_, P2) if nm[0] == 'P' else dew_P_mechanism(th, cs2, w_, T2)      # the recorded dew-solver finding reaching vle(P, y) / vle(T, y)
            rec.check(abs(r_[0] - s.P) <= XY_P_TOL * r_[0] + 1e-2, 'spec-xy', nm + '/saturation-of-named-phase/history' + xsfx, f'{what}: vle({fixed}, {nm[1]}=[{v}, {1 - v}]) returned T={s.T!r}, P={s.P!r}; a {"liquid" if nm[1] == "x" else "vapour"} of that composition is saturated at P={r_[0]!r} there (harness-side model)', residual=abs(r_[0] - s.P) / r_[0])
            g_ = s.imol['g'].to_array()[vo]; l_ = s.imol['l'].to_array()[vo]
            if g_.sum() > 1e-9 * FB and l_.sum() > 1e-9 * FB:
                fl_, fg_ = own_fugacities(th, cs2, l_ / l_.sum(), g_ / g_.sum(), float(s.T), float(s.P))
                dev_ = float((np.abs(fl_ - fg_) / fg_).max()); obs('xy:iso/history', dev_); rec.hit('spec-xy:both-phases')
                if nm[1] == 'y' and dev_ > XY_ISO_TOL and not xsfx: xsfx = dew_T_mechanism(th, cs2, w_, P2) if nm[0] == 'P' else dew_P_mechanism(th, cs2, w_, T2)
                rec.check(dev_ <= XY_ISO_TOL, 'iso-fugacity', 'xy/' + nm + '/history' + xsfx, f'{what}: vle({fixed}, {nm[1]}=[{v}, {1 - v}]): liquid and vapour fugacities differ by {dev_:.3g} (relative) at the returned T={s.T!r}, P={s.P!r}', residual=dev_)
        two = 0 < vfrac(s, vidx) < 1
    elif spec2 == 'TH':
        # the enthalpy of the two-phase state of the new contents at (T2, V2); reproduced to |dH/dP| * P_tol (the T-specified search solves for the pressure to P_tol = 1 Pa)
        pr = hist_stream(th, amtB, h['Ts'], P2)
        if not flash(pr, 'probe', T=T2, V=0.02): return False
        Hlo, Plo = pr.H, pr.P
        if not flash(pr, 'probe', T=T2, V=0.98): return False
        Hhi, Phi_ = pr.H, pr.P
        if not flash(pr, 'probe', T=T2, V=V2): return False
        target = pr.H
        if Hhi == Hlo: rec.refuse('history: degenerate two-phase window (probe flashes returned the same state)'); return False
        if not abs(Plo - Phi_) > 10.0: rec.refuse('history: two-phase window narrower than ten times the pressure resolution of the T-specified searches (P_tol = 1 Pa): H reproduction not judged'); return False
        slopeH = abs(Hhi - Hlo) / max(abs(Plo - Phi_), 1e-9)
        if not flash(s, 'second', T=T2, H=target): return False
        rec.hit('history:second=TH'); rec.hit('T-spec-HS:' + hcls)
        if n2B: rec.hit('T-spec-HS:+inert')
        rec.check(s.T == T2, 'spec-TP', 'TH/history', f'{what}: vle(T={T2}, H=...) left T={s.T!r}')
        C = s.C; got = s.H; key = 'TH/history/' + mode
        if abs(got - target) > max(1e-5 * C, 10 * slopeH):
            # the recorded mechanisms of the T-specified searches (same classification as for streams without a history)
            chk = hist_stream(th, amtB, h['Ts'], P2)
            if flash(chk, 'fresh', T=T2, P=s.P): key = f'TH/{hcls}/unconverged-pressure' if abs(chk.H - target) > 10 * slopeH + 1e-5 * chk.C else f'TH/{hcls}/stream-not-at-returned-pressure'      # (oracle audit) class in the key
        rec.check(abs(got - target) <= max(1e-5 * C, 10 * slopeH), 'spec-H', key, f'{what}: vle(T={T2}, H={target!r}): stream H = {got!r} (residual {abs(got - target) / C:.3g} K*C)', residual=abs(got - target) / C)
        two = 0 < vfrac(s, vidx) < 1
    else:      # PH: the enthalpy of the two-phase state of the new contents at (P2, V2)
        pr = hist_stream(th, amtB, h['Ts'], P2)
        if not flash(pr, 'probe', P=P2, V=V2): return False
        target = pr.H
        if not flash(s, 'second', P=P2, H=target): return False
        rec.hit('history:second=PH')
        C = s.C
        rec.check(s.P == P2, 'spec-TP', 'PH/history', f'{what}: vle(P={P2}, H=...) left P={s.P!r}')
        rec.check(abs(s.H - target) <= 1e-5 * C, 'spec-H', 'PH/history/' + mode, f'{what}: vle(P={P2}, H={target!r}): stream H = {s.H!r} (residual {abs(s.H - target) / C:.3g} K*C)', residual=abs(s.H - target) / C)
        obs('PH/history:T', abs(s.T - pr.T))
        Vh = vfrac(s, vidx); dev_ = 0.0
        if 0 < Vh < 1:
            g_ = s.imol['g'].to_array()[vidx]; l_ = s.imol['l'].to_array()[vidx]
            fl_, fg_ = own_fugacities(th, tuple(chems[i] for i in idsB), l_ / l_.sum(), g_ / g_.sum(), float(s.T), P2)
            dev_ = float((np.abs(fl_ - fg_) / fg_).max()); obs('PH/history:iso', dev_)
        # (when an oracle of the returned state fails: is it the recorded dew-solver finding reaching the flash through its temperature bracket?)
        msfx = '' if (abs(s.T - pr.T) <= PH_T_TOL and abs(Vh - V2) <= REFLASH_TOL and dev_ <= PH_ISO_TOL) else dew_T_mechanism(th, tuple(chems[i] for i in idsB), np.array(xB), P2)
        rec.check(abs(s.T - pr.T) <= PH_T_TOL, 'independent-reflash', 'PH/history/' + mode + msfx, f'{what}: vle(P={P2}, H = the enthalpy of a fresh stream with the same contents at vapour fraction {V2}) returned T={s.T!r}; the fresh stream is at T={pr.T!r}', residual=abs(s.T - pr.T))
        # (oracle audit) the enthalpy holds by the final correction of set_PH whatever T the search ended on: the split must be that of the fresh stream, the phases in equilibrium
        obs('PH/history:V', abs(Vh - V2))
        rec.check(abs(Vh - V2) <= REFLASH_TOL, 'independent-reflash', 'PH/history/V/' + mode + msfx, f'{what}: vle(P={P2}, H = the enthalpy of a fresh stream with the same contents at vapour fraction {V2}): vapour fraction {Vh!r}', residual=abs(Vh - V2))
        if 0 < Vh < 1:
            rec.check(dev_ <= PH_ISO_TOL, 'iso-fugacity', 'PH/history/' + mode + msfx, f'{what}: vle(P={P2}, H=...): liquid and vapour fugacities differ by {dev_:.3g} (relative) at the returned T={s.T!r}', residual=dev_)
        two = 0 < vfrac(s, vidx) < 1
    # ---- third flash: back to the first set of chemicals (new proportions), at the temperature of the second flash
    if h['third'] and spec2 in ('TP', 'TV'):
        amt3 = {i: x * FA for i, x in zip(idsA, h['xA3'])}
        if n2A: amt3['N2'] = h['n2_frac'] * FA
        P3 = P_inside(idsA, h['xA3'], T2, V1)
        if P3 is None: rec.refuse('history: no two-phase point of the third mixture found inside the T/P box')
        else:
            s = change_contents(first if mode == 'other-stream' else s, th, amt3, method, h['Ts'], P3)
            if np.allclose(totals_of(s), np.array([amt3.get(i, 0.) for i in chems.IDs]), rtol=1e-12, atol=0.0) and flash(s, 'third', T=T2, P=P3):
                rec.hit('history:third')
                if judge_TP(s, idsA, h['xA3'], amt3, T2, P3, 'back-to-first-set', n2A, f'history ({hist}, and back to {idsA} through {method}), third flash'): two = True
    return two


def replay(case, rec):
    run_case(case, rec)


REFUSAL_CEILING = 0.4      # (per shard; unverifiable x / y refusals on cross-family mixtures run at 13 % of the x / y calls: 1-2 per quick shard)


def refusal_ceilings(rec):
    """(oracle audit) refusals whose warrant the harness could not verify from the inputs are counted under 'refused-unverified:<specification>'.  When they are more than
    REFUSAL_CEILING of the calls with that specification (and at least 8) the clauses of that specification were judged on a selected part of the inputs only: the run
    is inconclusive.  (Recorder has no call for that yet; the list it turns into 'inconclusive' is used)"""
    for k, n in sorted(rec.reach.items()):
        if not k.startswith('refused-unverified:'): continue
        nm = k.split(':', 1)[1]; ok = rec.reach.get('returned:' + nm, 0)
        if n >= 8 and n > REFUSAL_CEILING * (n + ok):
            msg = (f'refusal ceiling: {n} of {n + ok} vle calls with specification {nm} ended in a refusal whose warrant the harness cannot see from the inputs '
                   f'(ceiling {REFUSAL_CEILING}): the clauses for this specification were judged on a selected part of the inputs')
            fn = getattr(rec, 'inconclusive', None)
            if callable(fn): fn(msg)
            else: rec.harness_errors.append({'clause': 'refusal-ceiling', 'error': msg, 'traceback': '(not an exception: a refusal-rate ceiling of the C04 workload)', 'case': None})


def run(rec, rng, tier, shard, nshards):
    n = 100 if tier == 'quick' else 1650
    for i in range(n):
        case = gen_case(rng)
        try:
            run_case(case, rec)
        except Exception as e:
            rec.exception('harness', e, what=f'harness error: {type(e).__name__}: {e}')
        if i % 23 == 0: rec.sample(case)
    refusal_ceilings(rec)
