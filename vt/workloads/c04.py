"""C04 — a vapour-liquid flash honours its specifications and the equilibrium conditions.

Monitor: T, P, H, S, vapour fraction and phase rows of the real stream are read after each vle(...) call and judged
against the specification, against fugacities recomputed by the harness from the package's model objects, against the
public bubble / dew point solvers, against an independent Raoult's-law Rachford-Rice flash (ideal package) and against
the flash of the k-times scaled feed.
"""
import math, warnings
import numpy as np
import thermosteam as tmo
from thermosteam import equilibrium as eq
from vt.core import case_hash

PID = 'C04'
RULE = ('compositions of 1-5 volatile chemicals (family-restricted for the vapour-fraction / phase-boundary / iso-fugacity clauses, any for the ideal-package clause), every mole fraction >= 0.02 in the family clauses, '
        'with or without <= 2 mol % N2 (gas-locked) / glucose (solid-locked), F in 10^U(-2,3), T 280-450 K, P 2e4-1e6 Pa, V in (0.02,0.98), H/S between the V=0.02 and V=0.98 values, k in 10^U(-3,3). '
        'per composition: TP, PV, TV, PH, PS, TH, TS flashes, an independent TP re-flash, the ideal-package Rachford-Rice comparison and the scaled-feed flash. '
        'non-trivial = two-phase result; distinct = hash of the case')
MIN_NONTRIVIAL = {'quick': 150, 'thorough': 4000}
ASSUMPTIONS = ['fugacities are recomputed from thermo.Gamma / Phi / PCF and Chemical.Psat (the same model objects the flash uses)',
               'scaling bound 1e-5 of the feed (two fixed points converged to K_tol=1e-6; observed 3.3e-7 once in 24 000 compositions, otherwise 1e-15)', 'independent re-flash bound 5e-3 in vapour fraction (two fixed points converged to K_tol=1e-6 from different guesses); entropy bound 5e-3 of (S_vap - S_liq): the final entropy correction moves a fraction of one phase linearly while the mixing entropy is not linear (observed up to 1.3e-3 on cross-family mixtures); T-specified H/S and TV bounds follow from P_tol = 1 Pa times the slope across the two-phase window']
FAM = {'alcohol': ('Methanol', 'Ethanol', 'Propanol', 'Butanol'), 'hydrocarbon': ('Hexane', 'Heptane', 'Octane', 'Benzene', 'Toluene')}
ANY = ('Water', 'Acetone') + FAM['alcohol'] + FAM['hydrocarbon']
_th = {}
_locked = {}


def required(tier):
    return ['spec-TP', 'spec-H', 'spec-S', 'vapour-fraction', 'independent-reflash', 'phase-boundary', 'iso-fugacity', 'raoult-rr', 'scaling', 'single-component', 'with-inerts', 'spec-xy']


def chem(i):
    if i == 'N2':
        if i not in _locked: _locked[i] = tmo.Chemical('N2', phase='g', cache=False)
        return _locked[i]
    if i == 'Glucose':
        if i not in _locked: _locked[i] = tmo.Chemical('Glucose', phase='s', cache=False)
        return _locked[i]
    return tmo.Chemical(i, cache=True)


def thermo(ids, ideal=False):
    k = (tuple(ids), ideal)
    if k not in _th:
        th = tmo.Thermo(tmo.Chemicals([chem(i) for i in ids]))
        _th[k] = th.ideal() if ideal else th
    return _th[k]


def gen_case(rng):
    kind = rng.choice(['family', 'family', 'family', 'any', 'ideal', 'single'])
    if kind == 'single':
        ids = [rng.choice(ANY)]
    elif kind == 'family':
        f = rng.choice(list(FAM)); ids = rng.sample(FAM[f], rng.randrange(2, len(FAM[f]) + 1) if len(FAM[f]) > 2 else 2)
    else:
        ids = rng.sample(ANY, rng.randrange(2, 6))
    x = [rng.uniform(0.05, 1) for _ in ids]; s = sum(x); x = [v / s for v in x]
    if kind == 'family':
        while min(x) < 0.02:
            x = [rng.uniform(0.05, 1) for _ in ids]; s = sum(x); x = [v / s for v in x]
    inert = None
    if kind in ('any', 'single') and rng.random() < 0.5: inert = rng.choice(['N2', 'Glucose'])
    return {'kind': kind, 'ids': ids, 'x': x, 'F': round(10 ** rng.uniform(-2, 3), 5), 'inert': inert, 'inert_frac': round(rng.uniform(0.001, 0.02), 5),
            'T': round(rng.uniform(280, 450), 2), 'P': round(10 ** rng.uniform(math.log10(2e4), 6), 1), 'V': round(rng.uniform(0.03, 0.97), 4), 'f': round(rng.uniform(0.05, 0.95), 4) if rng.random() < 0.65 else rng.choice([-0.015, -0.005, 0.002, 0.01, 0.03, 0.97, 0.99, 1.005, 1.015]),
            'k': round(10 ** rng.uniform(-3, 3), 6),
            # the state the stream is in BEFORE each flash: the specified values must be written, not merely kept
            'dT0': rng.choice([0.0, round(rng.uniform(-60, 60), 2), round(rng.uniform(-60, 60), 2)]), 'P0f': rng.choice([1.0, 0.5, 2.0, round(10 ** rng.uniform(-0.5, 0.5), 3)])}


def make(case, th, scale=1.0):
    s = tmo.MultiStream(None, phases=('g', 'l'), T=max(255., case['T'] + case.get('dT0', 0.0)), P=case['P'] * case.get('P0f', 1.0), thermo=th)
    F = case['F'] * scale
    for i, v in zip(case['ids'], case['x']): s.imol['l', i] = v * F
    if case['inert']:
        s.imol['g' if case['inert'] == 'N2' else 'l', case['inert']] = case['inert_frac'] * F
    return s


def vfrac(s, idx):
    g = s.imol['g'].to_array()[idx].sum(); l = s.imol['l'].to_array()[idx].sum()
    return g / (g + l) if g + l else 0.0


def raoult_rr(z, K):
    """Rachford-Rice for ideal K values; returns V in [0,1]."""
    if (z * K).sum() <= 1.0: return 0.0
    if (z / K).sum() <= 1.0: return 1.0
    lo, hi = 0.0, 1.0
    f = lambda V: (z * (K - 1) / (1 + V * (K - 1))).sum()
    for _ in range(200):
        mid = 0.5 * (lo + hi)
        if f(mid) > 0: lo = mid
        else: hi = mid
    return 0.5 * (lo + hi)


REFUSE = ('InfeasibleRegion', 'NoEquilibrium', 'DomainError', 'NotImplementedError')


def run_case(case, rec):
    rec.begin_case(case)
    kind = case['kind']
    ids = list(case['ids']) + ([case['inert']] if case['inert'] else [])
    th = thermo(ids, ideal=(kind == 'ideal'))
    tmo.settings.set_thermo(th)
    chems = th.chemicals
    vidx = [chems.index(i) for i in case['ids']]      # the volatile (equilibrium) chemicals
    T0, P0, V0 = case['T'], case['P'], case['V']
    if case['inert']: rec.hit('with-inerts')
    two_phase = False

    def flash(s, **spec):
        try:
            s.vle(**spec); return True
        except Exception as e:
            if type(e).__name__ in REFUSE: rec.refuse(f'{"".join(sorted(spec))}: {type(e).__name__}'); return False
            # C04 speaks about calculations that return: a raise inside a solver (FloatingPointError in the activity model, 'root could not be solved')
            # is counted, not judged; programming errors in the call path are still reported
            if not isinstance(e, (TypeError, AttributeError, KeyError, IndexError, NameError, UnboundLocalError)):
                rec.refuse(f'{"".join(sorted(spec))}: raised {type(e).__name__}'); return False
            rec.exception('flash', e, what=f'vle({spec}) on {ids} ({kind}) raised {type(e).__name__}: {str(e)[:140]}'); return False

    with warnings.catch_warnings():
        warnings.simplefilter('ignore')
        # ---- TP
        s = make(case, th)
        okTP = flash(s, T=T0, P=P0)
        if okTP:
            rec.check(s.T == T0 and s.P == P0, 'spec-TP', 'TP', f'vle(T={T0}, P={P0}) left T={s.T!r}, P={s.P!r}')
            V_tp = vfrac(s, vidx)
            if kind in ('family',) and not case['inert']:
                z = np.array(case['x']); cs = tuple(chems[i] for i in case['ids'])
                try:
                    Pb = eq.BubblePoint(cs, th).solve_Py(z.copy(), T0)[0]; Pd = eq.DewPoint(cs, th).solve_Px(z.copy(), T0)[0]
                    if P0 >= Pb * (1 + 1e-6): rec.check(V_tp == 0.0, 'phase-boundary', 'above-bubble', f'P={P0} >= P_bubble={Pb!r} at T={T0} but vapour fraction is {V_tp!r} ({ids}, z={z.tolist()})')
                    elif P0 <= Pd * (1 - 1e-6): rec.check(V_tp == 1.0, 'phase-boundary', 'below-dew', f'P={P0} <= P_dew={Pd!r} at T={T0} but vapour fraction is {V_tp!r} ({ids}, z={z.tolist()})')
                    elif Pd * (1 + 1e-4) < P0 < Pb * (1 - 1e-4):
                        rec.check(0.0 < V_tp < 1.0, 'phase-boundary', 'inside', f'P_dew={Pd!r} < P={P0} < P_bubble={Pb!r} at T={T0} but vapour fraction is {V_tp!r} ({ids}, z={z.tolist()})')
                except Exception as e:
                    rec.refuse(f'bubble/dew point unavailable: {type(e).__name__}')
            if 0.0 < V_tp < 1.0:
                two_phase = True
                if kind == 'family':
                    g = s.imol['g'].to_array()[vidx]; l = s.imol['l'].to_array()[vidx]
                    y = g / g.sum(); x = l / l.sum()
                    cs = tuple(chems[i] for i in case['ids'])
                    Psat = np.array([c.Psat(T0) for c in cs])
                    gam = th.Gamma(cs)(x.copy(), T0); phi = th.Phi(cs)(y.copy(), T0, P0); pcf = th.PCF(cs)(T0, P0, Psat)
                    fl = x * gam * Psat * pcf; fg = y * phi * P0
                    dev = float(np.abs(fl - fg).max() / fg.max()) if case['inert'] is None else float((np.abs(fl - fg) / fg).max())
                    dev = float((np.abs(fl - fg) / fg).max())
                    rec.check(dev <= 1e-4, 'iso-fugacity', 'TP', f'liquid and vapour fugacities differ by {dev:.3g} (relative) after vle(T={T0}, P={P0}) on {ids}: f_l={fl.tolist()}, f_g={fg.tolist()}', residual=dev)
            # ---- scaling
            k = case['k']
            s2 = make(case, th, scale=k)
            if flash(s2, T=T0, P=P0):
                a = np.array([r.to_array() for r in s.imol.data.rows]); b = np.array([r.to_array() for r in s2.imol.data.rows])
                F = a.sum()
                rec.check(np.allclose(b, k * a, rtol=0, atol=1e-5 * F * k), 'scaling', 'TP', f'flash of {k}*feed is not {k} times the flash of the feed: max deviation {np.abs(b - k * a).max() / (F * k):.3g} of the feed', residual=float(np.abs(b - k * a).max() / (F * k)))
            # ---- ideal package vs Raoult Rachford-Rice
            if kind == 'ideal' and not case['inert']:
                z = np.array(case['x']); cs = [chems[i] for i in case['ids']]
                K = np.array([c.Psat(T0) for c in cs]) / P0
                V = raoult_rr(z, K)
                F = case['F']
                xl = z / (1 + V * (K - 1)); yv = K * xl
                exp_g = V * F * yv if V > 0 else np.zeros_like(z); exp_l = (1 - V) * F * xl if V < 1 else np.zeros_like(z)
                if V in (0.0, 1.0): exp_g, exp_l = (z * F * V, z * F * (1 - V))
                g = s.imol['g'].to_array()[vidx]; l = s.imol['l'].to_array()[vidx]
                dev = float(max(np.abs(g - exp_g).max(), np.abs(l - exp_l).max()) / F)
                rec.check(dev <= 1e-6, 'raoult-rr', 'TP', f'ideal-package flash differs from the Raoult Rachford-Rice split by {dev:.3g} of the feed (V model {V!r}, V flash {V_tp!r}; {ids}, z={z.tolist()}, T={T0}, P={P0})', residual=dev)
        # ---- single component: T/V and P/V specifications put the stream on the saturation line
        if kind == 'single' and not case['inert']:
            c = chems[case['ids'][0]]
            s = make(case, th)
            if flash(s, T=T0, V=V0):
                rec.check(s.T == T0, 'single-component', 'TV/T', f'single component {c.ID}: vle(T={T0}, V={V0}) left T={s.T!r}')
                Ps = c.Psat(T0)
                rec.check(abs(s.P - Ps) <= 1e-9 * Ps, 'single-component', 'TV/P', f'single component {c.ID}: vle(T={T0}, V={V0}) left P={s.P!r} but Psat(T)={Ps!r}')
                rec.check(abs(vfrac(s, vidx) - V0) <= 1e-9, 'single-component', 'TV/V', f'single component: vapour fraction {vfrac(s, vidx)!r} != {V0}')
            s = make(case, th)
            if flash(s, P=P0, V=V0):
                Ts = c.Tsat(P0, check_validity=False)
                rec.check(s.P == P0 and abs(s.T - Ts) <= 1e-9 * Ts, 'single-component', 'PV', f'single component {c.ID}: vle(P={P0}, V={V0}) left T={s.T!r} (Tsat={Ts!r}), P={s.P!r}')
                rec.check(abs(vfrac(s, vidx) - V0) <= 1e-9, 'single-component', 'PV/V', f'single component: vapour fraction {vfrac(s, vidx)!r} != {V0}')
            rec.mark_nontrivial(case_hash(case))
        # ---- V specifications (families, every x >= 0.02)
        if kind == 'family' and not case['inert']:
            for spec_name, spec in (('PV', {'P': P0, 'V': V0}), ('TV', {'T': T0, 'V': V0})):
                s = make(case, th)
                if not flash(s, **spec): continue
                Vg = vfrac(s, vidx)
                fixed = 'P' if spec_name == 'PV' else 'T'
                # resolution: the search variable is located to T_tol = 5e-8 K (PV) or P_tol = 1 Pa (TV); translate to vapour fraction with the slope across the two-phase window
                vb = 1e-5
                if spec_name == 'TV':
                    pr = make(case, th)
                    if flash(pr, T=T0, V=0.02):
                        pa = pr.P
                        if flash(pr, T=T0, V=0.98): vb = max(1e-5, 10 * 0.96 / max(abs(pa - pr.P), 1e-9) * 1.0)
                rec.check(getattr(s, fixed) == spec[fixed], 'spec-TP', spec_name, f'vle({spec}) left {fixed}={getattr(s, fixed)!r}')
                rec.check(abs(Vg - V0) <= vb, 'vapour-fraction', spec_name, f'vle({spec}) on {ids}: vapour fraction {Vg!r}', residual=abs(Vg - V0))
                # independent flash of a fresh stream at the returned (T, P)
                s3 = make(case, th)
                if flash(s3, T=s.T, P=s.P):
                    V3 = vfrac(s3, vidx)
                    rec.check(abs(V3 - V0) <= 5e-3 + vb, 'independent-reflash', spec_name, f'vle({spec}) returned T={s.T!r}, P={s.P!r}; an independent TP flash there gives vapour fraction {V3!r}, not {V0} ({ids}, z={case["x"]})', residual=abs(V3 - V0))
                two_phase = True
        # ---- x / y specifications (binary equilibrium sets): the fixed variable is written, the named phase has the specified composition
        if len(case['ids']) == 2 and kind != 'single':
            zA = case['x'][0]
            fv = case['f'] if 0 < case['f'] < 1 else 0.5
            v = min(max(zA * (0.6 + 0.8 * fv), 0.01), 0.99)       # near the overall composition, so that the lever rule is often feasible
            for nm in ('Tx', 'Ty', 'Px', 'Py'):
                s = make(case, th)
                fixed = {'T': T0} if nm[0] == 'T' else {'P': P0}
                if not flash(s, **fixed, **{nm[1]: [v, 1 - v]}): continue
                rec.hit('spec-xy')
                rec.check(getattr(s, nm[0]) == fixed[nm[0]], 'spec-TP', nm, f'vle({fixed}, {nm[1]}=[{v}, {1 - v}]) on {ids} left {nm[0]}={getattr(s, nm[0])!r} (the stream started at T={case["T"] + case.get("dT0", 0)}, P={case["P"] * case.get("P0f", 1)})')
                row = s.imol['l' if nm[1] == 'x' else 'g'].to_array()[vidx]
                if row.sum() > 1e-9 * case['F']:
                    got = row[0] / row.sum()
                    rec.check(abs(got - v) <= 1e-4, 'spec-xy', nm, f'vle({fixed}, {nm[1]}=[{v}, ...]) on {ids}: the {"liquid" if nm[1] == "x" else "vapour"} holds a fraction {got!r} of {case["ids"][0]}', residual=abs(got - v))
        # ---- H and S specifications
        if kind != 'single':
            for fixed_name, fixed in (('P', {'P': P0}), ('T', {'T': T0})):
                probe = make(case, th)
                if not flash(probe, V=0.02, **fixed): continue
                Hlo, Slo, Plo, Tlo_ = probe.H, probe.S, probe.P, probe.T
                if not flash(probe, V=0.98, **fixed): continue
                Hhi, Shi, Phi_, Thi_ = probe.H, probe.S, probe.P, probe.T
                # resolution of the T-specified searches: they solve for the pressure to P_tol = 1 Pa without a final correction step,
                # so H (S) is reproduced to |dH/dP| * P_tol; the P-specified searches end with an exact correction of the split
                slopeH = abs(Hhi - Hlo) / max(abs(Plo - Phi_), 1e-9); slopeS = abs(Shi - Slo) / max(abs(Plo - Phi_), 1e-9)
                if Hhi == Hlo or Shi == Slo: rec.refuse('degenerate two-phase window (probe flashes returned the same state)'); continue
                for q, lo, hi in (('H', Hlo, Hhi), ('S', Slo, Shi)):
                    target = lo + case['f'] * (hi - lo)
                    s = make(case, th)
                    if not flash(s, **fixed, **{q: target}): continue
                    got = getattr(s, q)
                    rec.check(getattr(s, fixed_name) == fixed[fixed_name], 'spec-TP', fixed_name + q, f'vle({fixed}, {q}=...) left {fixed_name}={getattr(s, fixed_name)!r}')
                    sfx = ''
                    if fixed_name == 'T':
                        # is the returned pressure the solution at all?  independent TP flash of a fresh stream at (T, P returned)
                        chk = make(case, th)
                        if flash(chk, T=T0, P=s.P):
                            val = getattr(chk, q)
                            ref_b = (10 * slopeH if q == 'H' else 10 * slopeS) + (1e-5 * chk.C if q == 'H' else 5e-3 * abs(Shi - Slo))
                            if abs(val - target) > ref_b: sfx = '/unconverged-pressure'
                            else: sfx = '/stream-not-at-returned-pressure'
                    if q == 'H':
                        C = s.C
                        bound = 1e-5 * C if fixed_name == 'P' else max(1e-5 * C, 10 * slopeH * 1.0)
                        rec.check(abs(got - target) <= bound, 'spec-H', fixed_name + 'H' + sfx, f'vle({fixed}, H={target!r}) on {ids}: stream H = {got!r} (residual {abs(got - target) / C:.3g} K*C)', residual=abs(got - target) / C)
                    else:
                        rng_ = abs(Shi - Slo)
                        sbound = 5e-3 * rng_ if fixed_name == 'P' else max(5e-3 * rng_, 10 * slopeS * 1.0)
                        # the final step of set_PS moves a fraction of one phase into the other assuming the entropy is linear in that fraction; what it
                        # neglects is the entropy of mixing, bounded by R*F*ln(2) for the material moved (R in kJ/kmol/K, F in kmol/hr)
                        if fixed_name == 'P' and sbound < abs(got - target) <= 8.314462618 * s.F_mol * math.log(2.): sfx = '/first-order-correction-error'
                        rec.check(abs(got - target) <= sbound, 'spec-S', fixed_name + 'S' + sfx, f'vle({fixed}, S={target!r}) on {ids}: stream S = {got!r} (residual {abs(got - target) / rng_:.3g} of S_vap - S_liq)', residual=abs(got - target) / rng_)
                    if 0 < vfrac(s, vidx) < 1: two_phase = True
    if two_phase: rec.mark_nontrivial(case_hash(case))


def replay(case, rec):
    run_case(case, rec)


def run(rec, rng, tier, shard, nshards):
    n = 90 if tier == 'quick' else 1500
    for i in range(n):
        case = gen_case(rng)
        try:
            run_case(case, rec)
        except Exception as e:
            rec.exception('harness', e, what=f'harness error: {type(e).__name__}: {e}')
        if i % 23 == 0: rec.sample(case)
