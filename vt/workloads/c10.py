"""C10 — name-keyed flow access equals positional access, independent of lookup history.

Monitor: every read / write through a key on the real indexers is compared with a PositionalIndex model that resolves
names from the chemical list and the group table only (no caches), on a dense copy of the data; lookup floods push
thousands of distinct keys through the bounded caches while an IndexCacheProbe counts evictions.
"""
import itertools, random
import numpy as np
import thermosteam as tmo
from thermosteam.exceptions import UndefinedChemicalAlias, UndefinedPhase
from vt.core import case_hash
from vt.common import sparse_invariant

PID = 'C10'
RULE = ('chemical sets of 1-8 (pool of 16) with 2 user aliases per chemical and 0-3 user groups (mol or wt compositions); single-phase and multi-phase molar indexers, mass indexers, '
        'chemicals.index/indices/get_index; key forms: ID / alias / CAS / formula / common and IUPAC names, tuples and lists in any order, groups, nested tuples mixing chemicals and groups, '
        'ellipsis, phase, (phase, key), (..., key), (phase, ...), lower/upper-case phase letters; histories of reads, write-then-read, cross-package mixing (index_overlap) and floods of '
        '>=700 (quick) / >=3000 (thorough) distinct tuple keys per indexer so that the 100-entry and 500-entry caches are filled and evicted. '
        'non-trivial = key addresses >=2 positions or a group, data has >=2 non-zero entries; distinct = hash of (set, key form, key)')
MIN_NONTRIVIAL = {'quick': 2000, 'thorough': 50000}
ASSUMPTIONS = ['names of a chemical are taken from the Chemical object (ID, CAS, aliases, formula, common_name, iupac_name) with the documented rule that a name claimed by two chemicals of the set is dropped',
               'a lookup summed over phases cannot be written (documented IndexError) and is not judged']
POOL = ('Water', 'Ethanol', 'Methanol', 'Propanol', 'Butanol', 'Glycerol', 'Octane', 'Hexane', 'CO2', 'N2', 'O2', 'AceticAcid', 'Acetone', 'Glucose', 'Benzene', 'Toluene')


def required(tier):
    return ['read', 'write', 'group-write', 'flood', 'evictions:chemicals-cache', 'evictions:material-cache', 'mix-interleaved', 'read:multi-phase', 'names-one-position', 'fresh-twin', 'expand']


class Setup:
    """a brand-new CompiledChemicals (never looked up before) + the positional model tables."""
    def __init__(self, ids, groups):
        chems = tmo.Chemicals(list(ids), cache=True)
        chems.compile()
        for i in ids:
            chems.set_alias(i, i + '_a1'); chems.set_alias(i, 'x_' + i.lower())
        self.chems = chems
        self.thermo = tmo.Thermo(chems)
        self.ids = list(ids)
        # names -> position, from the chemical objects only
        cand = []
        for p, c in enumerate(chems):
            names = {c.ID, c.CAS}
            extra = set(c.aliases) | {c.common_name, c.formula} | set(c.iupac_name if isinstance(c.iupac_name, (tuple, list)) else [c.iupac_name])
            cand.append((names, {n for n in extra if n}))
        counts = {}
        for names, extra in cand:
            for n in names | extra: counts[n] = counts.get(n, 0) + 1
        self.pos = {}
        self.names = []
        for p, (names, extra) in enumerate(cand):
            mine = sorted(n for n in names | extra if counts[n] == 1 or n in names)
            self.names.append(mine)
            for n in mine: self.pos[n] = p
        self.groups = {}
        MW = chems.MW
        for g in groups:
            members = [m for m in g['members'] if m in ids]
            if len(members) < 1: continue
            comp = g.get('comp')
            comp = [comp[g['members'].index(m)] for m in members] if comp else None
            chems.define_group(g['name'], members, comp, wt=g.get('wt', False))
            idx = [self.pos[m] for m in members]
            c = np.ones(len(members)) if comp is None else np.array(comp, float)
            if g.get('wt', False): wt = c; mol = c / MW[idx]
            else: wt = c * MW[idx]; mol = c
            self.groups[g['name']] = {'idx': idx, 'mol': mol / mol.sum(), 'wt': wt / wt.sum()}

    def resolve(self, key):
        """key description -> ('scalar', pos) | ('group', [pos]) | ('array', [pos | [pos]]) | ('all',)"""
        if key == '...': return ('all',)
        if isinstance(key, str):
            if key in self.groups: return ('group', self.groups[key]['idx'])
            return ('scalar', self.pos[key])
        out = []
        for k in key:
            out.append(self.groups[k]['idx'] if k in self.groups else self.pos[k])
        return ('array', out)


def to_key(desc, as_list=False):
    if desc == '...': return ...
    if isinstance(desc, str): return desc
    return list(desc) if as_list else tuple(desc)


def model_read(S, D, key):
    """D: 1-d dense array.  returns python float or ndarray."""
    r = S.resolve(key)
    if r[0] == 'all': return D.copy()
    if r[0] == 'scalar': return D[r[1]]
    if r[0] == 'group': return D[r[1]].sum()
    return np.array([D[i].sum() if isinstance(i, list) else D[i] for i in r[1]])


def same(a, b, rel=1e-12):
    a = np.asarray(a.to_array() if hasattr(a, 'to_array') else a, dtype=float); b = np.asarray(b, dtype=float)
    if a.shape != b.shape: return False
    return bool(np.all(np.abs(a - b) <= rel * np.maximum(np.abs(a), np.abs(b))))


def gen_setdef(rng):
    n = rng.randrange(1, 9)
    ids = rng.sample(POOL, n)
    groups = []
    for g in range(rng.randrange(0, 4)):
        if n < 2: break
        m = rng.sample(ids, rng.randrange(1, min(4, n) + 1))
        # user groups are disjoint here so that nested write keys never address a position twice
        if any(set(m) & set(gg['members']) for gg in groups): continue
        comp = None if rng.random() < 0.4 else [round(rng.uniform(0.1, 2), 3) for _ in m]
        groups.append({'name': f'Grp{g}', 'members': m, 'comp': comp, 'wt': rng.random() < 0.5})
    return ids, groups


def gen_key(rng, S, allow_groups=True, write=False):
    n = len(S.ids)
    r = rng.random()
    gnames = list(S.groups)
    if r < 0.3:
        p = rng.randrange(n); return rng.choice(S.names[p])
    if r < 0.4 and gnames and allow_groups: return rng.choice(gnames)
    if r < 0.45 and not write: return '...'
    k = rng.randrange(1, min(5, n) + 1)
    ps = rng.sample(range(n), k)
    key = []
    used = set()
    for p in ps:
        if p in used: continue
        if gnames and allow_groups and rng.random() < 0.25:
            g = rng.choice(gnames)
            if not (set(S.groups[g]['idx']) & used) and g not in key:
                key.append(g); used |= set(S.groups[g]['idx']); continue
        if p in used: continue
        key.append(rng.choice(S.names[p])); used.add(p)
    return key


def dense_of(indexer):
    return indexer.data.to_array()


class Probe:
    """IndexCacheProbe: counts evictions of a dict cache (entries that disappeared between two looks)."""
    def __init__(self, cache): self.cache = cache; self.keys = set(cache); self.evictions = 0; self.maxlen = len(cache)
    def look(self):
        now = set(self.cache)
        self.evictions += len(self.keys - now)
        self.keys = now; self.maxlen = max(self.maxlen, len(now))


def run_case(case, rec):
    rec.begin_case(case)
    rng = random.Random(case['seed'])
    ids, groups = case['ids'], case['groups']
    try:
        S = Setup(ids, groups)
    except Exception as e:
        rec.exception('setup', e, what=f'compiling chemicals / aliases / groups raised {type(e).__name__}: {e}'); return
    n = len(ids)
    phases = case['phases']
    st = tmo.Stream(None, thermo=S.thermo)
    ms = tmo.MultiStream(None, phases=tuple(phases), thermo=S.thermo)
    D1 = np.zeros(n); D2 = np.zeros((len(ms.phases), n))
    for j in range(n):
        if rng.random() < 0.7: D1[j] = round(10 ** rng.uniform(-2, 3), 4)
        for i in range(len(ms.phases)):
            if rng.random() < 0.6: D2[i, j] = round(10 ** rng.uniform(-2, 3), 4)
    st.imol.data[:] = D1
    for i in range(len(ms.phases)): ms.imol.data.rows[i][:] = D2[i]
    mphases = list(ms.phases)
    p_chem = Probe(S.chems._index_cache); p_mat = Probe(ms.imol._index_cache)
    setsig = (tuple(ids), tuple(g['name'] for g in groups))

    def phase_forms(ph):
        forms = [ph]
        other = ph.upper() if ph.islower() else ph.lower()
        if other not in mphases: forms.append(other)
        return forms

    def check_read_single(key, as_list, clause='read'):
        try:
            got = st.imol[to_key(key, as_list)]
        except Exception as e:
            rec.exception(clause, e, what=f'single-phase read of key {key!r} raised {type(e).__name__}: {str(e)[:150]}'); return False
        exp = model_read(S, D1, key)
        form = 'ellipsis' if key == '...' else ('str' if isinstance(key, str) else ('list' if as_list else 'tuple'))
        ok = rec.check(same(got, exp), clause, f'single-phase/{form}', f'imol[{key!r}] = {np.asarray(got.to_array() if hasattr(got, "to_array") else got).tolist()} but positional model gives {np.asarray(exp).tolist()}')
        r = S.resolve(key)
        if (r[0] in ('group', 'array')) and (D1 != 0).sum() >= 2: rec.mark_nontrivial(case_hash((setsig, 'S', form, key if isinstance(key, str) else tuple(key))))
        return ok

    def check_read_multi(key, as_list, mode, ph, clause='read'):
        k = to_key(key, as_list)
        try:
            if mode == 'sum': got = ms.imol[k]; exp = model_read(S, D2.sum(0), key)
            elif mode == 'phase': got = ms.imol[ph, k]; exp = model_read(S, D2[mphases.index(ph.lower() if ph.lower() in mphases and ph not in mphases else (ph if ph in mphases else ph.upper()))], key)
            elif mode == 'allphases':
                got = ms.imol[..., k]
                exp = D2.copy() if key == '...' else np.array([model_read(S, D2[i], key) for i in range(len(mphases))])
            elif mode == 'phase-only':
                got = ms.imol[ph]; exp = D2[mphases.index(ph.lower() if ph.lower() in mphases and ph not in mphases else (ph if ph in mphases else ph.upper()))]
        except Exception as e:
            rec.exception(clause, e, what=f'multi-phase read mode={mode} phase={ph!r} key={key!r} raised {type(e).__name__}: {str(e)[:150]}'); return False
        form = 'ellipsis' if key == '...' else ('str' if isinstance(key, str) else ('list' if as_list else 'tuple'))
        if hasattr(got, 'to_array'): gota = got.to_array()
        else: gota = got
        ok = rec.check(same(gota, exp), clause, f'multi-phase/{mode}/{form}', f'imol[{mode}:{ph!r},{key!r}] = {np.asarray(gota).tolist()} but positional model gives {np.asarray(exp).tolist()}')
        rec.hit('read:multi-phase')
        rec.mark_nontrivial(case_hash((setsig, 'M', mode, form, key if isinstance(key, str) else tuple(key))))
        return ok

    def realphase(ph):
        if ph in mphases: return mphases.index(ph)
        return mphases.index(ph.lower() if ph.isupper() else ph.upper())

    for op in case['ops']:
        t = op['t']
        if t == 'reads':
            for _ in range(op['n']):
                key = gen_key(rng, S); as_list = rng.random() < 0.3 and not isinstance(key, str)
                if rng.random() < 0.5: check_read_single(key, as_list)
                else:
                    mode = rng.choice(['sum', 'phase', 'phase', 'allphases', 'phase-only'])
                    ph = rng.choice(phase_forms(rng.choice(mphases)))
                    check_read_multi(key, as_list, mode, ph)
                p_chem.look(); p_mat.look()
        elif t == 'names':
            # every name of a chemical resolves to the same single position, through every entry point
            for p in range(n):
                for name in S.names[p]:
                    try:
                        a = S.chems.index(name); b = S.chems.indices([name])[0]; c = S.chems.get_index(name)
                        v = st.imol[name]
                    except Exception as e:
                        rec.exception('names-one-position', e, what=f'name {name!r} of {ids[p]} raised {type(e).__name__}: {str(e)[:120]}'); continue
                    rec.check(a == p and b == p and c == p and v == D1[p], 'names-one-position', 'index', f'name {name!r} of {ids[p]} resolves to {a}/{b}/{c}, value {v}, expected position {p}')
        elif t == 'writes':
            for _ in range(op['n']):
                key = gen_key(rng, S, write=True); as_list = rng.random() < 0.3 and not isinstance(key, str)
                r = S.resolve(key)
                which = rng.choice(['S', 'M-phase', 'M-all', 'Smass'])
                try:
                    if r[0] == 'scalar': val = round(10 ** rng.uniform(-2, 3), 4) if rng.random() < 0.85 else 0.0
                    elif r[0] == 'group':
                        val = round(10 ** rng.uniform(-2, 3), 4) if rng.random() < 0.6 else [round(10 ** rng.uniform(-2, 3), 4) for _ in r[1]]
                    else:
                        if any(isinstance(i, list) for i in r[1]) and rng.random() < 0.5: val = round(10 ** rng.uniform(-2, 3), 4)
                        elif rng.random() < 0.2: val = round(10 ** rng.uniform(-2, 3), 4)
                        else: val = [round(10 ** rng.uniform(-2, 3), 4) if rng.random() < 0.9 else 0.0 for _ in r[1]]
                    # model: expand to positions
                    def expand(val, basis):
                        out = {}
                        if r[0] == 'scalar': out[r[1]] = val
                        elif r[0] == 'group':
                            comp = S.groups[key][basis]
                            vals = (val * comp) if not isinstance(val, list) else val
                            for i, v in zip(r[1], vals): out[i] = v
                        else:
                            for m, i in enumerate(r[1]):
                                v = val if not isinstance(val, list) else val[m]
                                if isinstance(i, list):
                                    comp = S.groups[key[m]][basis]
                                    for ii, vv in zip(i, v * comp): out[ii] = vv
                                else: out[i] = v
                        return out
                    k = to_key(key, as_list)
                    if which == 'S':
                        before = D1.copy(); st.imol[k] = val
                        for i, v in expand(val, 'mol').items(): D1[i] = v
                        got = dense_of(st.imol); exp = D1
                        back = st.imol[k]; eback = model_read(S, D1, key)
                    elif which == 'Smass':
                        MW = S.chems.MW
                        st.imass[k] = val
                        for i, v in expand(val, 'wt').items(): D1[i] = v / MW[i]
                        got = dense_of(st.imol); exp = D1
                        back = st.imass[k]; eback = model_read(S, D1 * MW, key)
                    elif which == 'M-phase':
                        ph = rng.choice(phase_forms(rng.choice(mphases))); row = realphase(ph)
                        ms.imol[ph, k] = val
                        for i, v in expand(val, 'mol').items(): D2[row, i] = v
                        got = dense_of(ms.imol); exp = D2
                        back = ms.imol[ph, k]; eback = model_read(S, D2[row], key)
                    else:
                        ms.imol[..., k] = val
                        for i, v in expand(val, 'mol').items(): D2[:, i] = v
                        got = dense_of(ms.imol); exp = D2
                        back = ms.imol[..., k]; eback = np.array([model_read(S, D2[i], key) for i in range(len(mphases))])
                except Exception as e:
                    rec.exception('write', e, what=f'write {which} key={key!r} value={val!r} raised {type(e).__name__}: {str(e)[:150]}')
                    # resynchronise the model with the real data
                    D1[:] = dense_of(st.imol); D2[:] = dense_of(ms.imol); continue
                clause = 'group-write' if (r[0] == 'group' or (r[0] == 'array' and any(isinstance(i, list) for i in r[1]))) else 'write'
                form = ('str' if isinstance(key, str) else ('list' if as_list else 'tuple')) + ('/scalar-value' if not isinstance(val, list) else '/array-value')
                okd = rec.check(same(got, exp, rel=1e-11), clause, f'{which}/data/{form}', f'after {which} write of {val!r} at {key!r}: data {np.asarray(got).tolist()} but model {np.asarray(exp).tolist()}')
                rec.check(same(back, eback, rel=1e-11), clause, f'{which}/read-back/{form}', f'after {which} write of {val!r} at {key!r}: read-back {np.asarray(back).tolist()} expected {np.asarray(eback).tolist()}')
                if not okd: D1[:] = dense_of(st.imol); D2[:] = dense_of(ms.imol)
                e = sparse_invariant(st.imol.data) or sparse_invariant(ms.imol.data)
                rec.check(e is None, 'invariant', which, f'sparse invariant after write: {e}')
                p_chem.look(); p_mat.look()
                if r[0] != 'scalar': rec.mark_nontrivial(case_hash((setsig, 'W', which, form, key if isinstance(key, str) else tuple(key))))
        elif t == 'flood':
            # many distinct tuple keys (permutations of names): fills and evicts the bounded caches; each is checked
            cnt = 0
            target = st if op['tgt'] == 'S' else ms
            namepool = [nm for p in range(n) for nm in S.names[p][:4]]
            size = 2
            while cnt < op['n'] and size <= min(4, n):
                for combo in itertools.permutations(range(n), size):
                    for choice in range(3):
                        key = [S.names[p][(choice + 7 * p) % len(S.names[p])] for p in combo]
                        if op['tgt'] == 'S': ok = check_read_single(key, False, 'flood')
                        else: ok = check_read_multi(key, False, rng.choice(['sum', 'phase', 'allphases']), rng.choice(mphases), 'flood')
                        cnt += 1
                        p_chem.look(); p_mat.look()
                        if cnt >= op['n']: break
                    if cnt >= op['n']: break
                size += 1
            # and repeat an early key after the flood: the result must not depend on what was looked up in between
            if n >= 2:
                key = [S.names[0][0], S.names[1][0]]
                check_read_single(key, False, 'flood'); check_read_multi(key, False, 'phase', mphases[0], 'flood')
        elif t == 'mix':
            # cross-package mixing writes CAS tuples into the same lookup cache (index_overlap)
            sub = [i for i in ids if rng.random() < 0.6] or [ids[0]]
            rng.shuffle(sub)
            oth = tmo.Stream(None, thermo=tmo.Thermo(tmo.Chemicals(sub, cache=True)))
            vals = {}
            for i in sub:
                if rng.random() < 0.8: v = round(10 ** rng.uniform(-1, 2), 3); oth.imol[i] = v; vals[i] = v
            try:
                st.mix_from([st, oth], energy_balance=False)
                for i, v in vals.items(): D1[S.pos[i]] += v
                rec.check(same(dense_of(st.imol), D1, rel=1e-12), 'mix-interleaved', 'data', f'after cross-package mixing data {dense_of(st.imol).tolist()} but model {D1.tolist()}')
                cas = tuple(S.chems[i].CAS for i in sub)
                check_read_single(list(cas), False, 'mix-interleaved')
                if len(cas) >= 1:
                    st.imol[cas] = [D1[S.pos[i]] for i in sub]     # write through the same CAS tuple
                    rec.check(same(dense_of(st.imol), D1, rel=1e-12), 'mix-interleaved', 'write-by-CAS-tuple', 'writing current values back through the CAS tuple changed the data')
            except Exception as e:
                rec.exception('mix-interleaved', e, what=f'cross-package mixing / lookup by CAS tuple raised {type(e).__name__}: {str(e)[:150]}')
                D1[:] = dense_of(st.imol)
            p_chem.look(); p_mat.look()
        elif t == 'expand':
            # in-place phase expansion of the multi-phase indexer (mixing in a stream whose phase it lacks): rows are re-ordered,
            # so every phase-keyed lookup made before must be re-resolved
            cand = [q for q in 'gslSL' if q not in mphases]
            if not cand: continue
            ph = rng.choice(cand)
            oth = tmo.Stream(None, phase=ph, thermo=S.thermo)
            vals = {}
            for i in ids:
                if rng.random() < 0.7: v = round(10 ** rng.uniform(-1, 2), 3); oth.imol[i] = v; vals[i] = v
            if not vals: oth.imol[ids[0]] = 1.5; vals[ids[0]] = 1.5
            old = {q: D2[k].copy() for k, q in enumerate(mphases)}
            try:
                ms.mix_from([ms, oth], energy_balance=False)
            except Exception as e:
                rec.exception('expand', e, what=f'mixing a {ph!r} stream into phases {mphases} raised {type(e).__name__}: {str(e)[:120]}'); continue
            newph = list(ms.phases)
            lab = ph if ph in newph else (ph.lower() if ph.isupper() else ph.upper())
            D2 = np.zeros((len(newph), n))
            for q, row in old.items(): D2[newph.index(q)] = row
            for i, v in vals.items(): D2[newph.index(lab), S.pos[i]] += v
            mphases = newph
            p_mat = Probe(ms.imol._index_cache)
            rec.check(same(dense_of(ms.imol), D2, rel=1e-12), 'expand', 'data', f'after mixing a {ph!r} stream into a multi-phase stream the data is {dense_of(ms.imol).tolist()} but the model gives {D2.tolist()}')
            rec.hit('expand')
            # phase-keyed reads (previously cached keys included) and a write-then-read
            for q in mphases:
                for key in (ids[0], list(ids[:2]) if n >= 2 else ids[0], '...'):
                    check_read_multi(key, False, 'phase', q, 'expand')
            q = rng.choice(mphases); i = rng.choice(ids); v = round(10 ** rng.uniform(-1, 2), 3)
            try:
                ms.imol[q, i] = v; D2[mphases.index(q), S.pos[i]] = v
                rec.check(same(dense_of(ms.imol), D2, rel=1e-12), 'expand', 'write-after-expansion', f'after expansion, imol[{q!r},{i!r}] = {v} changed other entries: {dense_of(ms.imol).tolist()} vs model {D2.tolist()}')
            except Exception as e:
                rec.exception('expand', e, what=f'write after expansion raised {type(e).__name__}: {str(e)[:120]}'); D2[:] = dense_of(ms.imol)
        elif t == 'twin':
            # brand-new compiled chemicals and indexers that have seen no other key
            T = Setup(ids, groups)
            tst = tmo.Stream(None, thermo=T.thermo); tst.imol.data[:] = D1
            tms = tmo.MultiStream(None, phases=tuple(mphases), thermo=T.thermo)
            for i, q in enumerate(tms.phases): tms.imol.data.rows[i][:] = D2[mphases.index(q)]
            for _ in range(op['n']):
                key = gen_key(rng, S); k = to_key(key)
                try:
                    a = st.imol[k]; b = tst.imol[k]
                    ph = rng.choice(mphases)
                    c = ms.imol[ph, k]; d = tms.imol[ph, k]
                except Exception as e:
                    rec.exception('fresh-twin', e, what=f'twin lookup of {key!r} raised {type(e).__name__}: {str(e)[:150]}'); continue
                rec.check(same(a, b, rel=0) and same(c, d, rel=0), 'fresh-twin', 'differs', f'lookup {key!r} on the used indexer differs from a brand-new one: {a} vs {b}; {c} vs {d}')
    rec.hit('evictions:chemicals-cache', p_chem.evictions)
    rec.hit('evictions:material-cache', p_mat.evictions)
    rec.notes.setdefault('max_cache_len_seen', {})
    rec.notes['max_cache_len_seen'] = {'chemicals._index_cache': max(p_chem.maxlen, rec.notes['max_cache_len_seen'].get('chemicals._index_cache', 0)),
                                       'MaterialIndexer._index_cache': max(p_mat.maxlen, rec.notes['max_cache_len_seen'].get('MaterialIndexer._index_cache', 0))}


def gen_case(rng, tier, big):
    ids, groups = gen_setdef(rng)
    phases = rng.choice(['lg', 'lgs', 'lL', 'gls', 'sl', 'glLs'])
    ops = [{'t': 'names'}]
    for _ in range(rng.randrange(3, 8)):
        t = rng.choices(['reads', 'writes', 'mix', 'twin', 'expand'], [4, 4, 2, 1, 1.5])[0]
        ops.append({'t': t, 'n': rng.randrange(3, 25)} if t not in ('mix', 'expand') else {'t': t})
    if big and len(ids) >= 5:
        nflood = 700 if tier == 'quick' else 3000
        ops.insert(rng.randrange(1, len(ops)), {'t': 'flood', 'tgt': 'S', 'n': nflood})
        ops.insert(rng.randrange(1, len(ops)), {'t': 'flood', 'tgt': 'M', 'n': nflood})
        ops.append({'t': 'reads', 'n': 20}); ops.append({'t': 'twin', 'n': 10})
    return {'ids': ids, 'groups': groups, 'phases': phases, 'ops': ops, 'seed': rng.randrange(2 ** 31)}


def replay(case, rec):
    run_case(case, rec)


def run(rec, rng, tier, shard, nshards):
    n = 300 if tier == 'quick' else 2500
    for i in range(n):
        case = gen_case(rng, tier, big=(i % 10 == 0))
        try:
            run_case(case, rec)
        except Exception as e:
            rec.exception('harness', e, what=f'harness error: {type(e).__name__}: {e}')
        if i % 37 == 0: rec.sample({k: (v if k != 'ops' else v[:6]) for k, v in case.items()})
