"""C10 — name-keyed flow access equals positional access, independent of lookup history.

Monitor: every read / write through a key on the real indexers is compared with a PositionalIndex model that resolves
names from the chemical list and the group table only (no caches), on a dense copy of the data; lookup floods push
thousands of distinct keys through the bounded caches while an IndexCacheProbe counts evictions.
"""
import itertools, pickle, random
import numpy as np
import thermosteam as tmo
from thermosteam.exceptions import UndefinedChemicalAlias, UndefinedPhase
from vt.core import case_hash, exc_key
from vt.common import sparse_invariant

PID = 'C10'
RULE = ('chemical sets of 1-8 (pool of 16) with 2 user aliases per chemical and 0-3 user groups (mol or wt compositions); single-phase and multi-phase molar indexers, mass indexers, '
        'chemicals.index/indices/get_index; key forms: ID / alias / CAS / formula / common and IUPAC names, tuples and lists in any order, groups, nested tuples mixing chemicals and groups, '
        'ellipsis, phase, (phase, key), (..., key), (phase, ...), lower/upper-case phase letters; histories of reads, write-then-read, cross-package mixing (index_overlap) and floods of '
        '>=700 (quick) / >=3000 (thorough) distinct tuple keys per indexer so that the 100-entry and 500-entry caches are filled and evicted. '
        'Added: SplitIndexer (isplit / kwsplit / split) read and written by every key form; ellipsis and phase-only writes (imol[...], imol[phase], imol[phase, ...], imol[..., ...]) with scalar / list / ndarray / '
        'sparse-row values; scalar zero written to groups, tuples and nested keys; multi-phase mass indexer writes, volumetric indexers (read, write by names; group write is a documented refusal), '
        'get_flow / set_flow / get_data / set_data; aliases and groups defined in the middle of a history (caches warm) and alias clashes (rejected, tables unchanged); read keys with repeated chemicals and '
        'overlapping groups; further entry points (get_index, available_indices, chemicals[name], in, kwarray/array/iarray, ms[phase].imol, get_phase, to_material_indexer); undefined names / phases '
        'interleaved in the history; single-phase MultiStream; size-1 sets with a group. '
        'Added (sibling sets): 4 further chemical sets per case over the same chemicals - unpickled / compiled from copied chemical objects (own chemical objects), compiled again in the same order, '
        'in another order, with one chemical more or less - each defining the same group names with other members / compositions (or not at all) and one alias that names another chemical; the same '
        'key (mostly containing a contested name) is read or written through every set in random order via MultiStream.imol[phase, key] / [key] / [..., key], imass, a second MultiStream on another '
        'phase set, Stream.imol / imass, a brand-new MolarFlowIndexer.from_data, isplit, get_index, and the primary flows re-based onto the sibling (indexer.reset_chemicals, Stream.copy(thermo=)); every set '
        'is judged against its own tables; keys undefined in a set are documented refusals. Added (regroup): a group name defined again with other members while the caches hold it, read / written, then restored. '
        'Strengthened oracles: a key that a sibling set does not define must raise UndefinedChemicalAlias there (an answer, or another exception, is a violation: sibling-set/<set>/<access>/undefined-accepted | '
        'undefined-wrong-exception); undefined names / phases inside a history must raise the documented exception of their key form (bad-key/accepted/<form>, bad-key/wrong-exception/<form>); the read operations '
        'ivol[key], get_flow, get_data must leave the flow data bit-identical (<clause>/<op>/source-untouched) and the model is never brought in line with what a read left behind; a scalar volumetric write to a group key '
        'must be refused with the documented AttributeError (vol/group-write-accepted/<kind>/<form>) and must not touch entries outside the key; the two aliases Setup defines per chemical are part of the vocabulary from the '
        "harness's own list and are asserted right after every compile (names-one-position/setup-alias/<set>). "
        'Added (shared names): chemical sets in which two or three chemicals claim the same name - isomers of the database (one formula), a chemical copied under a new ID (keeps the formula), user-defined chemicals '
        'given the same alias / common name / IUPAC name / formula at construction, a user alias that is the formula / common / IUPAC name of a database chemical of the set. About one case in five has 2-3 isomers in its '
        "primary set (so every operation of the history runs on such a set), and 0-2 'shared' operations per case build a dedicated set and compile it as given / in the opposite order / without all but one claimant / "
        'through the CompiledChemicals constructor / unpickled, in random order. Oracles: a name claimed by several chemicals (and owned by none as ID / CAS) is a name of no single position, so each of 36 entry points '
        '(chemicals.index / indices / get_index / [name] / attribute / available_indices, single- and multi-phase molar and mass reads and writes by name / tuple / list / (phase, name) / (..., name), get_flow / set_flow / '
        'get_data, brand-new indexers, phase proxies, isplit / kwsplit / kwarray / array / ikwarray, Stream(**{name: flow}), define_group with it as a member) must refuse it with UndefinedChemicalAlias '
        '(names-one-position/shared-name/<source>/<entry>/answered | wrong-exception) and leave the data untouched (.../data-untouched); every name claimed by one chemical only resolves to it in every such set '
        '(names-one-position/shared-set/<set>/index), also after the other claimants were removed; the same keys are read / written through all these sets in interleaved order (sibling-set/shared-*/...); a group may take '
        'the shared name; group definitions that are refused (undefined / shared member, composition of the wrong length) leave names and groups as they were (rejected-definition/<what>/...). '
        'non-trivial = key addresses >=2 positions or a group, data has >=2 non-zero entries; distinct = hash of (set, key form, key)')
MIN_NONTRIVIAL = {'quick': 2000, 'thorough': 50000}
ASSUMPTIONS = ['names of a chemical are taken from the Chemical object (ID, CAS, aliases, formula, common_name, iupac_name) with the documented rule that a name claimed by two chemicals of the set is dropped',
               'a lookup summed over phases cannot be written (documented IndexError) and is not judged',
               'a name that a compiled set does not define (not an ID, CAS, alias, unambiguous formula / common / IUPAC name or group of that set) is documented to raise UndefinedChemicalAlias, a single letter that is no phase of the indexer UndefinedPhase',
               'a name claimed by two or more chemicals of a set and owned by none of them as ID / CAS is not a name of that set (documented: repeated names cannot be used as aliases): every lookup / write through it raises '
               'UndefinedChemicalAlias, which is counted and not judged further; an alias given at construction that is the ID / CAS of another chemical of the set makes compile raise ValueError (alias already in use): a documented refusal',
               'a scalar volumetric flow written to a group is a documented refusal (AttributeError: cannot set groups by volumetric flow); whether the plain chemicals of a nested key listed before the group were already written when it is raised is not judged']
POOL = ('Water', 'Ethanol', 'Methanol', 'Propanol', 'Butanol', 'Glycerol', 'Octane', 'Hexane', 'CO2', 'N2', 'O2', 'AceticAcid', 'Acetone', 'Glucose', 'Benzene', 'Toluene')


def required(tier):
    return ['read', 'write', 'group-write', 'flood', 'evictions:chemicals-cache', 'evictions:material-cache', 'mix-interleaved', 'read:multi-phase', 'names-one-position', 'fresh-twin', 'expand',
            'split', 'split:group-write', 'ellipsis-write', 'ellipsis-write:S', 'ellipsis-write:M-phase-only', 'ellipsis-write:M-phase-ellipsis', 'ellipsis-write:M-all-ellipsis', 'value:ndarray', 'value:sparse',
            'write:zero-to-group', 'write:Mmass', 'vol', 'vol:write', 'unit-access', 'late-alias', 'late-group', 'alias-clash', 'read:overlap', 'entry-points', 'bad-key', 'bad-key:then-read',
            'single-phase-multistream', 'size-1-set-with-group',
            'sibling', 'sibling:recompiled', 'sibling:copied', 'sibling:pickled', 'sibling:permuted', 'sibling:extended', 'sibling:primary', 'sibling:contested-group', 'sibling:contested-alias',
            'sibling:write', 'sibling:other-phase-set', 'sibling:raw-indexer', 'sibling:rebased', 'sibling:undefined-here', 'regroup',
            # strengthened oracles: undefined keys judged per form, reads that must leave their source untouched, the volumetric group write refusal, the aliases of Setup
            'sibling:undefined-here:M-phase', 'sibling:undefined-here:M-sum', 'sibling:undefined-here:S', 'sibling:undefined-here:raw', 'sibling:undefined-here:split', 'sibling:undefined-here:get_index',
            'flows:read-source-untouched', 'vol:group-write-refused', 'vol:group-write-refused:group', 'vol:group-write-refused:nested',
            'setup-alias:primary', 'setup-alias:twin', 'setup-alias:recompiled', 'setup-alias:extended'] + ['bad-key:' + f_ for f_ in BAD_KEY_FORMS] + [
            # added: sets in which two or three chemicals claim the same name (every source of the name, every way the set is compiled, the primary set with isomers)
            'shared', 'shared-name>=500', 'shared-name:formula>=100', 'shared-name:alias>=50', 'shared-name:common_name>=30', 'shared-name:iupac_name>=30', 'shared-name:mixed>=30',
            'shared-name:three-claimants>=50', 'shared-name:every-chemical-claims', 'shared-name:primary>=20', 'shared-name:primary-mid-history', 'shared-name:siblings',
            'shared-name:set:primary', 'shared-name:set:permuted', 'shared-name:set:shared-base>=100', 'shared-name:set:shared-permuted>=100', 'shared-name:set:shared-without',
            'shared-name:set:shared-constructor', 'shared-name:set:shared-pickled', 'shared:unique-after-removal>=50', 'shared:group-takes-name', 'shared:compile-refused', 'shared:built-by-append',
            'sibling:shared-base', 'sibling:shared-permuted', 'sibling:shared-without', 'sibling:undefined-here:shared-name>=100',
            'rejected-definition', 'rejected-definition:shared-member', 'rejected-definition:undefined-member', 'rejected-definition:composition-length']


class Setup:
    """a brand-new CompiledChemicals (never looked up before) + the positional model tables."""
    def __init__(self, ids, groups):
        chems = tmo.Chemicals(list(ids), cache=True)
        chems.compile()
        for i in ids:
            chems.set_alias(i, i + '_a1'); chems.set_alias(i, 'x_' + i.lower())
        self.chems = chems
        self.thermo = tmo.Thermo(chems)
        self.ids = list(ids)
        # the two aliases given above, from the harness's own list (not read back from the alias table that set_alias maintains): they are part of the
        # vocabulary whatever set_alias did, so a set_alias that silently does nothing is seen by every oracle that uses a name
        self.own_aliases = {i: (i + '_a1', 'x_' + i.lower()) for i in ids}
        # names -> position, from the chemical objects only
        cand = []
        for p, c in enumerate(chems):
            names = {c.ID, c.CAS}
            extra = set(c.aliases) | {c.common_name, c.formula} | set(c.iupac_name if isinstance(c.iupac_name, (tuple, list)) else [c.iupac_name]) | set(self.own_aliases[ids[p]])
            cand.append((names, {n for n in extra if n}))
        counts = {}
        for names, extra in cand:
            for n in names | extra: counts[n] = counts.get(n, 0) + 1
        self.pos = {}
        self.names = []
        for p, (names, extra) in enumerate(cand):
            mine = sorted(n for n in names | extra if counts[n] == 1 or n in names)
            self.names.append(mine)
            for n in mine: self.pos[n] = p
        self.groups = {}
        MW = chems.MW
        for g in groups:
            members = [m for m in g['members'] if m in ids]
            if len(members) < 1: continue
            comp = g.get('comp')
            comp = [comp[g['members'].index(m)] for m in members] if comp else None
            chems.define_group(g['name'], members, comp, wt=g.get('wt', False))
            idx = [self.pos[m] for m in members]
            c = np.ones(len(members)) if comp is None else np.array(comp, float)
            if g.get('wt', False): wt = c; mol = c / MW[idx]
            else: wt = c * MW[idx]; mol = c
            self.groups[g['name']] = {'idx': idx, 'mol': mol / mol.sum(), 'wt': wt / wt.sum()}
        # added: the names claimed by two or more chemicals of the set (isomers share their formula ...): they are names of no single position
        self.contested = claim_tables(chems, [self.own_aliases[i] for i in ids])

    def check_own_aliases(self, rec, kind):
        """(strengthened) the aliases Setup defined resolve to the position of their chemical - asserted from the harness's own list, through chemicals.index (a plain
        table lookup: it neither reads nor fills a lookup cache, so the 'never looked up before' state of a new set is kept)."""
        for p, i in enumerate(self.ids):
            for al in self.own_aliases[i]:
                try: a = self.chems.index(al)
                except UndefinedChemicalAlias: a = None
                except Exception as e:
                    rec.exception('names-one-position', e, what=f'chemicals.index({al!r}) (alias of {i} defined right after compiling the {kind} set) raised {type(e).__name__}: {str(e)[:120]}'); continue
                rec.check(a == p and self.pos.get(al) == p, 'names-one-position', f'setup-alias/{kind}', f'alias {al!r} defined for {i!r} (position {p}) right after compiling the {kind} set resolves to {a!r}' + (' (UndefinedChemicalAlias)' if a is None else ''))
        rec.hit('setup-alias'); rec.hit('setup-alias:' + kind)

    def add_alias(self, ID, alias):
        """define an alias now (caches may be warm) and record it in the positional model."""
        self.chems.set_alias(ID, alias)
        p = self.pos[ID]
        if alias not in self.pos:
            self.pos[alias] = p; self.names[p] = sorted(set(self.names[p]) | {alias})
        self.contested.pop(alias, None)

    def add_group(self, g):
        members = list(g['members']); comp = g.get('comp')
        self.chems.define_group(g['name'], members, comp, wt=g.get('wt', False))
        MW = self.chems.MW
        idx = [self.pos[m] for m in members]
        c = np.ones(len(members)) if comp is None else np.array(comp, float)
        if g.get('wt', False): wt = c; mol = c / MW[idx]
        else: wt = c * MW[idx]; mol = c
        self.groups[g['name']] = {'idx': idx, 'mol': mol / mol.sum(), 'wt': wt / wt.sum()}
        self.contested.pop(g['name'], None)          # a group may take a name that no single chemical could keep

    def resolve(self, key):
        """key description -> ('scalar', pos) | ('group', [pos]) | ('array', [pos | [pos]]) | ('all',)"""
        if key == '...': return ('all',)
        if isinstance(key, str):
            if key in self.groups: return ('group', self.groups[key]['idx'])
            return ('scalar', self.pos[key])
        out = []
        for k in key:
            out.append(self.groups[k]['idx'] if k in self.groups else self.pos[k])
        return ('array', out)


def to_key(desc, as_list=False):
    if desc == '...': return ...
    if isinstance(desc, str): return desc
    return list(desc) if as_list else tuple(desc)


def model_read(S, D, key):
    """D: 1-d dense array.  returns python float or ndarray."""
    r = S.resolve(key)
    if r[0] == 'all': return D.copy()
    if r[0] == 'scalar': return D[r[1]]
    if r[0] == 'group': return D[r[1]].sum()
    return np.array([D[i].sum() if isinstance(i, list) else D[i] for i in r[1]])


def same(a, b, rel=1e-12):
    a = np.asarray(a.to_array() if hasattr(a, 'to_array') else a, dtype=float); b = np.asarray(b, dtype=float)
    if a.shape != b.shape: return False
    return bool(np.all(np.abs(a - b) <= rel * np.maximum(np.abs(a), np.abs(b))))


def gen_setdef(rng):
    n = rng.randrange(1, 9)
    ids = rng.sample(POOL, n)
    groups = []
    for g in range(rng.randrange(0, 4)):
        if n < 2 and (g > 0 or rng.random() < 0.5): break
        m = rng.sample(ids, rng.randrange(1, min(4, n) + 1))
        # user groups are disjoint here so that nested write keys never address a position twice
        if any(set(m) & set(gg['members']) for gg in groups): continue
        comp = None if rng.random() < 0.4 else [round(rng.uniform(0.1, 2), 3) for _ in m]
        groups.append({'name': f'Grp{g}', 'members': m, 'comp': comp, 'wt': rng.random() < 0.5})
    return ids, groups


def gen_key(rng, S, allow_groups=True, write=False):
    n = len(S.ids)
    r = rng.random()
    gnames = list(S.groups)
    if r < 0.3:
        p = rng.randrange(n); return rng.choice(S.names[p])
    if r < 0.4 and gnames and allow_groups: return rng.choice(gnames)
    if r < 0.45 and not write: return '...'
    k = rng.randrange(1, min(5, n) + 1)
    ps = rng.sample(range(n), k)
    key = []
    used = set()
    for p in ps:
        if p in used: continue
        if gnames and allow_groups and rng.random() < 0.25:
            g = rng.choice(gnames)
            if not (set(S.groups[g]['idx']) & used) and g not in key:
                key.append(g); used |= set(S.groups[g]['idx']); continue
        if p in used: continue
        key.append(rng.choice(S.names[p])); used.add(p)
    return key


BAD_KEY_FORMS = ['S-name', 'S-tuple', 'M-name', 'M-phase-name', 'M-bad-phase', 'M-bad-phase-only', 'S-write', 'chemicals.index']
# the documented refusal of every form of an undefined key: an undefined name is UndefinedChemicalAlias; a single letter that is no phase of the indexer is
# UndefinedPhase (a bare single letter alone is first tried as a chemical name, so either is the documented answer there)
BAD_KEY_DOCUMENTED = {f_: (UndefinedChemicalAlias,) for f_ in BAD_KEY_FORMS}
BAD_KEY_DOCUMENTED['M-bad-phase'] = (UndefinedPhase,)          # the chemical part of the key is valid: only the phase is undefined
BAD_KEY_DOCUMENTED['M-bad-phase-only'] = (UndefinedPhase, UndefinedChemicalAlias)


def show(x):
    """a value the library returned, for a witness text (never raises: the value may be ragged, a slice, a sparse vector ...)."""
    try:
        if hasattr(x, 'to_array'): x = x.to_array()
        return repr(x.tolist() if isinstance(x, np.ndarray) else x)[:400]
    except Exception:
        try: return repr(x)[:400]
        except Exception: return f'<{type(x).__name__}>'


def dense_of(indexer):
    return indexer.data.to_array()


class Probe:
    """IndexCacheProbe: counts evictions of a dict cache (entries that disappeared between two looks)."""
    def __init__(self, cache): self.cache = cache; self.keys = set(cache); self.evictions = 0; self.maxlen = len(cache)
    def look(self):
        now = set(self.cache)
        self.evictions += len(self.keys - now)
        self.keys = now; self.maxlen = max(self.maxlen, len(now))


# ---------------------------------------------------------------------------------------------------------------------
# added: sibling chemical sets (several separately compiled sets over the same chemicals, each with its own groups and
# aliases) whose indexers are read and written through the same keys in interleaved order

def name_tables(chems):
    """names -> position of an already compiled set, from the chemical objects only (the rule of Setup.__init__)."""
    cand = []
    for c in chems:
        names = {c.ID, c.CAS}
        extra = set(c.aliases) | {c.common_name, c.formula} | set(c.iupac_name if isinstance(c.iupac_name, (tuple, list)) else [c.iupac_name])
        cand.append((names, {n for n in extra if n}))
    counts = {}
    for names, extra in cand:
        for n in names | extra: counts[n] = counts.get(n, 0) + 1
    pos = {}; table = []
    for p, (names, extra) in enumerate(cand):
        mine = sorted(n for n in names | extra if counts[n] == 1 or n in names)
        table.append(mine)
        for n in mine: pos[n] = p
    return pos, table


class AdoptedSetup(Setup):
    """positional model tables for a compiled set that was built elsewhere (unpickled, or compiled from copied chemical objects);
    inherited = the group table it already carries (name -> {'idx', 'mol', 'wt'})."""
    def __init__(self, chems, inherited=None):
        self.chems = chems
        self.thermo = tmo.Thermo(chems)
        self.ids = list(chems.IDs)
        self.pos, self.names = name_tables(chems)
        self.contested = claim_tables(chems)
        self.groups = {}
        for name, g in (inherited or {}).items():
            mol = np.array(g['mol'], float); wt = np.array(g['wt'], float)
            self.groups[name] = {'idx': list(g['idx']), 'mol': mol / mol.sum(), 'wt': wt / wt.sum()}


class World:
    """one compiled chemical set with its positional model, a single-phase stream, two multi-phase streams on different phase sets, a split,
    and dense copies of their data."""
    def __init__(self, kind, S, st, ms, D1, D2, ph, ms2, D3, ph2, sp, SP):
        self.kind, self.S, self.st, self.ms, self.D1, self.D2, self.ph, self.ms2, self.D3, self.ph2, self.sp, self.SP = kind, S, st, ms, D1, D2, ph, ms2, D3, ph2, sp, SP

    @staticmethod
    def second_stream(S, phases2, rng):
        n = len(S.ids)
        ms2 = tmo.MultiStream(None, phases=tuple(phases2), thermo=S.thermo)
        D3 = np.array([[round(10 ** rng.uniform(-2, 3), 4) if rng.random() < 0.65 else 0.0 for _ in range(n)] for _ in ms2.phases])
        for i in range(len(ms2.phases)): ms2.imol.data.rows[i][:] = D3[i]
        SP = np.array([round(rng.random(), 3) if rng.random() < 0.8 else 0.0 for _ in range(n)])
        return ms2, D3, list(ms2.phases), S.chems.isplit(SP.tolist()), SP

    @classmethod
    def fresh(cls, kind, S, phases, phases2, rng):
        n = len(S.ids)
        st = tmo.Stream(None, thermo=S.thermo)
        ms = tmo.MultiStream(None, phases=tuple(phases), thermo=S.thermo)
        D1 = np.array([round(10 ** rng.uniform(-2, 3), 4) if rng.random() < 0.75 else 0.0 for _ in range(n)])
        D2 = np.array([[round(10 ** rng.uniform(-2, 3), 4) if rng.random() < 0.65 else 0.0 for _ in range(n)] for _ in ms.phases])
        st.imol.data[:] = D1
        for i in range(len(ms.phases)): ms.imol.data.rows[i][:] = D2[i]
        return cls(kind, S, st, ms, D1, D2, list(ms.phases), *cls.second_stream(S, phases2, rng))


def gen_world_groups(rng, ids, names):
    """group definitions for a sibling set: the given names, members and compositions drawn anew (groups may overlap; a name may be left out)."""
    out = []
    for nm in names:
        if rng.random() < 0.15: continue
        m = rng.sample(ids, rng.randrange(1, min(4, len(ids)) + 1))
        comp = None if rng.random() < 0.4 else [round(rng.uniform(0.1, 2), 3) for _ in m]
        out.append({'name': nm, 'members': m, 'comp': comp, 'wt': rng.random() < 0.5})
    return out


def flat_positions(r, n):
    if r[0] == 'all': return list(range(n))
    if r[0] == 'scalar': return [r[1]]
    if r[0] == 'group': return list(r[1])
    return [j for i in r[1] for j in (i if isinstance(i, list) else [i])]


def key_kind(r):
    return {'all': 'ellipsis', 'scalar': 'chemical', 'group': 'group'}.get(r[0]) or ('nested' if any(isinstance(i, list) for i in r[1]) else 'array')


def model_write(S, key, r, val, basis):
    """positions -> value written by `indexer[key] = val` (a scalar given to a group is distributed by the group's composition of the basis)."""
    out = {}
    if r[0] == 'scalar': out[r[1]] = val
    elif r[0] == 'group':
        vals = (val * S.groups[key][basis]) if not isinstance(val, list) else val
        for i, v in zip(r[1], vals): out[i] = v
    else:
        for m, i in enumerate(r[1]):
            v = val if not isinstance(val, list) else val[m]
            if isinstance(i, list):
                for ii, vv in zip(i, v * S.groups[key[m]][basis]): out[ii] = vv
            else: out[i] = v
    return out


def split_matches(got, r, SP):
    """SplitIndexer reads: a group addresses its members (no sum)."""
    if r[0] == 'all': return same(got, SP, rel=0)
    if r[0] in ('scalar', 'group'): return same(got, SP[r[1]], rel=0)
    if len(got) != len(r[1]): return False
    return all(same(np.asarray(g_, float), SP[i], rel=0) for g_, i in zip(got, r[1]))


def gen_contested_key(rng, S, contested, write):
    """a key in the vocabulary of S that mostly contains a name which the sibling sets resolve differently (alone, or inside a tuple)."""
    n = len(S.ids)
    c = [nm for nm in contested if nm in S.groups or nm in S.pos]
    if not c or rng.random() < 0.2: return gen_key(rng, S, write=write)
    nm = rng.choice(c)
    if rng.random() < 0.35: return nm
    used = set(S.groups[nm]['idx']) if nm in S.groups else {S.pos[nm]}
    key = [nm]
    for p in rng.sample(range(n), min(n, rng.randrange(1, 4))):
        if p in used: continue
        key.insert(rng.randrange(len(key) + 1), rng.choice(S.names[p])); used.add(p)
    return key


SIB_ACCESS = ['M-phase'] * 4 + ['M-sum', 'M-all', 'M-mass', 'M2-phase', 'M2-phase', 'S', 'S-mass', 'raw', 'raw', 'split', 'get_index', 'rebased-M', 'rebased-S']
SIB_WRITABLE = ('M-phase', 'M-all', 'M-mass', 'M2-phase', 'S', 'S-mass', 'raw')


def sibling_access(rec, rng, W, P, key, as_list, acc, write, vk, hint, setsig, tags):
    """one read (or write-then-read) through `key` on an indexer of world W, judged against W's own positional model."""
    S_ = W.S; n_ = len(S_.ids); k = to_key(key, as_list)
    if acc.startswith('rebased') and (W is P or not set(P.S.ids) <= set(S_.ids)): acc = 'M-phase'
    try: r = S_.resolve(key)
    except KeyError: r = None
    if r is None or r[0] == 'all' or acc not in SIB_WRITABLE: write = False
    elif write:
        fp = flat_positions(r, n_)
        if len(set(fp)) != len(fp): write = False          # a write key must not address a position twice
    MW = S_.chems.MW
    mass = acc in ('M-mass', 'S-mass')
    phs = None; molar = None
    try:
        if acc in ('M-phase', 'M-sum', 'M-all', 'M-mass'): molar = W.ms.imol; ix = W.ms.imass if mass else molar; D = W.D2; phs = W.ph
        elif acc == 'M2-phase': molar = ix = W.ms2.imol; D = W.D3; phs = W.ph2
        elif acc in ('S', 'S-mass'): molar = W.st.imol; ix = W.st.imass if mass else molar; D = W.D1
        elif acc == 'raw':
            D = W.D2.copy(); phs = W.ph
            molar = ix = tmo.indexer.MolarFlowIndexer.from_data(D.copy(), tuple(phs), S_.chems)      # a brand-new indexer object on this set
        elif acc == 'rebased-M':
            phs = P.ph; D = np.zeros((len(phs), n_))
            for j, i in enumerate(P.S.ids): D[:, S_.pos[i]] = P.D2[:, j]
            molar = ix = P.ms.imol.copy(); ix.reset_chemicals(S_.chems)                               # the primary's flows re-based onto this set
        elif acc == 'rebased-S':
            D = np.zeros(n_)
            for j, i in enumerate(P.S.ids): D[S_.pos[i]] = P.D1[j]
            molar = ix = P.st.copy(None, thermo=S_.thermo).imol
        elif acc == 'split': ix = W.sp; D = W.SP
        else: ix = None; D = None
        row = hint % len(phs) if phs else None
        if acc in ('M-phase', 'M-mass', 'M2-phase', 'raw', 'rebased-M'): fk = (phs[row], k); shape = 'row'
        elif acc == 'M-all': fk = (..., k); shape = 'rows'
        elif acc == 'M-sum': fk = k; shape = 'sum'
        else: fk = k; shape = 'vector'
        if r is None:
            # the key is not defined in this set (it belongs to a sibling): the documented answer is UndefinedChemicalAlias, whatever was looked up elsewhere
            # (strengthened: this is the observation point for positions leaking from one set into another through a shared / stale lookup table, so an answer
            # without an error is a violation - the answer can only come from a lookup made elsewhere - and only UndefinedChemicalAlias counts as the refusal)
            undefined = sorted({nm for nm in ([key] if isinstance(key, str) else key) if nm not in S_.groups and nm not in S_.pos})
            claimed = {nm: [S_.ids[p] for p in S_.contested[nm]['pos']] for nm in undefined if nm in S_.contested}          # shared names: claimed by several chemicals of this set
            if claimed: rec.hit('sibling:undefined-here:shared-name')
            op_ = 'get_index' if acc == 'get_index' else 'read'
            try:
                got = S_.chems.get_index(k) if acc == 'get_index' else ix[fk]
            except UndefinedChemicalAlias:
                rec.check(True, 'sibling-set', f'{W.kind}/{acc}/undefined-accepted', ''); rec.hit('sibling:undefined-here'); rec.hit('sibling:undefined-here:' + acc)
            except Exception as e:
                rec.check(False, 'sibling-set', f'{W.kind}/{acc}/undefined-wrong-exception',
                          f'{acc} {op_} of {key!r} on the {W.kind} set, which does not define {undefined}, raised {type(e).__name__} ({str(e)[:120]}) instead of UndefinedChemicalAlias',
                          detail={'key': key, 'undefined_here': undefined, 'set': list(S_.ids), 'groups': sorted(S_.groups), 'exception': f'{type(e).__name__}: {str(e)[:300]}', 'at': exc_key(e)})
            else:
                rec.check(False, 'sibling-set', f'{W.kind}/{acc}/undefined-accepted',
                          f'{acc} {op_} of {key!r} on the {W.kind} set (chemicals {list(S_.ids)}, groups {sorted(S_.groups)}), which does not define {undefined}, was answered with {show(got)} '
                          f'instead of UndefinedChemicalAlias: ' + (f'the name is claimed by several chemicals of this set ({claimed}) and can be the name of no single position' if claimed else 'the answer can only come from a lookup made through another set'),
                          detail={'key': key, 'undefined_here': undefined, 'claimed_by_several': claimed, 'set': list(S_.ids), 'groups': sorted(S_.groups), 'returned': show(got)})
            return
        kk = key_kind(r)

        def expected():
            f = MW if mass else 1.0
            if shape == 'row': return model_read(S_, D[row] * f, key)
            if shape == 'sum': return model_read(S_, D.sum(0), key)
            if shape == 'rows': return (D * f).copy() if r[0] == 'all' else np.array([model_read(S_, D[i] * f, key) for i in range(len(phs))])
            return model_read(S_, D * f, key)

        if acc == 'get_index':
            gi = S_.chems.get_index(k); exp = slice(None) if r[0] == 'all' else r[1]
            rec.check(gi == exp, 'sibling-set', f'{W.kind}/get_index/read/{kk}', f'get_index({key!r}) on the {W.kind} set = {gi!r} but its own tables give {exp!r}')
        elif acc == 'split':
            got = ix[k]
            rec.check(split_matches(got, r, D), 'sibling-set', f'{W.kind}/split/read/{kk}', f'split[{key!r}] on the {W.kind} set = {got!r} but its own tables give positions {r[1:]!r} of {D.tolist()}')
        elif not write:
            got = ix[fk]; exp = expected()
            gota = got.to_array() if hasattr(got, 'to_array') else got
            rec.check(same(gota, exp, rel=1e-12), 'sibling-set', f'{W.kind}/{acc}/read/{kk}', f'{acc} read of {key!r} on the {W.kind} set = {np.asarray(gota).tolist()} but its own positional model gives {np.asarray(exp).tolist()}')
        else:
            fv = lambda: round(10 ** rng.uniform(-2, 3), 4) if rng.random() < 0.9 else 0.0
            if r[0] == 'scalar' or vk == 'scalar': val = round(10 ** rng.uniform(-2, 3), 4)
            else: val = [fv() for _ in r[1]]
            wval = np.array(val, float) if (isinstance(val, list) and rng.random() < 0.3) else val
            ix[fk] = wval
            for i, v in model_write(S_, key, r, val, 'wt' if mass else 'mol').items():
                vv = v / MW[i] if mass else v
                if shape == 'row': D[row, i] = vv
                elif shape == 'rows': D[:, i] = vv
                else: D[i] = vv
            got = dense_of(molar)
            form = 'scalar-value' if not isinstance(val, list) else 'array-value'
            okd = rec.check(same(got, D, rel=1e-11), 'sibling-set', f'{W.kind}/{acc}/write-data/{kk}/{form}', f'after the {acc} write of {val!r} at {key!r} on the {W.kind} set: data {np.asarray(got).tolist()} but its own positional model gives {D.tolist()}')
            back = ix[fk]; eback = expected()
            backa = back.to_array() if hasattr(back, 'to_array') else back
            rec.check(same(backa, eback, rel=1e-11), 'sibling-set', f'{W.kind}/{acc}/read-back/{kk}/{form}', f'after the {acc} write of {val!r} at {key!r} on the {W.kind} set: read-back {np.asarray(backa).tolist()} expected {np.asarray(eback).tolist()}')
            if not okd: D[...] = got
            e = sparse_invariant(molar.data)
            rec.check(e is None, 'invariant', 'sibling', f'sparse invariant after a write on a sibling set: {e}')
            rec.hit('sibling:write')
    except Exception as e:
        rec.exception('sibling-set', e, what=f'{acc} {"write" if write else "read"} of {key!r} on the {W.kind} set raised {type(e).__name__}: {str(e)[:150]}')
        W.D1[...] = dense_of(W.st.imol); W.D2[...] = dense_of(W.ms.imol); W.D3[...] = dense_of(W.ms2.imol)
        return
    rec.hit('sibling'); rec.hit('sibling:' + W.kind)
    names = [key] if isinstance(key, str) else list(key)
    if any(nm in tags['groups'] for nm in names): rec.hit('sibling:contested-group')
    if tags['alias'] in names: rec.hit('sibling:contested-alias')
    if acc == 'M2-phase': rec.hit('sibling:other-phase-set')
    if acc == 'raw': rec.hit('sibling:raw-indexer')
    if acc.startswith('rebased'): rec.hit('sibling:rebased')
    if r[0] in ('group', 'array'): rec.mark_nontrivial(case_hash((setsig, 'SIB', W.kind, acc, bool(write), key if isinstance(key, str) else tuple(key))))


def release(chems):
    """harness hygiene after a case: the library keeps every compiled set (and every (phases, set) lookup table) alive in class-level registries;
    the sibling sets of a finished case are dropped from them so that long runs do not accumulate memory."""
    try:
        caches = tmo.indexer.MaterialIndexer._index_caches
        for k_ in [k_ for k_ in list(caches) if k_[1] is chems]: caches.pop(k_, None)
        reg = tmo.CompiledChemicals._cache
        for k_ in [k_ for k_, v_ in list(reg.items()) if v_ is chems]: reg.pop(k_, None)
    except Exception: pass


# ---------------------------------------------------------------------------------------------------------------------
# added: chemical sets in which two or three chemicals claim the same name (isomers share their formula; a chemical copied under a new ID keeps the
# formula of the original; user-defined chemicals given the same alias / common name / IUPAC name / formula at construction; a user alias that is the
# formula or the common name of a database chemical of the set).  Such a name is a name of no single position: it is not defined in that set.

ISO_FAMILIES = (('Propanol', '2-Propanol'), ('Ethanol', 'DimethylEther'), ('Butanol', '2-Butanol', 'Isobutanol', 'tert-Butanol', 'DiethylEther'),
                ('Hexane', '2-Methylpentane', '3-Methylpentane'), ('AceticAcid', 'MethylFormate'), ('Glucose', 'Fructose', 'Galactose', 'Mannose'),
                ('Acetone', 'Propanal'), ('Octane', 'Isooctane'), ('Pentane', 'Isopentane', 'Neopentane'), ('o-Xylene', 'm-Xylene', 'p-Xylene', 'Ethylbenzene'))
SHARED_SOURCES = ('formula-db', 'formula-db', 'formula-copy', 'formula-blank', 'alias-blank', 'alias-copy', 'common_name', 'iupac_name', 'cross-db')


def names_by_role(c, own=()):
    """name -> the role by which the chemical object claims it (formula > common_name > iupac_name > alias); ID and CAS are not claims but ownership."""
    roles = {}
    for a in own: roles[a] = 'alias'
    for a in sorted(c.aliases): roles[a] = 'alias'
    iup = c.iupac_name
    if not iup: iup = ()
    elif isinstance(iup, str): iup = (iup,)
    for a in iup: roles[a] = 'iupac_name'
    if c.common_name: roles[c.common_name] = 'common_name'
    if c.formula: roles[c.formula] = 'formula'
    return {a: r_ for a, r_ in roles.items() if a}


def claim_tables(chems, own_aliases=None):
    """names claimed by two or more chemicals of the set and owned (as ID or CAS) by none: name -> {'pos': claimant positions, 'source': role | 'mixed'}."""
    chems = list(chems)
    owners = set(); claims = {}
    for p, c in enumerate(chems):
        owners |= {c.ID, c.CAS}
        for a, role in names_by_role(c, own_aliases[p] if own_aliases else ()).items(): claims.setdefault(a, []).append((p, role))
    out = {}
    for a in sorted(claims):
        v = claims[a]
        if len(v) >= 2 and a not in owners:
            rs_ = sorted({role for _, role in v})
            out[a] = {'pos': [p for p, _ in v], 'source': rs_[0] if len(rs_) == 1 else 'mixed'}
    return out


def restore_flows(st, ms, snap1, snap2):
    st.imol.data[:] = snap1
    for i in range(len(snap2)): ms.imol.data.rows[i][:] = snap2[i]


def check_contested(rec, S, kind, st, ms, mphases, rs, limit=3):
    """every name that two or more chemicals of the set claim, through every entry point that turns a name into a position (reads, writes, builders):
    no answer can be the single position of each claimant, so the only answer the property allows is the documented refusal (UndefinedChemicalAlias).
    Flow data that an accepted write changed is put back (the acceptance itself is reported)."""
    names = sorted(S.contested)
    if not names: return
    if len(names) > limit: names = sorted(rs.sample(names, limit))
    n = len(S.ids)
    MolarFlowIndexer = tmo.indexer.MolarFlowIndexer; ChemicalMolarFlowIndexer = tmo.indexer.ChemicalMolarFlowIndexer
    for nm in names:
        info = S.contested[nm]; src = info['source']; claim = list(info['pos'])
        rest = [p for p in range(n) if p not in claim]
        other = S.ids[rs.choice(rest)] if rest else S.ids[claim[0]]
        ph = rs.choice(list(mphases)); v = round(10 ** rs.uniform(-1, 2), 3)
        snap1 = dense_of(st.imol); snap2 = dense_of(ms.imol)
        chems = S.chems

        def w_(f):
            def g(): f(); return 'the write returned normally'
            return g
        def s_write(): st.imol[nm] = v
        def s_tuple_write(): st.imol[other, nm] = [v, v]
        def m_write(): ms.imol[ph, nm] = v
        def m_all_write(): ms.imol[..., nm] = v
        def smass_write(): st.imass[nm] = v
        def mmass_write(): ms.imass[ph, (nm,)] = [v]
        entries = [
            ('chemicals.index', lambda: chems.index(nm)),
            ('chemicals.indices', lambda: chems.indices([other, nm])),
            ('get_index', lambda: chems.get_index(nm)),
            ('get_index-tuple', lambda: chems.get_index((nm, other))),
            ('chemicals-getitem', lambda: chems[nm]),
            ('S-read', lambda: st.imol[nm]),
            ('S-tuple-read', lambda: st.imol[other, nm]),
            ('S-list-read', lambda: st.imol[[nm, other]]),
            ('S-mass-read', lambda: st.imass[nm]),
            ('M-sum-read', lambda: ms.imol[nm]),
            ('M-phase-read', lambda: ms.imol[ph, nm]),
            ('M-phase-tuple-read', lambda: ms.imol[ph, (nm, other)]),
            ('M-all-read', lambda: ms.imol[..., nm]),
            ('M-mass-read', lambda: ms.imass[ph, nm]),
            ('get_flow', lambda: st.get_flow('kmol/hr', nm)),
            ('get_data', lambda: ms.imol.get_data('kmol/hr', ph, nm)),
            ('raw-S-read', lambda: ChemicalMolarFlowIndexer.from_data(snap1.copy(), 'l', chems)[nm]),
            ('raw-M-read', lambda: MolarFlowIndexer.from_data(snap2.copy(), tuple(mphases), chems)[ph, nm]),
            ('phase-proxy-read', lambda: ms[ph].imol[nm]),
            ('isplit-dict', lambda: chems.isplit({nm: 0.5}).data),
            ('split-read', lambda: chems.isplit(0.5)[nm]),
            ('kwarray', lambda: chems.kwarray({nm: v})),
            ('array', lambda: chems.array([other, nm], [v, v])),
            ('ikwarray', lambda: chems.ikwarray({nm: v}).data),
            ('kwsplit', lambda: chems.kwsplit({nm: 0.5})),
            ('define_group-member', lambda: (chems.define_group('Tmp_shared_member_grp', [other, nm]), chems.get_index('Tmp_shared_member_grp'))[1]),
            ('S-write', w_(s_write)), ('S-tuple-write', w_(s_tuple_write)), ('M-phase-write', w_(m_write)), ('M-all-write', w_(m_all_write)),
            ('S-mass-write', w_(smass_write)), ('M-mass-write', w_(mmass_write)),
            ('set_flow', w_(lambda: st.set_flow(v, 'kmol/hr', nm))),
        ]
        if nm.isidentifier(): entries.append(('Stream-keyword', lambda: tmo.Stream(None, thermo=S.thermo, **{nm: v}).imol.data))
        if other == S.ids[claim[0]] and not rest:
            entries = [e_ for e_ in entries if e_[0] not in ('S-tuple-write',)]          # the neighbour is a claimant itself: a write key must not address a position twice
        who = [S.ids[p] for p in claim]
        for entry, f in entries:
            try: got = f()
            except UndefinedChemicalAlias:
                rec.check(True, 'names-one-position', f'shared-name/{src}/{entry}/answered', '')
            except Exception as e:
                rec.check(False, 'names-one-position', f'shared-name/{src}/{entry}/wrong-exception',
                          f'{entry} with {nm!r} - a name ({src}) claimed by the chemicals {who} at positions {claim} of the {kind} set {list(S.ids)}, hence a name of no single position - raised '
                          f'{type(e).__name__} ({str(e)[:120]}) instead of UndefinedChemicalAlias', detail={'name': nm, 'claimants': who, 'set': list(S.ids), 'kind': kind, 'exception': f'{type(e).__name__}: {str(e)[:300]}', 'at': exc_key(e)})
            else:
                rec.check(False, 'names-one-position', f'shared-name/{src}/{entry}/answered',
                          f'{nm!r} is a name ({src}) of each of the chemicals {who} (positions {claim}) of the {kind} set {list(S.ids)}: it cannot resolve to the single position of every one of them, '
                          f'yet {entry} answered {show(got)} instead of UndefinedChemicalAlias (the name addresses the entry of only one of its claimants)',
                          detail={'name': nm, 'claimants': who, 'positions': claim, 'set': list(S.ids), 'kind': kind, 'returned': show(got)})
        # the two entry points that do not raise: available_indices leaves undefined names out, attribute access raises AttributeError
        try:
            av = chems.available_indices([other, nm]); exp = [S.pos[other]]
            rec.check(av == exp, 'names-one-position', f'shared-name/{src}/available_indices/answered', f'available_indices([{other!r}, {nm!r}]) on the {kind} set {list(S.ids)} = {av!r}, but {nm!r} is claimed by {who} '
                      f'(positions {claim}) and is a name of no single position: expected {exp!r}')
            if nm.isidentifier():
                try: got = getattr(chems, nm)
                except (AttributeError, UndefinedChemicalAlias): rec.check(True, 'names-one-position', f'shared-name/{src}/attribute/answered', '')
                else: rec.check(False, 'names-one-position', f'shared-name/{src}/attribute/answered', f'chemicals.{nm} on the {kind} set {list(S.ids)} gives {got!r} although {nm!r} is claimed by {who} (positions {claim})')
        except Exception as e:
            rec.exception('names-one-position', e, what=f'available_indices / attribute access with the shared name {nm!r} raised {type(e).__name__}: {str(e)[:120]}')
        now1 = dense_of(st.imol); now2 = dense_of(ms.imol)
        if not rec.check(same(now1, snap1, rel=0) and same(now2, snap2, rel=0), 'names-one-position', f'shared-name/{src}/data-untouched',
                         f'lookups / writes through {nm!r} (claimed by {who} of the {kind} set) changed the flow data: {snap1.tolist()} -> {now1.tolist()}; {snap2.tolist()} -> {now2.tolist()}'):
            try: restore_flows(st, ms, snap1, snap2)
            except Exception: pass
        rec.hit('shared-name'); rec.hit('shared-name:' + src); rec.hit('shared-name:set:' + kind)
        if len(claim) >= 3: rec.hit('shared-name:three-claimants')
        if not rest: rec.hit('shared-name:every-chemical-claims')
        rec.mark_nontrivial(case_hash((tuple(S.ids), 'SHN', nm)))


def check_unique_names(rec, S, kind, st, D1):
    """every name that exactly one chemical of the set claims resolves to the position of that chemical (through the plain entry points and a flow read)."""
    for p in range(len(S.ids)):
        for name in S.names[p]:
            try:
                a = S.chems.index(name); b = S.chems.indices([name])[0]; c = S.chems.get_index(name); v = st.imol[name]
            except Exception as e:
                rec.exception('names-one-position', e, what=f'name {name!r} of {S.ids[p]} in the {kind} set {list(S.ids)} raised {type(e).__name__}: {str(e)[:120]}'); continue
            rec.check(a == p and b == p and c == p and v == D1[p], 'names-one-position', f'shared-set/{kind}/index', f'name {name!r} of {S.ids[p]} (only that chemical of the {kind} set {list(S.ids)} claims it) resolves to {a}/{b}/{c}, '
                      f'value {v}, expected position {p} (value {D1[p]})')


def make_chemical(sp):
    """a chemical of a shared-name set: a database chemical (the cached object every set of the run shares), a copy of one under a new ID (own object; keeps the
    formula), or a user-defined chemical with the names given at construction."""
    if sp['k'] == 'db': return tmo.Chemical(sp['ID'], cache=True)
    if sp['k'] == 'copy':
        c = tmo.Chemical(sp['of'], cache=True).copy(sp['ID'])
        for a in sp.get('aliases', ()): c.aliases.add(a)
        return c
    kw = {}
    if sp.get('formula'): kw['formula'] = sp['formula']
    if sp.get('common_name'): kw['common_name'] = sp['common_name']
    if sp.get('iupac_name'): kw['iupac_name'] = sp['iupac_name'] if isinstance(sp['iupac_name'], str) else tuple(sp['iupac_name'])
    al = list(sp.get('aliases', ()))
    if sp.get('alias_from'):
        role, of = sp['alias_from']; v = getattr(tmo.Chemical(of, cache=True), role)
        if isinstance(v, (tuple, list)): v = v[0] if v else None
        if v: al.append(v)
    return tmo.Chemical(sp['ID'], search_db=False, default=True, phase='l', MW=sp['MW'], aliases=tuple(al), **kw)


def gen_shared_def(r):
    """a chemical set of 2-8 in which 1-3 names are claimed by two or three chemicals each."""
    specs = []; taken = set(); L = 'ABC'
    def add(sp):
        if sp['ID'] in taken or len(specs) >= 8: return
        if sp['k'] == 'db' and sp['ID'] == 'Propanol' and '1-Propanol' in taken: return
        taken.add(sp['ID']); specs.append(sp)
    def blank(ID, **kw): return dict({'k': 'blank', 'ID': ID, 'MW': round(r.uniform(20, 300), 2)}, **kw)
    for si, src in enumerate(r.sample(SHARED_SOURCES, r.choice([1, 1, 2, 2, 3]))):
        mult = 2 if r.random() < 0.65 else 3
        if src == 'formula-db':
            fam = r.choice(ISO_FAMILIES)
            for m in r.sample(fam, min(mult, len(fam))): add({'k': 'db', 'ID': m})
        elif src == 'formula-copy':
            base = r.choice(POOL); add({'k': 'db', 'ID': base})
            for j in range(mult - 1): add({'k': 'copy', 'of': base, 'ID': f'{base}_v{j}', 'aliases': [f'{base}_v{j}_own']})
        elif src == 'formula-blank':
            f = r.choice(['C7H16', 'C5H10O2', 'C9H20', 'C3H9N'])
            for j in range(mult): add(blank(f'Pseudo{si}{L[j]}', formula=f, aliases=[f'pseudo_{si}{L[j]}']))
        elif src == 'alias-blank':
            for j in range(mult): add(blank(f'Solv{si}{L[j]}', aliases=[f'Solvent{si}', f'S{si}{L[j]}']))
        elif src == 'alias-copy':
            for b in r.sample(POOL, mult): add({'k': 'copy', 'of': b, 'ID': f'{b}_c{si}', 'aliases': [f'Blend{si}', f'{b}_c{si}_own']})
        elif src == 'common_name':
            for j in range(mult): add(blank(f'Cut{si}{L[j]}', common_name=f'light cut {si}', aliases=[f'cut_{si}{L[j]}']))
        elif src == 'iupac_name':
            as_str = r.random() < 0.3
            for j in range(mult): add(blank(f'Frac{si}{L[j]}', iupac_name=f'fraction-{si}' if as_str else [f'fraction-{si}-{L[j]}', f'fraction-{si}']))
        else:
            base = r.choice(POOL); role = r.choice(['formula', 'formula', 'common_name', 'iupac_name']); add({'k': 'db', 'ID': base})
            for j in range(mult - 1): add(blank(f'Mimic{si}{L[j]}', alias_from=[role, base], aliases=[f'mimic_{si}{L[j]}']))
    for b in r.sample(POOL, r.randrange(0, 4)): add({'k': 'db', 'ID': b})
    if len(specs) < 2: add({'k': 'db', 'ID': r.choice([b for b in POOL if b not in taken])})
    clash = None
    dbs = [sp['ID'] for sp in specs if sp['k'] == 'db']
    if dbs and len(specs) < 8 and r.random() < 0.06:
        clash = r.choice(dbs); add(blank('Impostor', aliases=[clash, 'impostor_own']))          # an alias that is the ID of another chemical: compile refuses (alias already in use)
    r.shuffle(specs)
    groups = []
    for g in range(r.randrange(0, 3)):
        m = r.sample(range(len(specs)), r.randrange(1, min(3, len(specs)) + 1))
        groups.append({'name': f'SGrp{g}', 'members': m, 'comp': None if r.random() < 0.4 else [round(r.uniform(0.1, 2), 3) for _ in m], 'wt': r.random() < 0.5})
    ph = ['lg', 'lgs', 'lL', 'gls', 'sl', 'glLs', 'l', 'g']
    phases = r.choice(ph); phases2 = r.choice([q for q in ph if set(q) != set(phases)])
    return {'chems': specs, 'groups': groups, 'phases': phases, 'phases2': phases2, 'clash': clash}


def run_shared(rec, op, cleanup):
    """a set with shared names, compiled in several ways (as given / in the opposite order / without all but one claimant of a shared name / through the
    CompiledChemicals constructor / unpickled), in a random order; every set is judged against its own tables: unique names resolve to their chemical, shared
    names are refused by every entry point, and the same keys are read and written through the indexers of every set in interleaved order."""
    rs = random.Random(op['seed']); d = op['def']
    try: objs = [make_chemical(sp) for sp in d['chems']]
    except Exception as e:
        rec.exception('shared-set', e, what=f'creating the chemicals of a shared-name set raised {type(e).__name__}: {str(e)[:150]}'); return
    m = len(objs)
    base_claims = claim_tables(objs)
    plans = [('shared-base', list(range(m))), ('shared-permuted', list(range(m))[::-1])]
    nm0 = None
    if base_claims:
        nm0 = rs.choice(sorted(base_claims)); keep = rs.choice(base_claims[nm0]['pos'])
        plans.append(('shared-without', [i for i in range(m) if i == keep or i not in base_claims[nm0]['pos']]))
    if rs.random() < 0.35:
        o_ = list(range(m)); rs.shuffle(o_); plans.append(('shared-constructor', o_))
    want_pickle = rs.random() < 0.3
    rs.shuffle(plans)
    by_append = op['seed'] % 2 == 0
    worlds = []
    for kind, order in plans:
        sub = [objs[i] for i in order]
        owners = {}
        for c in sub: owners[c.ID] = c; owners[c.CAS] = c
        id_clash = any(a in owners and owners[a] is not c for c in sub for a in c.aliases)
        try:
            if kind == 'shared-constructor': chems = tmo.CompiledChemicals(sub)
            elif kind == 'shared-permuted' and by_append:
                chems = tmo.Chemicals(sub[:1])          # the set is put together one chemical at a time before it is compiled
                for c in sub[1:]: chems.append(c)
                chems.compile(); rec.hit('shared:built-by-append')
            else: chems = tmo.Chemicals(sub); chems.compile()
        except ValueError as e:
            if id_clash and 'already in use' in str(e):
                rec.refuse('compile refused: an alias given at construction is the ID / CAS of another chemical of the set (alias already in use)'); rec.hit('shared:compile-refused'); continue
            rec.exception('shared-set', e, what=f'compiling the {kind} shared-name set {[c.ID for c in sub]} raised ValueError: {str(e)[:150]}'); continue
        except Exception as e:
            rec.exception('shared-set', e, what=f'compiling the {kind} shared-name set {[c.ID for c in sub]} raised {type(e).__name__}: {str(e)[:150]}'); continue
        cleanup.append(lambda c_=chems: release(c_))
        try:
            todo = [(kind, chems)]
            if kind == 'shared-base' and want_pickle:
                pc = pickle.loads(pickle.dumps(chems)); cleanup.append(lambda c_=pc: release(c_)); todo.append(('shared-pickled', pc))
            for kind_, chems_ in todo:
                Sx = AdoptedSetup(chems_)
                for g in d['groups']:
                    mem = [(objs[i].ID, j) for j, i in enumerate(g['members']) if i in order]
                    if not mem: continue
                    Sx.add_group({'name': g['name'], 'members': [i for i, _ in mem], 'comp': [g['comp'][j] for _, j in mem] if g['comp'] else None, 'wt': g['wt']})
                worlds.append(World.fresh(kind_, Sx, d['phases'], d['phases2'], rs))
        except Exception as e:
            rec.exception('shared-set', e, what=f'building the tables / groups / streams of the {kind} shared-name set raised {type(e).__name__}: {str(e)[:150]}')
    if not worlds: return
    for W in worlds:
        check_unique_names(rec, W.S, W.kind, W.st, W.D1)
        check_contested(rec, W.S, W.kind, W.st, W.ms, W.ph, rs)
        if W.kind == 'shared-without' and nm0 in W.S.pos: rec.hit('shared:unique-after-removal')
    P = next((W for W in worlds if W.kind == 'shared-base'), worlds[0])
    setsig = (tuple(c.ID for c in objs), 'shared')
    shared = sorted({nm for W in worlds for nm in W.S.contested})

    def rounds(k_, contested, tags):
        for _ in range(k_):
            speaker = rs.choice(worlds); write = rs.random() < 0.4
            key = gen_contested_key(rs, speaker.S, contested, write)
            as_list = rs.random() < 0.3 and not isinstance(key, str)
            acc = rs.choice(SIB_ACCESS); vk = rs.choice(['scalar', 'list']); hint = rs.randrange(12)
            order = list(worlds); rs.shuffle(order)
            for W in order: sibling_access(rec, rs, W, P, key, as_list, acc, write, vk, hint, setsig, tags)

    gnames = sorted({g['name'] for g in d['groups']})
    rounds(op['n'], shared + gnames, {'groups': set(gnames), 'alias': None})
    # a group takes the shared name (the isomers as a group): the name is a group in that set, and still a name of no single position in the others
    W = rs.choice(worlds)
    if W.S.contested and rs.random() < 0.5:
        nm = rs.choice(sorted(W.S.contested)); mem = [W.S.ids[p] for p in W.S.contested[nm]['pos']]
        try:
            W.S.add_group({'name': nm, 'members': mem, 'comp': None if rs.random() < 0.5 else [round(rs.uniform(0.1, 2), 3) for _ in mem], 'wt': rs.random() < 0.5})
            rec.hit('shared:group-takes-name')
            rounds(4, [nm], {'groups': {nm}, 'alias': None})
        except Exception as e:
            rec.exception('shared-set', e, what=f'defining a group under the shared name {nm!r} raised {type(e).__name__}: {str(e)[:150]}')
    # definitions that are refused leave the tables as they were: a group with an undefined member, a composition of the wrong length
    W = rs.choice(worlds); S_ = W.S
    bad = rs.choice(sorted(S_.contested) + ['no_such_chemical_9'])
    what = 'shared-member' if bad in S_.contested else 'undefined-member'
    target = rs.choice(sorted(S_.groups) + ['RejectedGrp'])
    valid = rs.sample(S_.ids, min(len(S_.ids), rs.randrange(1, 3)))
    trials = [(what, lambda: S_.chems.define_group(target, valid + [bad]), (UndefinedChemicalAlias,)),
              ('composition-length', lambda: S_.chems.define_group(target, valid, [1.0] * (len(valid) + 1)), (ValueError,))]
    for what_, f, documented in trials:
        try: f()
        except documented:
            rec.check(True, 'rejected-definition', f'{what_}/accepted', ''); rec.hit('rejected-definition'); rec.hit('rejected-definition:' + what_)
        except Exception as e:
            rec.check(False, 'rejected-definition', f'{what_}/wrong-exception', f'define_group({target!r}, ...) with {what_} on the {W.kind} set raised {type(e).__name__} ({str(e)[:120]}) instead of {documented[0].__name__}',
                      detail={'exception': f'{type(e).__name__}: {str(e)[:300]}', 'at': exc_key(e)})
        else:
            rec.check(False, 'rejected-definition', f'{what_}/accepted', f'define_group({target!r}, {valid + [bad] if what_ != "composition-length" else valid}, ...) with {what_} on the {W.kind} set {list(S_.ids)} was accepted without an error')
            continue
        # the group is what it was (the model keeps the last accepted definition); a name that was never defined stays undefined
        if target in S_.groups: rounds(2, [target], {'groups': {target}, 'alias': None})
        else:
            try: got = W.st.imol[target]
            except UndefinedChemicalAlias: rec.check(True, 'rejected-definition', f'{what_}/name-defined', '')
            except Exception as e: rec.exception('rejected-definition', e, what=f'reading the name of a refused group definition raised {type(e).__name__}: {str(e)[:120]}')
            else: rec.check(False, 'rejected-definition', f'{what_}/name-defined', f'define_group({target!r}, ...) was refused ({what_}) on the {W.kind} set, yet imol[{target!r}] now answers {show(got)}')


def run_case(case, rec):
    cleanup = []
    try: _run_case(case, rec, cleanup)
    finally:
        for f in reversed(cleanup):
            try: f()
            except Exception: pass


def _run_case(case, rec, cleanup):
    rec.begin_case(case)
    rng = random.Random(case['seed'])
    ids, groups = case['ids'], case['groups']
    try:
        S = Setup(ids, groups)
    except Exception as e:
        rec.exception('setup', e, what=f'compiling chemicals / aliases / groups raised {type(e).__name__}: {e}'); return
    S.check_own_aliases(rec, 'primary')
    n = len(ids)
    phases = case['phases']
    st = tmo.Stream(None, thermo=S.thermo)
    ms = tmo.MultiStream(None, phases=tuple(phases), thermo=S.thermo)
    D1 = np.zeros(n); D2 = np.zeros((len(ms.phases), n))
    for j in range(n):
        if rng.random() < 0.7: D1[j] = round(10 ** rng.uniform(-2, 3), 4)
        for i in range(len(ms.phases)):
            if rng.random() < 0.6: D2[i, j] = round(10 ** rng.uniform(-2, 3), 4)
    st.imol.data[:] = D1
    for i in range(len(ms.phases)): ms.imol.data.rows[i][:] = D2[i]
    mphases = list(ms.phases)
    later = []          # aliases / groups defined in the middle of the history (also given to the fresh twin)
    if len(mphases) == 1: rec.hit('single-phase-multistream')
    if n == 1 and S.groups: rec.hit('size-1-set-with-group')
    p_chem = Probe(S.chems._index_cache); p_mat = Probe(ms.imol._index_cache)
    setsig = (tuple(ids), tuple(g['name'] for g in groups))
    sib = {}            # sibling chemical sets of this case (built at the first 'siblings' operation, kept for the rest of the history)
    gdefs = {}          # group definitions as given to define_group (for the 'regroup' operation)
    for g in groups:
        members_ = [m for m in g['members'] if m in ids]
        if not members_: continue
        comp_ = g.get('comp'); comp_ = [comp_[g['members'].index(m)] for m in members_] if comp_ else None
        gdefs[g['name']] = {'name': g['name'], 'members': members_, 'comp': comp_, 'wt': g.get('wt', False)}

    def phase_forms(ph):
        forms = [ph]
        other = ph.upper() if ph.islower() else ph.lower()
        if other not in mphases: forms.append(other)
        return forms

    def check_read_single(key, as_list, clause='read'):
        try:
            got = st.imol[to_key(key, as_list)]
        except Exception as e:
            rec.exception(clause, e, what=f'single-phase read of key {key!r} raised {type(e).__name__}: {str(e)[:150]}'); return False
        exp = model_read(S, D1, key)
        form = 'ellipsis' if key == '...' else ('str' if isinstance(key, str) else ('list' if as_list else 'tuple'))
        ok = rec.check(same(got, exp), clause, f'single-phase/{form}', f'imol[{key!r}] = {np.asarray(got.to_array() if hasattr(got, "to_array") else got).tolist()} but positional model gives {np.asarray(exp).tolist()}')
        r = S.resolve(key)
        if (r[0] in ('group', 'array')) and (D1 != 0).sum() >= 2: rec.mark_nontrivial(case_hash((setsig, 'S', form, key if isinstance(key, str) else tuple(key))))
        return ok

    def check_read_multi(key, as_list, mode, ph, clause='read'):
        k = to_key(key, as_list)
        try:
            if mode == 'sum': got = ms.imol[k]; exp = model_read(S, D2.sum(0), key)
            elif mode == 'phase': got = ms.imol[ph, k]; exp = model_read(S, D2[mphases.index(ph.lower() if ph.lower() in mphases and ph not in mphases else (ph if ph in mphases else ph.upper()))], key)
            elif mode == 'allphases':
                got = ms.imol[..., k]
                exp = D2.copy() if key == '...' else np.array([model_read(S, D2[i], key) for i in range(len(mphases))])
            elif mode == 'phase-only':
                got = ms.imol[ph]; exp = D2[mphases.index(ph.lower() if ph.lower() in mphases and ph not in mphases else (ph if ph in mphases else ph.upper()))]
        except Exception as e:
            rec.exception(clause, e, what=f'multi-phase read mode={mode} phase={ph!r} key={key!r} raised {type(e).__name__}: {str(e)[:150]}'); return False
        form = 'ellipsis' if key == '...' else ('str' if isinstance(key, str) else ('list' if as_list else 'tuple'))
        if hasattr(got, 'to_array'): gota = got.to_array()
        else: gota = got
        ok = rec.check(same(gota, exp), clause, f'multi-phase/{mode}/{form}', f'imol[{mode}:{ph!r},{key!r}] = {np.asarray(gota).tolist()} but positional model gives {np.asarray(exp).tolist()}')
        rec.hit('read:multi-phase')
        rec.mark_nontrivial(case_hash((setsig, 'M', mode, form, key if isinstance(key, str) else tuple(key))))
        return ok

    def realphase(ph):
        if ph in mphases: return mphases.index(ph)
        return mphases.index(ph.lower() if ph.isupper() else ph.upper())

    for op in case['ops']:
        t = op['t']
        if t == 'reads':
            for _ in range(op['n']):
                key = gen_key(rng, S); as_list = rng.random() < 0.3 and not isinstance(key, str)
                if rng.random() < 0.5: check_read_single(key, as_list)
                else:
                    mode = rng.choice(['sum', 'phase', 'phase', 'allphases', 'phase-only'])
                    ph = rng.choice(phase_forms(rng.choice(mphases)))
                    check_read_multi(key, as_list, mode, ph)
                p_chem.look(); p_mat.look()
        elif t == 'names':
            # every name of a chemical resolves to the same single position, through every entry point
            for p in range(n):
                for name in S.names[p]:
                    try:
                        a = S.chems.index(name); b = S.chems.indices([name])[0]; c = S.chems.get_index(name)
                        v = st.imol[name]
                    except Exception as e:
                        rec.exception('names-one-position', e, what=f'name {name!r} of {ids[p]} raised {type(e).__name__}: {str(e)[:120]}'); continue
                    rec.check(a == p and b == p and c == p and v == D1[p], 'names-one-position', 'index', f'name {name!r} of {ids[p]} resolves to {a}/{b}/{c}, value {v}, expected position {p}')
            # added: names that two or more chemicals of the set claim (isomers share their formula) are names of no single position: refused by every entry point
            if S.contested:
                check_contested(rec, S, 'primary', st, ms, mphases, random.Random(case['seed'] ^ 0x5C10)); rec.hit('shared-name:primary')
        elif t == 'writes':
            for _ in range(op['n']):
                key = gen_key(rng, S, write=True); as_list = rng.random() < 0.3 and not isinstance(key, str)
                r = S.resolve(key)
                which = rng.choice(['S', 'M-phase', 'M-all', 'Smass', 'Mmass'])
                try:
                    if r[0] == 'scalar': val = round(10 ** rng.uniform(-2, 3), 4) if rng.random() < 0.85 else 0.0
                    elif r[0] == 'group':
                        val = round(10 ** rng.uniform(-2, 3), 4) if rng.random() < 0.6 else [round(10 ** rng.uniform(-2, 3), 4) for _ in r[1]]
                    else:
                        if any(isinstance(i, list) for i in r[1]) and rng.random() < 0.5: val = round(10 ** rng.uniform(-2, 3), 4)
                        elif rng.random() < 0.2: val = round(10 ** rng.uniform(-2, 3), 4)
                        else: val = [round(10 ** rng.uniform(-2, 3), 4) if rng.random() < 0.9 else 0.0 for _ in r[1]]
                    # added: a scalar zero written to a group / tuple / nested key (entries are deleted), ndarray values
                    if r[0] != 'scalar' and not isinstance(val, list) and rng.random() < 0.15:
                        val = 0.0; rec.hit('write:zero-to-group')
                    wval = val
                    if isinstance(val, list) and rng.random() < 0.3: wval = np.array(val, float); rec.hit('value:ndarray')
                    # model: expand to positions
                    def expand(val, basis):
                        out = {}
                        if r[0] == 'scalar': out[r[1]] = val
                        elif r[0] == 'group':
                            comp = S.groups[key][basis]
                            vals = (val * comp) if not isinstance(val, list) else val
                            for i, v in zip(r[1], vals): out[i] = v
                        else:
                            for m, i in enumerate(r[1]):
                                v = val if not isinstance(val, list) else val[m]
                                if isinstance(i, list):
                                    comp = S.groups[key[m]][basis]
                                    for ii, vv in zip(i, v * comp): out[ii] = vv
                                else: out[i] = v
                        return out
                    k = to_key(key, as_list)
                    if which == 'S':
                        before = D1.copy(); st.imol[k] = wval
                        for i, v in expand(val, 'mol').items(): D1[i] = v
                        got = dense_of(st.imol); exp = D1
                        back = st.imol[k]; eback = model_read(S, D1, key)
                    elif which == 'Smass':
                        MW = S.chems.MW
                        st.imass[k] = wval
                        for i, v in expand(val, 'wt').items(): D1[i] = v / MW[i]
                        got = dense_of(st.imol); exp = D1
                        back = st.imass[k]; eback = model_read(S, D1 * MW, key)
                    elif which == 'Mmass':
                        MW = S.chems.MW
                        ph = rng.choice(phase_forms(rng.choice(mphases))); row = realphase(ph)
                        ms.imass[ph, k] = wval
                        for i, v in expand(val, 'wt').items(): D2[row, i] = v / MW[i]
                        got = dense_of(ms.imol); exp = D2
                        back = ms.imass[ph, k]; eback = model_read(S, D2[row] * MW, key)
                        rec.hit('write:Mmass')
                    elif which == 'M-phase':
                        ph = rng.choice(phase_forms(rng.choice(mphases))); row = realphase(ph)
                        ms.imol[ph, k] = wval
                        for i, v in expand(val, 'mol').items(): D2[row, i] = v
                        got = dense_of(ms.imol); exp = D2
                        back = ms.imol[ph, k]; eback = model_read(S, D2[row], key)
                    else:
                        ms.imol[..., k] = wval
                        for i, v in expand(val, 'mol').items(): D2[:, i] = v
                        got = dense_of(ms.imol); exp = D2
                        back = ms.imol[..., k]; eback = np.array([model_read(S, D2[i], key) for i in range(len(mphases))])
                except Exception as e:
                    rec.exception('write', e, what=f'write {which} key={key!r} value={val!r} raised {type(e).__name__}: {str(e)[:150]}')
                    # resynchronise the model with the real data
                    D1[:] = dense_of(st.imol); D2[:] = dense_of(ms.imol); continue
                clause = 'group-write' if (r[0] == 'group' or (r[0] == 'array' and any(isinstance(i, list) for i in r[1]))) else 'write'
                form = ('str' if isinstance(key, str) else ('list' if as_list else 'tuple')) + ('/scalar-value' if not isinstance(val, list) else '/array-value')
                okd = rec.check(same(got, exp, rel=1e-11), clause, f'{which}/data/{form}', f'after {which} write of {val!r} at {key!r}: data {np.asarray(got).tolist()} but model {np.asarray(exp).tolist()}')
                rec.check(same(back, eback, rel=1e-11), clause, f'{which}/read-back/{form}', f'after {which} write of {val!r} at {key!r}: read-back {np.asarray(back).tolist()} expected {np.asarray(eback).tolist()}')
                if not okd: D1[:] = dense_of(st.imol); D2[:] = dense_of(ms.imol)
                e = sparse_invariant(st.imol.data) or sparse_invariant(ms.imol.data)
                rec.check(e is None, 'invariant', which, f'sparse invariant after write: {e}')
                p_chem.look(); p_mat.look()
                if r[0] != 'scalar': rec.mark_nontrivial(case_hash((setsig, 'W', which, form, key if isinstance(key, str) else tuple(key))))
        elif t == 'flood':
            # many distinct tuple keys (permutations of names): fills and evicts the bounded caches; each is checked
            cnt = 0
            target = st if op['tgt'] == 'S' else ms
            namepool = [nm for p in range(n) for nm in S.names[p][:4]]
            size = 2
            while cnt < op['n'] and size <= min(4, n):
                for combo in itertools.permutations(range(n), size):
                    for choice in range(3):
                        key = [S.names[p][(choice + 7 * p) % len(S.names[p])] for p in combo]
                        if op['tgt'] == 'S': ok = check_read_single(key, False, 'flood')
                        else: ok = check_read_multi(key, False, rng.choice(['sum', 'phase', 'allphases']), rng.choice(mphases), 'flood')
                        cnt += 1
                        p_chem.look(); p_mat.look()
                        if cnt >= op['n']: break
                    if cnt >= op['n']: break
                size += 1
            # and repeat an early key after the flood: the result must not depend on what was looked up in between
            if n >= 2:
                key = [S.names[0][0], S.names[1][0]]
                check_read_single(key, False, 'flood'); check_read_multi(key, False, 'phase', mphases[0], 'flood')
        elif t == 'mix':
            # cross-package mixing writes CAS tuples into the same lookup cache (index_overlap)
            sub = [i for i in ids if rng.random() < 0.6] or [ids[0]]
            rng.shuffle(sub)
            oth = tmo.Stream(None, thermo=tmo.Thermo(tmo.Chemicals(sub, cache=True)))
            vals = {}
            for i in sub:
                if rng.random() < 0.8: v = round(10 ** rng.uniform(-1, 2), 3); oth.imol[i] = v; vals[i] = v
            try:
                st.mix_from([st, oth], energy_balance=False)
                for i, v in vals.items(): D1[S.pos[i]] += v
                rec.check(same(dense_of(st.imol), D1, rel=1e-12), 'mix-interleaved', 'data', f'after cross-package mixing data {dense_of(st.imol).tolist()} but model {D1.tolist()}')
                cas = tuple(S.chems[i].CAS for i in sub)
                check_read_single(list(cas), False, 'mix-interleaved')
                if len(cas) >= 1:
                    st.imol[cas] = [D1[S.pos[i]] for i in sub]     # write through the same CAS tuple
                    rec.check(same(dense_of(st.imol), D1, rel=1e-12), 'mix-interleaved', 'write-by-CAS-tuple', 'writing current values back through the CAS tuple changed the data')
            except Exception as e:
                rec.exception('mix-interleaved', e, what=f'cross-package mixing / lookup by CAS tuple raised {type(e).__name__}: {str(e)[:150]}')
                D1[:] = dense_of(st.imol)
            p_chem.look(); p_mat.look()
        elif t == 'expand':
            # in-place phase expansion of the multi-phase indexer (mixing in a stream whose phase it lacks): rows are re-ordered,
            # so every phase-keyed lookup made before must be re-resolved
            cand = [q for q in 'gslSL' if q not in mphases]
            if not cand: continue
            ph = rng.choice(cand)
            oth = tmo.Stream(None, phase=ph, thermo=S.thermo)
            vals = {}
            for i in ids:
                if rng.random() < 0.7: v = round(10 ** rng.uniform(-1, 2), 3); oth.imol[i] = v; vals[i] = v
            if not vals: oth.imol[ids[0]] = 1.5; vals[ids[0]] = 1.5
            old = {q: D2[k].copy() for k, q in enumerate(mphases)}
            try:
                ms.mix_from([ms, oth], energy_balance=False)
            except Exception as e:
                rec.exception('expand', e, what=f'mixing a {ph!r} stream into phases {mphases} raised {type(e).__name__}: {str(e)[:120]}'); continue
            newph = list(ms.phases)
            lab = ph if ph in newph else (ph.lower() if ph.isupper() else ph.upper())
            D2 = np.zeros((len(newph), n))
            for q, row in old.items(): D2[newph.index(q)] = row
            for i, v in vals.items(): D2[newph.index(lab), S.pos[i]] += v
            mphases = newph
            p_mat = Probe(ms.imol._index_cache)
            rec.check(same(dense_of(ms.imol), D2, rel=1e-12), 'expand', 'data', f'after mixing a {ph!r} stream into a multi-phase stream the data is {dense_of(ms.imol).tolist()} but the model gives {D2.tolist()}')
            rec.hit('expand')
            # phase-keyed reads (previously cached keys included) and a write-then-read
            for q in mphases:
                for key in (ids[0], list(ids[:2]) if n >= 2 else ids[0], '...'):
                    check_read_multi(key, False, 'phase', q, 'expand')
            q = rng.choice(mphases); i = rng.choice(ids); v = round(10 ** rng.uniform(-1, 2), 3)
            try:
                ms.imol[q, i] = v; D2[mphases.index(q), S.pos[i]] = v
                rec.check(same(dense_of(ms.imol), D2, rel=1e-12), 'expand', 'write-after-expansion', f'after expansion, imol[{q!r},{i!r}] = {v} changed other entries: {dense_of(ms.imol).tolist()} vs model {D2.tolist()}')
            except Exception as e:
                rec.exception('expand', e, what=f'write after expansion raised {type(e).__name__}: {str(e)[:120]}'); D2[:] = dense_of(ms.imol)
        elif t == 'twin':
            # brand-new compiled chemicals and indexers that have seen no other key
            T = Setup(ids, groups)
            T.check_own_aliases(rec, 'twin')
            for kind_, a_ in later:
                if kind_ == 'alias': T.add_alias(*a_)
                else: T.add_group(a_)
            tst = tmo.Stream(None, thermo=T.thermo); tst.imol.data[:] = D1
            tms = tmo.MultiStream(None, phases=tuple(mphases), thermo=T.thermo)
            for i, q in enumerate(tms.phases): tms.imol.data.rows[i][:] = D2[mphases.index(q)]
            for _ in range(op['n']):
                key = gen_key(rng, S); k = to_key(key)
                try:
                    a = st.imol[k]; b = tst.imol[k]
                    ph = rng.choice(mphases)
                    c = ms.imol[ph, k]; d = tms.imol[ph, k]
                except Exception as e:
                    rec.exception('fresh-twin', e, what=f'twin lookup of {key!r} raised {type(e).__name__}: {str(e)[:150]}'); continue
                rec.check(same(a, b, rel=0) and same(c, d, rel=0), 'fresh-twin', 'differs', f'lookup {key!r} on the used indexer differs from a brand-new one: {a} vs {b}; {c} vs {d}')
        elif t == 'ewrites':
            # the ellipsis and a bare phase as write keys: the whole vector / one phase row / every phase row
            for _ in range(op['n']):
                form = rng.choice(['S', 'M-phase-only', 'M-phase-ellipsis', 'M-all-ellipsis'])
                vk = rng.choice(['scalar', 'zero', 'list', 'ndarray', 'sparse', 'list'])
                if vk == 'scalar': val = round(10 ** rng.uniform(-2, 3), 4); mval = np.full(n, val)
                elif vk == 'zero': val = 0.0; mval = np.zeros(n)
                else:
                    mval = np.array([round(10 ** rng.uniform(-2, 3), 4) if rng.random() < 0.7 else 0.0 for _ in range(n)])
                    if vk == 'list': val = mval.tolist()
                    elif vk == 'ndarray': val = mval.copy(); rec.hit('value:ndarray')
                    else:
                        src = tmo.Stream(None, thermo=S.thermo); src.imol.data[:] = mval
                        val = src.imol.data; rec.hit('value:sparse')            # a sparse flow vector of another stream
                try:
                    if form == 'S':
                        st.imol[...] = val; D1[:] = mval
                        got = dense_of(st.imol); exp = D1; back = st.imol[...]; eback = D1
                    elif form == 'M-phase-only':
                        ph = rng.choice(phase_forms(rng.choice(mphases))); row = realphase(ph)
                        ms.imol[ph] = val; D2[row] = mval
                        got = dense_of(ms.imol); exp = D2; back = ms.imol[ph]; eback = D2[row]
                    elif form == 'M-phase-ellipsis':
                        ph = rng.choice(phase_forms(rng.choice(mphases))); row = realphase(ph)
                        ms.imol[ph, ...] = val; D2[row] = mval
                        got = dense_of(ms.imol); exp = D2; back = ms.imol[ph, ...]; eback = D2[row]
                    else:
                        ms.imol[..., ...] = val; D2[:] = mval
                        got = dense_of(ms.imol); exp = D2; back = ms.imol[..., ...]; eback = D2
                except Exception as e:
                    rec.exception('ellipsis-write', e, what=f'ellipsis / phase-only write {form} with a {vk} value raised {type(e).__name__}: {str(e)[:150]}')
                    D1[:] = dense_of(st.imol); D2[:] = dense_of(ms.imol); continue
                okd = rec.check(same(got, exp, rel=0), 'ellipsis-write', f'{form}/data/{vk}-value', f'after {form} write of a {vk} value {np.asarray(mval).tolist()}: data {np.asarray(got).tolist()} but model {np.asarray(exp).tolist()}')
                rec.check(same(back, eback, rel=0), 'ellipsis-write', f'{form}/read-back/{vk}-value', f'after {form} write of a {vk} value: read-back {np.asarray(back.to_array() if hasattr(back, "to_array") else back).tolist()} expected {np.asarray(eback).tolist()}')
                if vk == 'sparse':
                    rec.check(same(src.imol.data, mval, rel=0) and (form != 'S' or src.imol.data is not st.imol.data), 'ellipsis-write', f'{form}/source-untouched', 'writing a sparse flow vector through a key changed (or aliased) the source vector')
                if not okd: D1[:] = dense_of(st.imol); D2[:] = dense_of(ms.imol)
                e = sparse_invariant(st.imol.data) or sparse_invariant(ms.imol.data)
                rec.check(e is None, 'invariant', 'ellipsis-write', f'sparse invariant after an ellipsis write: {e}')
                rec.hit('ellipsis-write:' + form)
                p_chem.look(); p_mat.look()
                if (mval != 0).sum() >= 2: rec.mark_nontrivial(case_hash((setsig, 'EW', form, vk)))
        elif t == 'split':
            # SplitIndexer: its own implementation of the four key kinds; groups address their members (no composition, no sum)
            SP = np.array([round(rng.random(), 3) if rng.random() < 0.7 else 0.0 for _ in range(n)])
            how = rng.choice(['dict', 'array', 'scalar', 'order'])
            try:
                if how == 'dict':
                    sp = S.chems.isplit({rng.choice(S.names[p]): float(SP[p]) for p in range(n)})
                elif how == 'array': sp = S.chems.isplit(SP.tolist())
                elif how == 'scalar': SP[:] = SP[0]; sp = S.chems.isplit(float(SP[0]))
                else:
                    order = list(range(n)); rng.shuffle(order)
                    sp = S.chems.isplit([float(SP[p]) for p in order], [rng.choice(S.names[p]) for p in order])
                rec.check(same(sp.data, SP, rel=0), 'split', f'construct/{how}', f'isplit from a {how}: data {sp.data.to_array().tolist()} but positional model {SP.tolist()}')
                kw = {rng.choice(S.names[p]): float(SP[p]) for p in range(n) if rng.random() < 0.6} or {S.names[0][0]: float(SP[0])}
                ref = np.zeros(n)
                for nm, v in kw.items(): ref[S.pos[nm]] = v
                rec.check(same(S.chems.kwsplit(kw), ref, rel=0) and same(S.chems.split(list(kw), list(kw.values())), ref, rel=0), 'split', 'kwsplit', f'kwsplit/split of {kw} differs from the positional array {ref.tolist()}')
            except Exception as e:
                rec.exception('split', e, what=f'building a SplitIndexer from a {how} raised {type(e).__name__}: {str(e)[:150]}'); continue

            def split_read(key):
                r = S.resolve(key)
                if r[0] == 'all': return [SP.copy()]
                if r[0] == 'scalar': return [SP[r[1]]]
                if r[0] == 'group': return [SP[r[1]]]
                return [SP[i] for i in r[1]]

            def split_same(got, key):
                r = S.resolve(key)
                exp = split_read(key)
                if r[0] in ('all', 'scalar', 'group'): return same(got, exp[0], rel=0)
                if len(got) != len(exp): return False
                return all(same(np.asarray(g_, float), e_, rel=0) for g_, e_ in zip(got, exp))

            for _ in range(op['n']):
                write = rng.random() < 0.5
                key = gen_key(rng, S, write=False); as_list = rng.random() < 0.3 and not isinstance(key, str)
                k = to_key(key, as_list)
                r = S.resolve(key)
                form = 'ellipsis' if key == '...' else ('str' if isinstance(key, str) else ('list' if as_list else 'tuple'))
                kind = {'all': 'ellipsis', 'scalar': 'chemical', 'group': 'group'}.get(r[0]) or ('nested' if any(isinstance(i, list) for i in r[1]) else 'array')
                try:
                    if write:
                        fr = lambda: round(rng.random(), 3) if rng.random() < 0.8 else 0.0
                        if r[0] == 'all':
                            if rng.random() < 0.5: val = fr(); SP[:] = val
                            else: val = [fr() for _ in range(n)]; SP[:] = val
                        elif r[0] == 'scalar': val = fr(); SP[r[1]] = val
                        elif r[0] == 'group':
                            if rng.random() < 0.5: val = fr(); SP[r[1]] = val
                            else: val = [fr() for _ in r[1]]; SP[r[1]] = val
                            rec.hit('split:group-write')
                        else:
                            if rng.random() < 0.35:
                                val = fr()
                                for i in r[1]: SP[i] = val
                            else:
                                val = []
                                for i in r[1]:
                                    if isinstance(i, list) and rng.random() < 0.5: v = [fr() for _ in i]
                                    else: v = fr()
                                    val.append(v); SP[i] = v
                                if kind == 'nested': rec.hit('split:group-write')
                        sp[k] = val
                        rec.check(same(sp.data, SP, rel=0), 'split', f'write/data/{kind}/{form}', f'after split[{key!r}] = {val!r}: data {sp.data.to_array().tolist()} but positional model {SP.tolist()}')
                    got = sp[k]
                    rec.check(split_same(got, key), 'split', f'{"read-back" if write else "read"}/{kind}/{form}', f'split[{key!r}] = {got!r} but the positional model gives {split_read(key)!r}')
                except Exception as e:
                    rec.exception('split', e, what=f'SplitIndexer {"write" if write else "read"} with a {kind} key ({form}) raised {type(e).__name__}: {str(e)[:150]}')
                    SP[:] = sp.data.to_array()
                e = sparse_invariant(sp.data)
                rec.check(e is None, 'invariant', 'split', f'sparse invariant of the split data: {e}')
                p_chem.look()
                if kind != 'chemical': rec.mark_nontrivial(case_hash((setsig, 'SP', kind, form, key if isinstance(key, str) else tuple(key))))
        elif t == 'flows':
            # volumetric indexers and the unit-converting named access
            T_, P_ = st.T, st.P
            Vl = []
            for c in S.chems:
                try:
                    v = c.V(st.phase, T_, P_); Vl.append(1000. * v if (v is not None and np.isfinite(v) and v > 0) else None)
                except Exception: Vl.append(None)
            for _ in range(op['n']):
                what = rng.choice(['vol-read', 'vol-read', 'vol-write', 'get_flow', 'set_flow', 'get_data', 'set_data', 'mvol-read'])
                key = gen_key(rng, S, write=what in ('vol-write', 'set_flow', 'set_data')); as_list = rng.random() < 0.3 and not isinstance(key, str)
                k = to_key(key, as_list); r = S.resolve(key)
                form = 'ellipsis' if key == '...' else ('str' if isinstance(key, str) else ('list' if as_list else 'tuple'))
                flat = lambda r: list(range(n)) if r[0] == 'all' else ([r[1]] if r[0] == 'scalar' else (r[1] if r[0] == 'group' else [j for i in r[1] for j in (i if isinstance(i, list) else [i])]))
                hasgroup = r[0] == 'group' or (r[0] == 'array' and any(isinstance(i, list) for i in r[1]))
                is_read = what in ('vol-read', 'mvol-read', 'get_flow', 'get_data')
                pre1 = dense_of(st.imol); pre2 = dense_of(ms.imol)          # the data as it is before the operation (reads must leave it bit-identical)
                judged_read = False
                try:
                    if what in ('vol-read', 'vol-write', 'mvol-read'):
                        if any(Vl[i] is None for i in flat(r)): rec.refuse('no molar volume model for a chemical in this phase (volumetric key not judged)'); continue
                        V = np.array([v if v is not None else np.nan for v in Vl])
                    if what == 'vol-read':
                        got = st.ivol[k]; exp = model_read(S, np.where(D1 != 0, D1 * V, 0.0), key)
                        rec.check(same(got, exp, rel=1e-12), 'vol', f'read/{form}', f'ivol[{key!r}] = {np.asarray(got.to_array() if hasattr(got, "to_array") else got).tolist()} but positional model (mol * V) gives {np.asarray(exp).tolist()}')
                        rec.hit('vol'); judged_read = True
                    elif what == 'mvol-read':
                        ph = rng.choice(mphases)
                        try: Vp = np.array([1000. * c.V(ph.lower(), ms.T, ms.P) for c in S.chems], float)
                        except Exception: rec.refuse('no molar volume model for a chemical in this phase (volumetric key not judged)'); continue
                        row = D2[mphases.index(ph)]
                        if not np.all(np.isfinite(Vp[flat(r)])): rec.refuse('no molar volume model for a chemical in this phase (volumetric key not judged)'); continue
                        got = ms.ivol[ph, k]; exp = model_read(S, np.where(row != 0, row * np.where(np.isfinite(Vp), Vp, 0.0), 0.0), key)
                        rec.check(same(got, exp, rel=1e-12), 'vol', f'multi-phase-read/{form}', f'ivol[{ph!r},{key!r}] = {np.asarray(got.to_array() if hasattr(got, "to_array") else got).tolist()} but positional model gives {np.asarray(exp).tolist()}')
                        rec.hit('vol'); judged_read = True
                    elif what == 'vol-write':
                        if hasgroup:
                            # documented refusal: a scalar cannot be distributed over a group by volume; per-member arrays are accepted
                            # (strengthened) the refusal is granted only for this exception with this message; an accepted write is a violation (there is no
                            # composition by volume to distribute the scalar with), and whatever happens the entries the key does not address stay as they were
                            gk = 'group' if r[0] == 'group' else 'nested'
                            others = [i for i in range(n) if i not in set(flat(r))]
                            try: st.ivol[k] = 0.5
                            except AttributeError as e:
                                if 'cannot set groups by volumetric flow' not in str(e): raise
                                rec.refuse('volumetric group write refused (cannot set groups by volumetric flow)'); rec.hit('vol:group-write-refused'); rec.hit('vol:group-write-refused:' + gk)
                                rec.check(True, 'vol', f'group-write-accepted/{gk}/{form}', '')
                            else:
                                rec.check(False, 'vol', f'group-write-accepted/{gk}/{form}', f'ivol[{key!r}] = 0.5 (a scalar volumetric flow written to a {gk} key) was accepted although a scalar cannot be distributed over a group by volume '
                                          f'(documented: AttributeError cannot set groups by volumetric flow); molar data {pre1.tolist()} -> {dense_of(st.imol).tolist()}')
                            now1 = dense_of(st.imol)
                            rec.check(same(now1[others], pre1[others], rel=0) and same(dense_of(ms.imol), pre2, rel=0), 'vol', f'group-write/others-untouched/{gk}/{form}',
                                      f'ivol[{key!r}] = 0.5 (scalar volumetric write to a {gk} key) changed entries the key does not address: positions {others} were {pre1[others].tolist()} and are {now1[others].tolist()}')
                            D1[:] = now1; continue
                        pos = flat(r)
                        val = round(10 ** rng.uniform(-3, 1), 5) if r[0] == 'scalar' else [round(10 ** rng.uniform(-3, 1), 5) if rng.random() < 0.85 else 0.0 for _ in pos]
                        st.ivol[k] = val
                        for m_, i in enumerate(pos): D1[i] = (val if r[0] == 'scalar' else val[m_]) / V[i]
                        rec.check(same(dense_of(st.imol), D1, rel=1e-12), 'vol', f'write/data/{form}', f'after ivol[{key!r}] = {val!r}: molar data {dense_of(st.imol).tolist()} but model {D1.tolist()}')
                        back = st.ivol[k]
                        rec.check(same(back, val, rel=1e-12), 'vol', f'write/read-back/{form}', f'after ivol[{key!r}] = {val!r}: read-back {np.asarray(back).tolist()}')
                        rec.hit('vol:write')
                    elif what == 'get_flow':
                        units, basis, f = rng.choice([('kmol/hr', 'mol', 1.0), ('mol/hr', 'mol', 1000.0), ('kg/hr', 'wt', 1.0), ('g/hr', 'wt', 1000.0)])
                        Dm = D1 if basis == 'mol' else D1 * S.chems.MW
                        got = st.get_flow(units, k); exp = model_read(S, Dm, key)
                        rec.check(same(got, np.asarray(exp) * f, rel=1e-12), 'unit-access', f'get_flow/{basis}/{form}', f'get_flow({units!r}, {key!r}) = {np.asarray(got.to_array() if hasattr(got, "to_array") else got).tolist()} but positional model gives {(np.asarray(exp) * f).tolist()}')
                        rec.hit('unit-access'); judged_read = True
                    elif what == 'get_data':
                        units, f = rng.choice([('kmol/hr', 1.0), ('mol/hr', 1000.0)])
                        if rng.random() < 0.5 or key == '...':
                            got = st.imol.get_data(units, *(() if key == '...' else (k,))); exp = model_read(S, D1, key)
                        else:
                            ph = rng.choice(mphases); got = ms.imol.get_data(units, ph, k); exp = model_read(S, D2[mphases.index(ph)], key)
                        rec.check(same(got, np.asarray(exp) * f, rel=1e-12), 'unit-access', f'get_data/{form}', f'get_data({units!r}, {key!r}) = {np.asarray(got.to_array() if hasattr(got, "to_array") else got).tolist()} but positional model gives {(np.asarray(exp) * f).tolist()}')
                        rec.hit('unit-access'); judged_read = True
                    else:
                        units, basis, f = rng.choice([('kmol/hr', 'mol', 1.0), ('mol/hr', 'mol', 1000.0), ('kg/hr', 'wt', 1.0), ('g/hr', 'wt', 1000.0)])
                        if what == 'set_data': basis = 'mol'; units, f = rng.choice([('kmol/hr', 1.0), ('mol/hr', 1000.0)])
                        pos = flat(r)
                        if r[0] == 'scalar': val = round(10 ** rng.uniform(-1, 3), 3)
                        elif r[0] == 'group': val = round(10 ** rng.uniform(-1, 3), 3)          # distributed by the group composition of the basis
                        elif hasgroup: val = [round(10 ** rng.uniform(-1, 3), 3) for _ in r[1]]
                        else: val = [round(10 ** rng.uniform(-1, 3), 3) if rng.random() < 0.9 else 0.0 for _ in r[1]]
                        if what == 'set_flow': st.set_flow(val if r[0] in ('scalar', 'group') else np.array(val), units, k)
                        else: st.imol.set_data(val if r[0] in ('scalar', 'group') else np.array(val), units, k)
                        MW = S.chems.MW
                        def put(i, v): D1[i] = (v / f) / (MW[i] if basis == 'wt' else 1.0)
                        if r[0] == 'scalar': put(r[1], val)
                        elif r[0] == 'group':
                            for i, v in zip(r[1], val * S.groups[key][basis]): put(i, v)
                        else:
                            for m_, i in enumerate(r[1]):
                                if isinstance(i, list):
                                    for ii, vv in zip(i, val[m_] * S.groups[key[m_]][basis]): put(ii, vv)
                                else: put(i, val[m_])
                        rec.check(same(dense_of(st.imol), D1, rel=1e-11), 'unit-access', f'{what}/{basis}/{form}', f'after {what}({val!r}, {units!r}, {key!r}): molar data {dense_of(st.imol).tolist()} but model {D1.tolist()}')
                        rec.hit('unit-access')
                except Exception as e:
                    rec.exception('vol' if what.startswith(('vol', 'mvol')) else 'unit-access', e, what=f'{what} with key {key!r} raised {type(e).__name__}: {str(e)[:150]}')
                    D1[:] = dense_of(st.imol); D2[:] = dense_of(ms.imol)
                if is_read:
                    # (strengthened) a read must not change the flow data it reads from: the data after the read is compared bit for bit with the data before it,
                    # BEFORE the model is brought in line with the data (a read that converted units in place / wrote back was adopted into the model otherwise)
                    now1 = dense_of(st.imol); now2 = dense_of(ms.imol)
                    oks = rec.check(same(now1, pre1, rel=0) and same(now2, pre2, rel=0), 'unit-access' if what.startswith('get_') else 'vol', f'{what}/source-untouched',
                                    f'the read {what} with key {key!r} changed the flow data it reads: single-phase {pre1.tolist()} -> {now1.tolist()}; multi-phase {pre2.tolist()} -> {now2.tolist()}')
                    if judged_read: rec.hit('flows:read-source-untouched')
                    # the model follows the data as it was BEFORE the read (the writes that produced it were judged to 1e-11), never what a read left behind
                    D1[:] = pre1
                    if not oks: D1[:] = now1; D2[:] = now2          # reported above; later operations are judged on what is there now
                else:
                    D1[:] = dense_of(st.imol)          # writes: judged to 1e-11 above; keep the model bit-identical to the data for the exact clauses that follow
                e = sparse_invariant(st.imol.data)
                rec.check(e is None, 'invariant', 'flows', f'sparse invariant after {what}: {e}')
                p_chem.look(); p_mat.look()
        elif t == 'define':
            # aliases and groups defined while the caches are warm; a clash with a name of another chemical is rejected
            what = op['what']
            if what == 'alias':
                p = rng.randrange(n); alias = f'{ids[p]}_late{rng.randrange(3)}'
                try:
                    S.add_alias(ids[p], alias); later.append(('alias', (ids[p], alias)))
                    rec.check(S.chems.index(alias) == p and same(st.imol[alias], D1[p]) and same(ms.imol[alias], D2[:, p].sum()), 'late-alias', 'resolves', f'alias {alias!r} defined after {len(S.chems._index_cache)} cached lookups does not resolve to position {p}')
                    if n >= 2:
                        q = (p + 1) % n
                        check_read_single([alias, ids[q]], False, 'late-alias'); check_read_multi([ids[q], alias], False, 'phase', rng.choice(mphases), 'late-alias')
                    rec.hit('late-alias')
                except Exception as e:
                    rec.exception('late-alias', e, what=f'defining / using alias {alias!r} mid-history raised {type(e).__name__}: {str(e)[:150]}')
            elif what == 'group':
                name = f'LateGrp{len(S.groups)}'
                members = rng.sample(ids, rng.randrange(1, min(3, n) + 1))
                g = {'name': name, 'members': members, 'comp': None if rng.random() < 0.4 else [round(rng.uniform(0.1, 2), 3) for _ in members], 'wt': rng.random() < 0.5}
                # a tuple of the members is looked up (and cached) before the group exists
                check_read_single(list(members), False, 'late-group')
                try:
                    S.add_group(g); later.append(('group', g))
                    check_read_single(name, False, 'late-group'); check_read_single(list(members), False, 'late-group')
                    check_read_multi([name] + [i for i in ids if i not in members][:1], False, 'phase', rng.choice(mphases), 'late-group')
                    rec.hit('late-group')
                except Exception as e:
                    rec.exception('late-group', e, what=f'defining / using group {name!r} mid-history raised {type(e).__name__}: {str(e)[:150]}')
            elif n >= 2:
                p, q = rng.sample(range(n), 2); taken = rng.choice(S.names[q])
                before = dict(S.chems._index)
                try:
                    S.chems.set_alias(ids[p], taken)
                    rec.check(False, 'alias-clash', 'accepted', f'set_alias({ids[p]!r}, {taken!r}) accepted although {taken!r} is a name of {ids[q]!r}; index now {S.chems.index(taken)}')
                except ValueError:
                    rec.check(dict(S.chems._index) == before and S.chems.index(taken) == q and taken not in S.chems[ids[p]].aliases, 'alias-clash', 'tables-unchanged', f'a rejected alias {taken!r} for {ids[p]!r} still changed the name table')
                except Exception as e:
                    rec.exception('alias-clash', e, what=f'set_alias with a name claimed by another chemical raised {type(e).__name__} (documented: ValueError): {str(e)[:120]}')
                check_read_single([taken, S.names[p][0]], False, 'alias-clash')
        elif t == 'oreads':
            # read keys with a repeated chemical, a group next to one of its members, the same group twice
            for _ in range(op['n']):
                k_ = rng.randrange(2, 5); key = []
                for _i in range(k_):
                    if S.groups and rng.random() < 0.35: key.append(rng.choice(list(S.groups)))
                    else: key.append(rng.choice(S.names[rng.randrange(n)]))
                if rng.random() < 0.5: key[-1] = key[0]
                if S.groups and rng.random() < 0.4:
                    g_ = rng.choice(list(S.groups)); key[0] = g_; key[-1] = rng.choice(S.names[rng.choice(S.groups[g_]['idx'])])
                as_list = rng.random() < 0.3
                if rng.random() < 0.5: check_read_single(key, as_list, 'read')
                else: check_read_multi(key, as_list, rng.choice(['sum', 'phase', 'allphases']), rng.choice(phase_forms(rng.choice(mphases))), 'read')
                rec.hit('read:overlap')
                p_chem.look(); p_mat.look()
        elif t == 'entry':
            # the other name-to-position entry points
            for _ in range(op['n']):
                key = gen_key(rng, S); r = S.resolve(key); k = to_key(key)
                try:
                    gi = S.chems.get_index(k)
                    exp = slice(None) if r[0] == 'all' else r[1]
                    rec.check(gi == exp, 'entry-points', 'get_index', f'get_index({key!r}) = {gi!r} but the positional model gives {exp!r}')
                    if r[0] != 'all':
                        names = [key] if isinstance(key, str) else list(key)
                        plain = [nm for nm in names if nm not in S.groups]
                        av = S.chems.available_indices(plain + ['no_such_chemical_zz'])
                        rec.check(av == [S.pos[nm] for nm in plain], 'entry-points', 'available_indices', f'available_indices({plain}) = {av}')
                        for nm in plain:
                            rec.check((nm in S.chems) and S.chems[nm] is S.chems.tuple[S.pos[nm]] and getattr(S.chems, nm, None) is S.chems.tuple[S.pos[nm]] if nm.isidentifier() else S.chems[nm] is S.chems.tuple[S.pos[nm]],
                                      'entry-points', 'getitem-contains', f'chemicals[{nm!r}] / in / attribute access do not give the chemical at position {S.pos[nm]}')
                        if plain and len(set(S.pos[nm] for nm in plain)) == len(plain):
                            vals = [round(10 ** rng.uniform(-1, 2), 3) for _ in plain]
                            ref = np.zeros(n)
                            for nm, v in zip(plain, vals): ref[S.pos[nm]] = v
                            a1 = S.chems.array(plain, vals); a2 = S.chems.kwarray(dict(zip(plain, vals))); a3 = S.chems.iarray(plain, vals).data; a4 = S.chems.ikwarray(dict(zip(plain, vals))).data
                            rec.check(all(same(a, ref, rel=0) for a in (a1, a2, a3, a4)), 'entry-points', 'array-builders', f'array/kwarray/iarray/ikwarray of {dict(zip(plain, vals))} differ from the positional array {ref.tolist()}')
                    ph = rng.choice(mphases); row = D2[mphases.index(ph)]
                    exp = model_read(S, row, key)
                    g1 = ms[ph].imol[k]; g2 = ms.imol.get_phase(ph)[k]
                    rec.check(same(g1, exp) and same(g2, exp), 'entry-points', 'phase-proxy', f'ms[{ph!r}].imol[{key!r}] = {g1!r}, imol.get_phase({ph!r})[{key!r}] = {g2!r} but the positional model gives {np.asarray(exp).tolist()}')
                    allph = tuple(dict.fromkeys(list(mphases) + [q for q in 'gls' if q not in mphases and q.upper() not in mphases]))
                    mi = ms.imol.to_material_indexer(allph)
                    newph = list(mi.phases)
                    exp2 = np.zeros((len(newph), n))
                    for i_, q in enumerate(mphases): exp2[newph.index(q)] = D2[i_]
                    rec.check(sorted(newph) == sorted(allph) and same(mi.data, exp2, rel=0) and same(mi[ph, k], exp), 'entry-points', 'to_material_indexer', f'to_material_indexer({allph}) has phases {newph} and data {mi.data.to_array().tolist()} expected {exp2.tolist()}')
                    rec.check(same(dense_of(ms.imol), D2), 'entry-points', 'source-untouched', 'to_material_indexer / phase proxies changed the source data')
                    rec.hit('entry-points')
                except Exception as e:
                    rec.exception('entry-points', e, what=f'entry point with key {key!r} raised {type(e).__name__}: {str(e)[:150]}')
                p_chem.look(); p_mat.look()
        elif t == 'bad':
            # undefined names / phases inside a history: they raise the documented errors and leave every later lookup unaffected
            for _ in range(op['n']):
                good = gen_key(rng, S); bad = 'no_such_chemical_' + str(rng.randrange(50))
                badph = rng.choice([q for q in 'xyzq' if q not in mphases])
                form = rng.choice(BAD_KEY_FORMS)
                plain = [good] if isinstance(good, str) else [i for i in good]
                if good == '...': plain = [ids[0]]
                snap1 = dense_of(st.imol); snap2 = dense_of(ms.imol)
                try:
                    answer = None
                    if form == 'S-name': answer = st.imol[bad]
                    elif form == 'S-tuple': answer = st.imol[tuple(plain + [bad])]
                    elif form == 'M-name': answer = ms.imol[bad]
                    elif form == 'M-phase-name': answer = ms.imol[rng.choice(mphases), tuple([bad] + plain)]
                    elif form == 'M-bad-phase': answer = ms.imol[badph, to_key(good)]
                    elif form == 'M-bad-phase-only': answer = ms.imol[badph]
                    elif form == 'S-write': st.imol[tuple(plain + [bad])] = 1.0
                    else: answer = S.chems.index(bad)
                except BAD_KEY_DOCUMENTED[form] as e:
                    rec.check(True, 'bad-key', f'accepted/{form}', '')
                    rec.hit('bad-key'); rec.hit('bad-key:' + form); rec.hit(f'bad-key:{form}:{type(e).__name__}')
                except Exception as e:
                    # (strengthened) only the documented exception of this key form is a refusal; anything else is reported
                    rec.check(False, 'bad-key', f'wrong-exception/{form}', f'the undefined key of form {form} (name {bad!r} / phase {badph!r} next to {plain}) raised {type(e).__name__} ({str(e)[:120]}) '
                              f'instead of {" / ".join(t_.__name__ for t_ in BAD_KEY_DOCUMENTED[form])}', detail={'exception': f'{type(e).__name__}: {str(e)[:300]}', 'at': exc_key(e)})
                else:
                    # (strengthened) an undefined name / phase that is answered (from a cached or default position) or silently dropped by a write is a violation
                    rec.check(False, 'bad-key', f'accepted/{form}', f'the undefined key of form {form} (name {bad!r} / phase {badph!r} next to {plain}, phases {mphases}) was accepted without an error'
                              + (f' and answered {show(answer)}' if form != 'S-write' else ' (the write returned normally)'))
                # nothing was written, nothing was cached: the same valid keys still resolve
                rec.check(same(dense_of(st.imol), snap1, rel=0) and same(dense_of(ms.imol), snap2, rel=0), 'bad-key:then-read', 'data-untouched', f'a rejected lookup ({form}) changed the flow data')
                if check_read_single(good, False, 'bad-key:then-read') and check_read_multi(good, False, 'phase', rng.choice(phase_forms(rng.choice(mphases))), 'bad-key:then-read'): pass
                p_chem.look(); p_mat.look()
        elif t == 'siblings':
            # several separately compiled chemical sets over the same chemicals (same order / own chemical objects / another order / one chemical more or
            # less), each with its own definition of the same group names and of one alias; the same key is looked up through indexers of every set in a
            # random order: every set must answer from its own tables, whatever was looked up through a sibling before
            if 'worlds' not in sib:
                try:
                    phases2 = rng.choice([q for q in ('lg', 'gls', 'lL', 'sl', 'glLs', 'l', 'g', 'gs') if set(q) != set(mphases)])
                    gnames = sorted(S.groups) + (['GrpS'] if (rng.random() < 0.7 or not S.groups) else [])
                    worlds = []
                    # (1) own chemical objects (unpickled set, or a set compiled from copies of the chemical objects), made before the contested alias exists
                    if rng.random() < 0.35:
                        own = AdoptedSetup(pickle.loads(pickle.dumps(S.chems)), inherited=S.groups); okind = 'pickled'
                    else:
                        cc = tmo.Chemicals([c.copy(c.ID, CAS=c.CAS) for c in S.chems]); cc.compile()
                        own = AdoptedSetup(cc); okind = 'copied'
                    cleanup.append(lambda c_=own.chems: release(c_))
                    tag = 'shared_tag'; sib['tag'] = None
                    if n >= 2:
                        fresh_tag = tag not in S.pos
                        p = rng.randrange(n) if fresh_tag else S.pos[tag]
                        q = (p + rng.randrange(1, n)) % n
                        if fresh_tag:
                            S.add_alias(ids[p], tag); later.append(('alias', (ids[p], tag)))
                            cleanup.append(lambda c_=S.chems.tuple[p]: c_.aliases.discard(tag))      # the chemical objects are shared by later cases
                        try: own.add_alias(ids[q], tag); sib['tag'] = tag
                        except ValueError: pass
                    for g in gen_world_groups(rng, own.ids, gnames): own.add_group(g)
                    worlds.append(World.fresh(okind, own, mphases, phases2, rng))
                    # (2) the same chemical objects compiled again in the same order  (3) in another order  (4) one chemical more or less
                    defs = [('recompiled', list(ids))]
                    if n >= 2:
                        perm = list(ids); rng.shuffle(perm)
                        if perm == list(ids): perm = perm[1:] + perm[:1]
                        defs.append(('permuted', perm))
                    if n >= 8 or (n >= 2 and rng.random() < 0.5):
                        drop = rng.choice(ids); defs.append(('extended', [i for i in ids if i != drop]))
                    else: defs.append(('extended', list(ids) + [rng.choice([i for i in POOL if i not in ids])]))
                    for kind_, wids in defs:
                        w_ = Setup(wids, gen_world_groups(rng, wids, gnames))
                        w_.check_own_aliases(rec, kind_)
                        cleanup.append(lambda c_=w_.chems: release(c_))
                        worlds.append(World.fresh(kind_, w_, mphases, phases2, rng))
                    sib['P2'] = World.second_stream(S, phases2, rng)
                    sib['worlds'] = worlds
                except Exception as e:
                    rec.exception('sibling-set', e, what=f'building sibling chemical sets / their streams raised {type(e).__name__}: {str(e)[:150]}'); continue
            P = World('primary', S, st, ms, D1, D2, mphases, *sib['P2'])
            allw = [P] + sib['worlds']
            gsets = {}
            for W in allw:
                for nm, g_ in W.S.groups.items(): gsets.setdefault(nm, []).append(frozenset(W.S.ids[i] for i in g_['idx']))
            contested = sorted(gsets) + ([sib['tag']] if sib['tag'] else [])
            # added: names shared by two chemicals in one world (undefined there) that another world - one claimant less - resolves; every world is asked for its own shared names
            shared_ = sorted({nm for W in allw for nm in W.S.contested})
            if shared_:
                contested = contested + shared_
                rs_ = random.Random((case['seed'] ^ 0x51B) + len(contested))
                for W in allw:
                    if W.S.contested: check_contested(rec, W.S, W.kind, W.st, W.ms, W.ph, rs_, limit=2)
                rec.hit('shared-name:siblings')
            tags = {'groups': {nm for nm, v in gsets.items() if len(set(v)) >= 2}, 'alias': sib['tag']}
            for _ in range(op['n']):
                speaker = rng.choice(allw)
                write = rng.random() < 0.4
                key = gen_contested_key(rng, speaker.S, contested, write)
                as_list = rng.random() < 0.3 and not isinstance(key, str)
                acc = rng.choice(SIB_ACCESS); vk = rng.choice(['scalar', 'list']); hint = rng.randrange(12)
                order = list(allw); rng.shuffle(order)
                for W in order: sibling_access(rec, rng, W, P, key, as_list, acc, write, vk, hint, setsig, tags)
                p_chem.look(); p_mat.look()
        elif t == 'shared':
            # added: (1) the shared names of the primary set again, now inside the history (caches warm); (2) a dedicated set with shared names of every source
            # (user-defined chemicals, copies, isomers), compiled in several ways and orders.  The operation draws from its own generator: the rest of the history is unchanged
            if S.contested:
                check_contested(rec, S, 'primary', st, ms, mphases, random.Random(op['seed'] ^ 0x77)); rec.hit('shared-name:primary-mid-history')
            run_shared(rec, op, cleanup)
            rec.hit('shared')
            p_chem.look(); p_mat.look()
        elif t == 'regroup':
            # an existing group name is defined again with other members while the caches are warm, used, and then given its first definition back
            gd = dict(gdefs)
            for kind_, a_ in later:
                if kind_ == 'group': gd[a_['name']] = a_
            if not gd or n < 2: rec.hit('regroup:not-applicable'); continue
            name = rng.choice(sorted(gd)); old = gd[name]
            for _try in range(8):
                members = rng.sample(ids, rng.randrange(1, min(3, n) + 1))
                if set(members) != set(old['members']): break
            else: continue
            new = {'name': name, 'members': members, 'comp': None if rng.random() < 0.4 else [round(rng.uniform(0.1, 2), 3) for _ in members], 'wt': rng.random() < 0.5}
            ph = rng.choice(mphases)
            outside = [i for i in ids if i not in old['members'] and i not in members]
            keys = [name] + ([[outside[0], name]] if outside else [])

            def sweep(clause):
                for key in keys:
                    check_read_single(key, False, clause); check_read_multi(key, False, 'phase', ph, clause); check_read_multi(key, False, 'sum', ph, clause)
                try:
                    gi = S.chems.get_index(name)
                    rec.check(gi == S.groups[name]['idx'], clause, 'get_index', f'get_index({name!r}) = {gi!r} but the group is defined as positions {S.groups[name]["idx"]}')
                except Exception as e: rec.exception(clause, e, what=f'get_index of a group raised {type(e).__name__}: {str(e)[:120]}')

            sweep('group-redefined:before')        # the very same lookups are made before, so that the caches hold them
            try:
                S.add_group(new)
            except Exception as e:
                rec.exception('group-redefined', e, what=f'defining group {name!r} again raised {type(e).__name__}: {str(e)[:150]}'); continue
            sweep('group-redefined')
            v = round(10 ** rng.uniform(-1, 3), 4)
            try:
                st.imol[name] = v          # a scalar is distributed by the composition of the group as it is defined now
                for i, x in zip(S.groups[name]['idx'], v * S.groups[name]['mol']): D1[i] = x
                okd = rec.check(same(dense_of(st.imol), D1, rel=1e-11), 'group-redefined', 'single-phase/write-data/scalar-value',
                                f'after group {name!r} was defined again as {members}, imol[{name!r}] = {v} gives data {dense_of(st.imol).tolist()} but the positional model gives {D1.tolist()}')
                if not okd: D1[:] = dense_of(st.imol)
            except Exception as e:
                rec.exception('group-redefined', e, what=f'scalar write to a group that was defined again raised {type(e).__name__}: {str(e)[:150]}'); D1[:] = dense_of(st.imol)
            try:
                S.add_group(old)
            except Exception as e:
                rec.exception('group-redefined:restored', e, what=f'giving group {name!r} its first definition back raised {type(e).__name__}: {str(e)[:150]}'); continue
            sweep('group-redefined:restored')
            rec.hit('regroup')
            p_chem.look(); p_mat.look()
    rec.hit('evictions:chemicals-cache', p_chem.evictions)
    rec.hit('evictions:material-cache', p_mat.evictions)
    rec.notes.setdefault('max_cache_len_seen', {})
    rec.notes['max_cache_len_seen'] = {'chemicals._index_cache': max(p_chem.maxlen, rec.notes['max_cache_len_seen'].get('chemicals._index_cache', 0)),
                                       'MaterialIndexer._index_cache': max(p_mat.maxlen, rec.notes['max_cache_len_seen'].get('MaterialIndexer._index_cache', 0))}


def gen_case(rng, tier, big):
    ids, groups = gen_setdef(rng)
    phases = rng.choice(['lg', 'lgs', 'lL', 'gls', 'sl', 'glLs', 'lg', 'lgs', 'lL', 'gls', 'sl', 'glLs', 'l', 'g'])
    ops = [{'t': 'names'}]
    for _ in range(rng.randrange(3, 8)):
        t = rng.choices(['reads', 'writes', 'mix', 'twin', 'expand'], [4, 4, 2, 1, 1.5])[0]
        ops.append({'t': t, 'n': rng.randrange(3, 25)} if t not in ('mix', 'expand') else {'t': t})
    # added operation kinds, interleaved at random positions of the history
    for _ in range(rng.randrange(2, 7)):
        t = rng.choices(['ewrites', 'split', 'flows', 'define', 'oreads', 'entry', 'bad'], [2, 2, 2, 2.5, 1.5, 1.5, 1.5])[0]
        op = {'t': t, 'n': rng.randrange(3, 15)}
        if t == 'define': op['what'] = rng.choice(['alias', 'group', 'clash'])
        ops.insert(rng.randrange(1, len(ops) + 1), op)
    # added: sibling chemical sets over the same chemicals (several operations per case so that their histories interleave with everything else) and
    # groups defined again mid-history
    for _ in range(rng.randrange(0, 4)):
        t = rng.choices(['siblings', 'regroup'], [3, 1])[0]
        ops.insert(rng.randrange(1, len(ops) + 1), {'t': t, 'n': rng.randrange(3, 15)})
    if big and len(ids) >= 5:
        nflood = 700 if tier == 'quick' else 3000
        ops.insert(rng.randrange(1, len(ops)), {'t': 'flood', 'tgt': 'S', 'n': nflood})
        ops.insert(rng.randrange(1, len(ops)), {'t': 'flood', 'tgt': 'M', 'n': nflood})
        ops.append({'t': 'reads', 'n': 20}); ops.append({'t': 'twin', 'n': 10})
    case = {'ids': ids, 'groups': groups, 'phases': phases, 'ops': ops, 'seed': rng.randrange(2 ** 31)}
    # added: sets with shared names.  Drawn from a generator of their own (seeded by the case) so that the cases generated before this addition stay what they were:
    # (a) about one case in five gets isomers (2-3 chemicals of one formula) into its primary set, at random positions; (b) 0-2 'shared' operations at random places of the history
    r2 = random.Random(case['seed'] ^ 0x150C10)
    if r2.random() < 0.2:
        present = [f for f in ISO_FAMILIES if any(i in ids for i in f)]
        fam = r2.choice(present) if (present and r2.random() < 0.7) else r2.choice(ISO_FAMILIES)
        have = [i for i in fam if i in ids]
        want = 2 if r2.random() < 0.6 else 3
        extra = r2.sample([i for i in fam if i not in ids], min(max(want - len(have), 1), len(fam) - len(have)))
        ids = list(ids)
        while len(ids) + len(extra) > 8:
            drop = [i for i in ids if i not in fam]
            if not drop: break
            ids.remove(r2.choice(drop))
        for i in extra: ids.insert(r2.randrange(len(ids) + 1), i)
        case['ids'] = ids[:8]; case['isomers'] = list(fam)
    for _ in range(r2.choice([0, 0, 1, 1, 2])):
        ops.insert(r2.randrange(1, len(ops) + 1), {'t': 'shared', 'n': r2.randrange(3, 10), 'seed': r2.randrange(2 ** 31), 'def': gen_shared_def(r2)})
    return case


def replay(case, rec):
    run_case(case, rec)


def run(rec, rng, tier, shard, nshards):
    n = 300 if tier == 'quick' else 2500
    for i in range(n):
        case = gen_case(rng, tier, big=(i % 10 == 0))
        try:
            run_case(case, rec)
        except Exception as e:
            rec.exception('harness', e, what=f'harness error: {type(e).__name__}: {e}')
        if i % 37 == 0: rec.sample({k: (v if k != 'ops' else v[:6]) for k, v in case.items()})
