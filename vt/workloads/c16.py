"""C16 — activity-coefficient models are normalised, consistent and side-effect free.

Monitor: the real model objects (UNIFAC, Dortmund, NIST, ideal) are called on random compositions; the oracle checks
vertex normalisation, the Gibbs-Duhem residual by central differences, permutation equivariance, the treatment of
chemicals without groups, bit-identity of the caller's composition array and agreement of the functional form.
The values themselves are compared with an independent implementation of the published models (thermo.unifac with its own
parameter tables), so that a thermodynamically consistent but wrong model (temperature dependence, transposed interaction
table, wrong coordination number / exponent / Q-R column, wrong table wired to a class) is not admitted.
"""
import itertools
import numpy as np
import thermosteam as tmo
from thermosteam import equilibrium as eq
from thermo import unifac as _tu            # independent implementation + its own parameter tables (thermosteam ships private copies of both)
from vt.core import case_hash

PID = 'C16'
RULE = ('sets of 2-6 of 13 chemicals with functional groups (+ N2 / CO2 without), model classes UNIFAC, Dortmund, NIST (groups assigned by name on private uncached chemicals), ideal; '
        'compositions: vertices, near-vertices (1-1e-9), traces (1e-12..1e-3), interior (all x>=1e-3) with random zero-sum directions for Gibbs-Duhem, T 250-450 K, '
        'every permutation of the set for n<=4 (6 random ones otherwise). Added: faces of the simplex (exact zeros on group-bearing members), sets with 0/1 group-bearing member + inert ones (ideal fallback), '
        'Gibbs-Duhem with relative steps (trace / near-vertex / face compositions) and with the inert members moving, caller array kinds (list, int array, non-contiguous view) for the model object and the '
        'functional form, activity_coefficients() on the sub-composition, re-evaluation after an intervening call at another (x, T) and with args captured earlier (bit identity), ideal fugacity / Poynting '
        'models (with a Psats array) in every case. Value reference: every evaluated (x, T) of the three group models (first state, second state, activity_coefficients()) against '
        'thermo.unifac.UNIFAC.from_subgroups with thermo\'s own tables on the renormalised sub-composition of the group-bearing members (1e-12 relative); Gibbs-Duhem also with Richardson '
        'extrapolation (steps eps, eps/2) bounded by the rounding of the difference quotient; Gibbs-Duhem cases whose largest term is below the resolution are counted as gd:unresolved:*, not as held. '
        'non-trivial = >=2 chemicals with groups and a non-ideal value (|gamma-1|>1e-6) observed; distinct = hash of the case')
MIN_NONTRIVIAL = {'quick': 300, 'thorough': 10000}
ASSUMPTIONS = ['Gibbs-Duhem is evaluated by central differences with step 1e-3*min(x) along zero-sum directions; bound 1e-4 of the largest term + 1e-7 (nearly ideal mixtures have terms of 1e-7 and finite-difference noise of a few 1e-9); '
               'the Richardson combination (4 S(eps/2) - S(eps))/3 removes the eps^2 truncation term (which alone reaches 8e-6 of the largest term) and is bounded by 1e-7 of the largest term + 1000*2.2e-16/eps '
               '(observed worst 20*2.2e-16/eps: pure rounding of the quotient); a case is called resolved when that floor is below 1 % of its largest term',
               'the models named UNIFAC / Dortmund / NIST are the published ones: the values are compared with the implementation and the parameter tables of the external package thermo (version 0, version 1, '
               'version 1 with NISTUFSG/NISTUFIP), which the harness pins to three literal values (water/ethanol) when it is imported; members without groups are left out and the rest renormalised (documented behaviour)',
               'vertex normalisation, permutation equivariance and the value reference are bounded by 1e-12 relative (observed worst over 60000 cases 2.9e-15 / 1.1e-14 / 1.1e-14: rounding of the group sums in another order)',
               'NIST groups are assigned by name; the six names used are looked up in thermo\'s NIST table to obtain the subgroup ids the reference uses (a KeyError of the library for a name that table does not hold would be a refusal; any other failure is a violation)']
WITH = ('Water', 'Ethanol', 'Methanol', 'Propanol', 'Butanol', 'Hexane', 'Heptane', 'Octane', 'Benzene', 'Toluene', 'Acetone', 'EthylAcetate', 'AceticAcid')
WITHOUT = ('N2', 'CO2')
NIST_GROUPS = {'Water': {'H2O': 1}, 'Ethanol': {'CH3': 1, 'CH2': 1, 'OH prim': 1}, 'Propanol': {'CH3': 1, 'CH2': 2, 'OH prim': 1}, 'Butanol': {'CH3': 1, 'CH2': 3, 'OH prim': 1},
               'Hexane': {'CH3': 2, 'CH2': 4}, 'Heptane': {'CH3': 2, 'CH2': 5}, 'Octane': {'CH3': 2, 'CH2': 6}, 'Methanol': {'CH3OH': 1}, 'Acetone': {'CH3': 1, 'CH3CO': 1}}
CLASSES = {'UNIFAC': 'UNIFACActivityCoefficients', 'Dortmund': 'DortmundActivityCoefficients', 'NIST': 'NISTActivityCoefficients', 'Ideal': 'IdealActivityCoefficients'}
GROUP_CLASSES = ('UNIFAC', 'Dortmund', 'NIST')
VALUE_RTOL = 1e-12          # observed worst difference to the reference 1.1e-14 over 60000 cases (all kinds, present and absent members)
U = 2.2e-16

_chems = {}
_nist = {}

# ---- independent value reference -----------------------------------------------------------------------------------------------------------------
if hasattr(_tu, 'load_unifac_ip'): _tu.load_unifac_ip()
REF = {'UNIFAC': dict(version=0, interaction_data=_tu.UFIP, subgroups=_tu.UFSG),
       'Dortmund': dict(version=1, interaction_data=_tu.DOUFIP2016, subgroups=_tu.DOUFSG),
       'NIST': dict(version=1, interaction_data=_tu.NISTUFIP, subgroups=_tu.NISTUFSG)}          # NIST-modified UNIFAC (Kang et al. 2015): the Dortmund equations with its own groups and parameters
_NIST_ID = {sg.group: k for k, sg in _tu.NISTUFSG.items()}


def lnq(gp, gm, step):
    """(ln gp - ln gm)/step in the harness's own arithmetic: a zero, negative or nan coefficient gives nan (judged: a nan sum is over every bound), never a FloatingPointError of the harness."""
    with np.errstate(all='ignore'):
        return (np.log(gp) - np.log(gm)) / step


def within(a, b, rtol):
    """all |a - b| <= rtol |b| (nan / inf on either side: False)."""
    a = np.asarray(a, float); b = np.asarray(b, float)
    if a.shape != b.shape: return False
    with np.errstate(all='ignore'):
        return bool(np.all(np.isfinite(a)) and np.all(np.isfinite(b)) and np.all(np.abs(a - b) <= rtol * np.abs(b)))


def relmax(a, b):
    """largest |a/b - 1| (recorded residual only); None when it cannot be formed."""
    try:
        with np.errstate(all='ignore'):
            v = float(np.max(np.abs(np.asarray(a, float) / np.asarray(b, float) - 1.0)))
        return v if v == v else None
    except Exception:
        return None


def ref_gammas(cls, groups, xs, T):
    """activity coefficients of the published model, computed by thermo from {subgroup id: count} dicts."""
    return np.array(_tu.UNIFAC.from_subgroups(T=float(T), xs=[float(v) for v in xs], chemgroups=groups, **REF[cls]).gammas(), float)


def _pin_reference():
    # the reference itself is pinned to literal values (ethanol/water; the Dortmund and NIST ones are the values printed in the class documentation, the UNIFAC one is the recorded repaired value)
    eth, wat = {1: 1, 2: 1, 14: 1}, {16: 1}
    for cls, groups, xs, want in (('UNIFAC', [eth, wat], [0.3, 0.7], [1.6646371246270681, 1.222781811499355]),
                                  ('Dortmund', [wat, eth], [0.5, 0.5], [1.4749922296583007, 1.2418240954542252]),
                                  ('NIST', [wat, eth], [0.5, 0.5], [1.4794334959559001, 1.2379032263253202])):
        got = ref_gammas(cls, groups, xs, 350.)
        if not np.allclose(got, want, rtol=1e-12, atol=0): raise RuntimeError(f'harness: the thermo reference for {cls} gives {got.tolist()}, pinned {want}')


_pin_reference()


def groups_of(cls, i, c):
    """{subgroup id: count} of one chemical for the reference; None when the chemical has no assignment. NIST: from the harness's own names through thermo's table."""
    if cls == 'NIST':
        if i not in NIST_GROUPS: return None
        return {_NIST_ID[k]: v for k, v in NIST_GROUPS[i].items()}
    g = getattr(c, cls)
    return {int(k): int(v) for k, v in g.items()} if g else None


def required(tier):
    return ['vertex', 'gibbs-duhem', 'permutation', 'no-groups', 'x-unchanged', 'functional-form', 'ideal-models', 'model:UNIFAC', 'model:Dortmund', 'model:NIST',
            'kind:face', 'kind:few-groups', 'gd:relative-step', 'gd:inert-moving', 'caller:list', 'caller:view', 'caller:int', 'caller:f-view', 'repeatable', 'sub-model-method', 'ideal:every-case',
            'value-reference', 'value-reference:UNIFAC', 'value-reference:Dortmund', 'value-reference:NIST', 'value-reference:second-state', 'value-reference:absent-member', 'value-reference:single-group-member',
            'sub-model-method:UNIFAC', 'sub-model-method:Dortmund', 'sub-model-method:NIST',
            'gd:richardson', 'gd:resolved:interior', 'gd:resolved:relative-step/interior', 'gd:resolved:relative-step/face', 'gd:resolved:relative-step/trace', 'gd:resolved:inert-moving',
            'ambient:activity_coefficients.gamma_modified_UNIFAC']


def chem(i):
    c = _chems.get(i)
    if c is None: c = _chems[i] = tmo.Chemical(i, cache=True)
    return c


def nist_chem(i):
    c = _nist.get(i)
    if c is None:
        c = tmo.Chemical(i, cache=False)
        try:
            c.NIST.set_group_counts_by_name(NIST_GROUPS[i])
        except Exception as e:
            c = NistFailure(i, e)
        _nist[i] = c
    return c


class NistFailure:
    """set_group_counts_by_name raised: a refusal only for a KeyError on a name that the independent NIST table does not hold either (none of the six names used)."""
    def __init__(self, i, e):
        self.ID = i; self.exc = e
        self.warranted = isinstance(e, KeyError) and any(k not in _NIST_ID for k in NIST_GROUPS[i])


def model(cls, ids):
    if cls == 'NIST':
        cs = [nist_chem(i) if i in NIST_GROUPS else tmo.Chemical(i, cache=True) for i in ids]
        bad = [c for c in cs if isinstance(c, NistFailure)]
        if bad: return None, bad
    else:
        cs = [chem(i) for i in ids]
    return getattr(eq, CLASSES[cls])(cs), cs


def gen_extras(rng, case, m):
    """fields of the added clauses (drawn after the original ones)."""
    case['u'] = [round(rng.uniform(-1, 1), 6) for _ in range(m)]                     # relative-step direction for Gibbs-Duhem
    x2 = [rng.uniform(0.02, 1) for _ in range(m)]; s2 = sum(x2)
    case['x2'] = [v / s2 for v in x2]; case['T2'] = round(rng.uniform(250, 450), 2)   # intervening evaluation at another state
    case['xk'] = rng.choice(['list', 'view', 'f-view', 'int' if all(v in (0.0, 1.0) for v in case['x']) else 'list'])
    case['Psats'] = [round(10 ** rng.uniform(2, 6), 3) for _ in range(m)]; case['P'] = rng.choice([5e4, 101325., 1e6])
    return case


def gen_case(rng):
    cls = rng.choice(['UNIFAC', 'Dortmund', 'Dortmund', 'NIST', 'Ideal'])
    pool = [i for i in WITH if (cls != 'NIST' or i in NIST_GROUPS)]
    if rng.random() < 0.04:
        # at most one member has group data (plus >=1 without): the model class falls back to the ideal model
        n = rng.randrange(0, 2)
        ids = rng.sample(pool, n)
        extra = list(WITHOUT) if rng.random() < 0.5 else [rng.choice(WITHOUT)]
        if rng.random() < 0.5: extra.reverse()
        m = n + len(extra)
        x = [rng.uniform(0.02, 1) for _ in range(m)]
        if rng.random() < 0.2: x[rng.randrange(m)] = 0.0
        if sum(x) == 0: x[0] = 1.0
        s = sum(x); x = [v / s for v in x]
        return gen_extras(rng, {'cls': cls, 'ids': ids, 'extra': extra, 'kind': 'few-groups', 'x': x, 'T': round(rng.uniform(250, 450), 2), 'd': [0.0] * m, 'pseed': rng.randrange(10 ** 6)}, m)
    n = rng.randrange(2, min(6, len(pool)) + 1)
    ids = rng.sample(pool, n)
    extra = [i for i in WITHOUT if rng.random() < 0.25]
    kind = rng.choice(['vertex', 'near-vertex', 'trace', 'interior', 'interior', 'interior', 'face'])
    m = n + len(extra)
    if extra and rng.random() < 0.15:
        # only members without group data are present
        x = [0.0] * n + [1.0 / len(extra)] * len(extra)
        return gen_extras(rng, {'cls': cls, 'ids': ids, 'extra': extra, 'kind': 'inert-only', 'x': x, 'T': round(rng.uniform(250, 450), 2), 'd': [0.0] * m, 'pseed': rng.randrange(10 ** 6)}, m)
    if kind == 'vertex':
        x = [0.0] * m; x[rng.randrange(n)] = 1.0
    elif kind == 'near-vertex':
        k = rng.randrange(n); x = [1e-9 / (m - 1)] * m; x[k] = 1 - 1e-9
    elif kind == 'trace':
        x = [10 ** rng.uniform(-12, -3) if rng.random() < 0.5 else rng.random() for _ in range(m)]
    elif kind == 'face':
        # exact zeros on some group-bearing members, at least one (usually >= 2) of them present
        x = [rng.uniform(0.02, 1) for _ in range(m)]
        if n == 2 and not extra:
            x[rng.randrange(n)] = 0.0                      # an edge of a binary is a vertex reached through the general path
        else:
            nz = rng.randrange(1, n) if n > 2 else 1
            for k in rng.sample(range(n), nz): x[k] = 0.0
    else:
        x = [rng.uniform(0.02, 1) for _ in range(m)]
    s = sum(x); x = [v / s for v in x]
    d = [rng.uniform(-1, 1) for _ in range(m)]; mean = sum(d) / m; d = [v - mean for v in d]
    return gen_extras(rng, {'cls': cls, 'ids': ids, 'extra': extra, 'kind': kind, 'x': x, 'T': round(rng.uniform(250, 450), 2), 'd': d, 'pseed': rng.randrange(10 ** 6)}, m)


def run_case(case, rec):
    rec.begin_case(case)
    cls = case['cls']; ids = list(case['ids']) + list(case['extra'])
    n = len(case['ids'])
    T = case['T']
    try:
        G, cs = model(cls, ids)
    except Exception as e:
        rec.exception('construct', e, what=f'{cls} model construction raised {type(e).__name__}: {e}'); return
    if G is None:
        for b in cs:
            if b.warranted: rec.refuse('NIST group names not available')
            else: rec.exception('construct', b.exc, what=f'{b.ID}.NIST.set_group_counts_by_name({NIST_GROUPS[b.ID]}) raised {type(b.exc).__name__}: {b.exc} (every name is a subgroup of the NIST table)')
        return
    tag = cls
    rec.hit('model:' + cls)
    x = np.array(case['x'], float)
    x0 = x.copy()
    try:
        g = np.asarray(G(x, T), float)
    except Exception as e:
        rec.exception('call', e, what=f'{cls}({ids})(x, {T}) raised {type(e).__name__}: {str(e)[:150]}'); return
    # (6) caller's composition untouched, bit for bit
    rec.check(x.tobytes() == x0.tobytes(), 'x-unchanged', tag, f'{cls} model modified the composition array passed by the caller: {x0.tolist()} -> {x.tolist()}')
    x = x0.copy()
    # (7) functional form used inside the flash solvers
    try:
        gf = np.asarray(G.f(x.copy(), T, *G.args), float)
        rec.check(np.array_equal(gf, g) or (gf.ndim == 0 and np.all(g == gf)), 'functional-form', tag, f'Gamma.f(x,T,*args) = {gf.tolist()} differs from Gamma(x,T) = {g.tolist()}')
    except Exception as e:
        rec.exception('functional-form', e, what=f'{cls}.f raised {type(e).__name__}: {e}')
    # (0) value of the published model (independent implementation and tables)
    if cls in GROUP_CLASSES:
        value_reference(case, rec, cls, ids, cs, n, x, T, g, case['kind'])
    extra_clauses(case, rec, G, cs, cls, ids, n, T, g)
    if cls == 'Ideal':
        rec.check(np.all(g == 1.0), 'ideal-models', 'gamma', f'ideal activity coefficients {g.tolist()}')
        try:
            phi = eq.IdealFugacityCoefficients(cs)(x, T, 101325.); pcf = eq.MockPoyintingCorrectionFactors(cs)(T, 101325., None)
            rec.check(np.all(np.asarray(phi) == 1.0) and np.all(np.asarray(pcf) == 1.0), 'ideal-models', 'phi-pcf', f'ideal fugacity {phi} / Poynting {pcf} not one')
            rec.check(eq.IdealFugacityCoefficients(cs).f(x, T, 101325.) == 1.0 and G.f(x, T) == 1.0, 'ideal-models', 'functional', 'ideal functional forms do not return one')
        except Exception as e:
            rec.exception('ideal-models', e, what=f'ideal models raised {type(e).__name__}: {e}')
        rec.mark_nontrivial(case_hash(case)); return
    # (4) chemicals without group data get exactly one and do not perturb the others
    for k in range(n, len(ids)):
        rec.check(g[k] == 1.0, 'no-groups', f'value/{tag}', f'{ids[k]} has no groups but gamma = {g[k]!r}')
    if case['extra'] and x[:n].sum() > 0:
        try:
            G2, _ = model(cls, list(case['ids']))
            xs = x[:n] / x[:n].sum()
            g2 = np.asarray(G2(xs.copy(), T), float)
            rec.check(np.allclose(g[:n], g2, rtol=1e-12, atol=0), 'no-groups', f'perturbs/{tag}', f'gamma with inert members {g[:n].tolist()} != gamma on the renormalised sub-composition {g2.tolist()}')
        except Exception as e:
            rec.exception('no-groups', e, what=f'sub-model raised {type(e).__name__}: {e}')
    if case['kind'] == 'few-groups':
        # at most one member with group data: nothing else of the property applies (no pair of interacting members)
        rec.hit('kind:few-groups'); rec.mark_nontrivial(case_hash(case)); return
    if case['kind'] == 'face': rec.hit('kind:face')
    # (1) normalisation at the vertices
    if case['kind'] in ('vertex', 'near-vertex') or (x.max() == 1.0 and int(np.argmax(x)) < n):
        k = int(np.argmax(x))
        rec.check(abs(g[k] - 1.0) <= 1e-12, 'vertex', tag, f'gamma of {ids[k]} at x={x[k]!r} is {g[k]!r}, not 1', residual=abs(g[k] - 1.0))
    # (2) Gibbs-Duhem on interior points
    if case['kind'] == 'interior' and n >= 2:
        d = np.array(case['d'], float)
        d[n:] = 0.0; d[:n] -= d[:n].mean()      # move only chemicals that have groups; still zero-sum
        eps = 1e-3 * x[:n].min() / max(np.abs(d).max(), 1e-12)
        try:
            gp = np.asarray(G((x + eps * d).copy(), T), float); gm = np.asarray(G((x - eps * d).copy(), T), float)
            dln = lnq(gp, gm, 2 * eps)
            terms = x * dln
            res = abs(terms.sum()); scale = np.abs(terms).max()
            gd_judge(rec, res <= 1e-4 * scale + 1e-7, scale, 1e-7, 'gibbs-duhem', tag, 'interior', f'sum x_i dln(gamma_i)/ds = {terms.sum()!r} with largest term {scale!r} (x={x.tolist()}, T={T})', res / max(scale, 1e-300))
            gd_richardson(rec, G, x, d, eps, T, None, terms.sum(), scale, tag, 'interior')
        except Exception as e:
            rec.exception('gibbs-duhem', e, what=f'{cls} raised {type(e).__name__} near an interior point: {e}')
    # (2b) Gibbs-Duhem with relative steps x_i -> x_i (1 +- eps (u_i - ubar)): resolves trace, near-vertex and face compositions
    #      (members at exactly zero stay at zero: the derivative is taken inside the face)
    present = [k for k in range(n) if x[k] > 0]
    if len(present) >= 2 and case.get('u') is not None and case['kind'] != 'vertex':
        u = np.array(case['u'], float); u[n:] = 0.0
        xs = x[:n].sum()
        ubar = float((x[:n] * u[:n]).sum() / xs)
        d = np.zeros(len(x)); d[:n] = x[:n] * (u[:n] - ubar)        # zero-sum, zero on absent and on inert members
        eps = 1e-3
        try:
            gp = np.asarray(G((x + eps * d).copy(), T), float); gm = np.asarray(G((x - eps * d).copy(), T), float)
            dln = lnq(gp[present], gm[present], 2 * eps)
            terms = x[present] * dln
            res = abs(terms.sum()); scale = np.abs(terms).max()
            gd_judge(rec, res <= 1e-4 * scale + 1e-7, scale, 1e-7, 'gibbs-duhem', f'{tag}/relative-step/{case["kind"]}', f'relative-step/{case["kind"]}',
                     f'sum x_i dln(gamma_i)/ds = {terms.sum()!r} with largest term {scale!r} along a relative step (x={x.tolist()}, T={T})', res / max(scale, 1e-300))
            gd_richardson(rec, G, x, d, eps, T, present, terms.sum(), scale, f'{tag}/relative-step/{case["kind"]}', f'relative-step/{case["kind"]}')
            rec.hit('gd:relative-step')
        except Exception as e:
            rec.exception('gibbs-duhem', e, what=f'{cls} raised {type(e).__name__} near a {case["kind"]} point: {e}')
    # (2c) Gibbs-Duhem with the members without group data moving too (their gamma is one: d ln(gamma) = 0)
    if case['kind'] == 'interior' and n >= 2 and case['extra']:
        d = np.array(case['d'], float); d -= d.mean()
        eps = 1e-3 * x.min() / max(np.abs(d).max(), 1e-12)
        try:
            gp = np.asarray(G((x + eps * d).copy(), T), float); gm = np.asarray(G((x - eps * d).copy(), T), float)
            dln = lnq(gp, gm, 2 * eps)
            terms = x * dln
            res = abs(terms.sum()); scale = np.abs(terms).max()
            gd_judge(rec, res <= 1e-4 * scale + 1e-7, scale, 1e-7, 'gibbs-duhem', f'{tag}/inert-moving', 'inert-moving',
                     f'sum x_i dln(gamma_i)/ds = {terms.sum()!r} with largest term {scale!r}, inert members moving (x={x.tolist()}, d={d.tolist()}, T={T})', res / max(scale, 1e-300))
            gd_richardson(rec, G, x, d, eps, T, None, terms.sum(), scale, f'{tag}/inert-moving', 'inert-moving')
            rec.hit('gd:inert-moving')
        except Exception as e:
            rec.exception('gibbs-duhem', e, what=f'{cls} raised {type(e).__name__} near an interior point (inert members moving): {e}')
    # (3) permutation equivariance (fresh model object per permutation; exercises the per-tuple cache)
    m = len(ids)
    if m <= 4: perms = list(itertools.permutations(range(m)))[1:]
    else:
        import random
        r = random.Random(case['pseed']); perms = []
        for _ in range(6):
            p = list(range(m)); r.shuffle(p); perms.append(tuple(p))
    for p in perms:
        try:
            Gp, _ = model(cls, [ids[i] for i in p])
            gpv = np.asarray(Gp(x[list(p)].copy(), T), float)
            ok = gpv.shape == g.shape and np.allclose(gpv, g[list(p)], rtol=1e-12, atol=0)          # observed worst 3.8e-15 (order of the group sums)
            rec.check(ok, 'permutation', tag, f'gamma depends on the position in the chemical list: order {[ids[i] for i in p]} gives {gpv.tolist()} expected {g[list(p)].tolist()}',
                      residual=relmax(gpv, g[list(p)]) if ok else None)
            if not ok: break
        except Exception as e:
            rec.exception('permutation', e, what=f'{cls} on a permuted list raised {type(e).__name__}: {e}'); break
    if np.abs(g[:n] - 1).max() > 1e-6: rec.mark_nontrivial(case_hash(case))


def gd_judge(rec, ok, scale, floor, clause, key, label, what, residual):
    """a Gibbs-Duhem sum over its bound is a violation; one within it counts as held only when the absolute floor of the bound is below 1 % of the largest term
    (nearly ideal sets, trace and near-vertex compositions have terms below the rounding of the difference quotient: counted gd:unresolved:*, not held)."""
    if not ok:
        rec.check(False, clause, key, what); return
    if floor <= 1e-2 * scale:
        rec.check(True, clause, key, what, residual=residual)
        if clause == 'gibbs-duhem-richardson': rec.hit('gd:resolved:' + label)
    else:
        rec.hit(('gd:unresolved:' if clause == 'gibbs-duhem-richardson' else 'gd:unresolved-plain:') + label)


def gd_richardson(rec, G, x, d, eps, T, sel, s1, scale, key, label):
    """second central difference with half the step; (4 S(eps/2) - S(eps))/3 has no eps^2 term: what is left is the rounding of ln(gamma) divided by eps."""
    h = eps / 2
    gp = np.asarray(G((x + h * d).copy(), T), float); gm = np.asarray(G((x - h * d).copy(), T), float)
    dln = lnq(gp, gm, 2 * h)
    s2 = float((x * dln).sum() if sel is None else (x[sel] * dln[sel]).sum())
    R = abs((4 * s2 - s1) / 3)
    floor = 1000 * U / eps
    bound = 1e-7 * scale + floor
    rec.hit('gd:richardson')
    gd_judge(rec, R <= bound, scale, floor, 'gibbs-duhem-richardson', key, label,
             f'Richardson-extrapolated sum x_i dln(gamma_i)/ds = {R!r} (steps {eps!r} and half of it: {s1!r}, {s2!r}) with largest term {scale!r}, bound {bound!r} (x={np.asarray(x).tolist()}, T={T})', R / bound)


def value_reference(case, rec, cls, ids, cs, n, x, T, g, where):
    """g = model(x, T) against the reference on the renormalised sub-composition of the n group-bearing members (the others are documented to be left out)."""
    groups = [groups_of(cls, ids[k], cs[k]) for k in range(n)]
    if any(gr is None for gr in groups):
        rec.refuse(f'a member of the with-groups pool carries no {cls} group assignment (value reference not defined)'); return
    g = np.asarray(g, float)
    if n == 1:
        # one member with groups among inert ones: its sub-composition is the pure chemical
        rec.check(g.shape == (len(ids),) and abs(g[0] - 1.0) <= VALUE_RTOL, 'value-reference', f'{cls}/single-group-member', f'{ids[0]} is the only member with groups (pure sub-composition) but gamma = {g.tolist()}',
                  residual=abs(g[0] - 1.0) if g.shape == (len(ids),) else None)
        rec.hit('value-reference:single-group-member'); return
    if n < 2: return
    xs = float(x[:n].sum())
    if not xs > 0:
        rec.hit('value-reference:undefined/no-group-member-present'); return       # 0/0 sub-composition: the published model has no value there
    xsub = x[:n] / xs
    r = ref_gammas(cls, groups, xsub, T)
    ok = g.shape == (len(ids),) and within(g[:n], r, VALUE_RTOL)
    res = relmax(g[:n], r) if g.shape == (len(ids),) else None
    rec.check(ok, 'value-reference', f'{cls}/{where}', f'{cls}({ids})(x={np.asarray(x).tolist()}, T={T}) = {g.tolist()} but the published model (thermo.unifac, groups {groups}) gives {r.tolist()} for the members with groups',
              residual=res)
    rec.hit('value-reference:' + cls)
    if np.any(xsub == 0): rec.hit('value-reference:absent-member')
    return r


def extra_clauses(case, rec, G, cs, cls, ids, n, T, g):
    """added clauses that apply to every model class: caller array kinds, re-evaluation, sub-model method, ideal fugacity / Poynting."""
    tag = cls
    x = np.array(case['x'], float)
    m = len(x)
    same = lambda a: (np.array_equal(np.asarray(a, float), g) or (np.ndim(a) == 0 and np.all(g == a)))
    # (6b) other kinds of caller arrays
    xk = case.get('xk')
    try:
        if xk == 'list':
            xc = [float(v) for v in x]; keep = list(xc)
            gl = G(xc, T)
            rec.check(xc == keep and all(type(v) is float for v in xc), 'x-unchanged', f'{tag}/list', f'{cls} model modified the composition list passed by the caller: {keep} -> {xc}')
            rec.check(same(gl), 'functional-form', f'{tag}/list-argument', f'Gamma(list(x), T) = {np.asarray(gl).tolist()} differs from Gamma(array(x), T) = {g.tolist()}')
            rec.hit('caller:list')
        elif xk == 'int':
            xc = np.array(case['x']).astype(int); keep = xc.copy()
            gi = G(xc, T)
            rec.check(xc.dtype == keep.dtype and xc.tobytes() == keep.tobytes(), 'x-unchanged', f'{tag}/int-array', f'{cls} model modified the integer composition array passed by the caller')
            rec.check(same(gi), 'functional-form', f'{tag}/int-argument', f'Gamma(int array, T) = {np.asarray(gi).tolist()} differs from Gamma(float array, T) = {g.tolist()}')
            rec.hit('caller:int')
        elif xk in ('view', 'f-view'):
            base = np.full(2 * m, -7.0); base[::2] = x; keep = base.copy()
            xc = base[::2]
            if xk == 'view':
                gv = G(xc, T)
            else:
                gv = G.f(xc, T, *G.args)                      # the functional form on the caller's own (non-contiguous) array
            rec.check(base.tobytes() == keep.tobytes(), 'x-unchanged', f'{tag}/{xk}', f'{cls} ({"model object" if xk == "view" else "functional form"}) modified the non-contiguous composition view passed by the caller: {keep.tolist()} -> {base.tolist()}')
            rec.check(same(gv), 'functional-form', f'{tag}/{xk}-argument', f'value on a non-contiguous view {np.asarray(gv).tolist()} differs from Gamma(x, T) = {g.tolist()}')
            rec.hit('caller:' + xk)
        # the functional form on the caller's own contiguous array (not a copy)
        xc = x.copy(); keep = xc.copy()
        gf = G.f(xc, T, *G.args)
        rec.check(xc.tobytes() == keep.tobytes(), 'x-unchanged', f'{tag}/functional-form', f'{cls}.f modified the composition array passed by the caller: {keep.tolist()} -> {xc.tolist()}')
    except Exception as e:
        rec.exception('x-unchanged', e, what=f'{cls} on a caller array of kind {xk} raised {type(e).__name__}: {str(e)[:150]}')
    # (6c) side-effect free: the same (x, T) after an evaluation at another state, and through args captured before it
    if case.get('x2') is not None:
        try:
            args = G.args
            x2 = np.array(case['x2'], float)
            g2nd = G(x2, case['T2'])
            if cls in GROUP_CLASSES:
                value_reference(case, rec, cls, ids, cs, n, np.array(case['x2'], float), case['T2'], g2nd, 'second-state')
                rec.check(x2.tobytes() == np.array(case['x2'], float).tobytes(), 'x-unchanged', f'{tag}/second-state', f'{cls} model modified the composition array of the intervening evaluation')
                rec.hit('value-reference:second-state')
            g3 = G(x.copy(), T)
            g4 = G.f(x.copy(), T, *args)
            rec.check(same(g3), 'repeatable', f'{tag}/after-other-state', f'Gamma(x, T) = {g.tolist()} but {np.asarray(g3).tolist()} after an intervening evaluation at x2={case["x2"]}, T2={case["T2"]}')
            rec.check(same(g4), 'repeatable', f'{tag}/captured-args', f'Gamma.f(x, T, *args) with args captured before an intervening evaluation gives {np.asarray(g4).tolist()}, Gamma(x, T) = {g.tolist()}')
        except Exception as e:
            rec.exception('repeatable', e, what=f'{cls} re-evaluation raised {type(e).__name__}: {str(e)[:150]}')
    # (7b) the public sub-model method (chemicals with groups only, normalised sub-composition)
    if (cls in GROUP_CLASSES and n >= 2) or (hasattr(G, 'activity_coefficients') and hasattr(G, '_index')):
        # n >= 2 members with groups: the class must offer the method (the harness knows which members carry groups: the first n)
        idx = list(range(n)) if (cls in GROUP_CLASSES and n >= 2) else [int(i) for i in G._index]
        xs = x[idx]
        if xs.sum() > 0:
            xs = xs / xs.sum(); keep = xs.copy()
            try:
                ga = np.asarray(G.activity_coefficients(xs, T), float)
                rec.check(xs.tobytes() == keep.tobytes(), 'x-unchanged', f'{tag}/activity_coefficients', f'{cls}.activity_coefficients modified the composition array passed by the caller')
                ref = g[idx]
                # nan (member absent from every group sum) is mapped to one by the functional form: tolerated only for an absent member whose coefficient from the model object is exactly one
                nan_ok = ga.shape == ref.shape and all((a == a) or (xs[k] == 0 and ref[k] == 1.0) for k, a in enumerate(ga))
                rec.check(nan_ok, 'functional-form', f'{tag}/activity_coefficients/nan-for-present-member', f'{cls}.activity_coefficients(x_sub={xs.tolist()}, T) = {ga.tolist()} has nan for a member that is present (Gamma(x, T) = {ref.tolist()})')
                okv = ga.shape == ref.shape and all((a == b) or (a != a) or abs(a - b) <= 1e-12 * abs(b) for a, b in zip(ga, ref))
                rec.check(okv, 'functional-form', f'{tag}/activity_coefficients', f'{cls}.activity_coefficients(x_sub, T) = {ga.tolist()} differs from Gamma(x, T)[with groups] = {ref.tolist()}')
                if cls in GROUP_CLASSES and n >= 2:
                    groups = [groups_of(cls, ids[k], cs[k]) for k in range(n)]
                    if all(gr is not None for gr in groups):
                        r = ref_gammas(cls, groups, xs, T)
                        fin = ga == ga
                        rec.check(ga.shape == r.shape and within(ga[fin], r[fin], VALUE_RTOL), 'value-reference', f'{cls}/activity_coefficients',
                                  f'{cls}.activity_coefficients(x_sub={xs.tolist()}, T={T}) = {ga.tolist()} but the published model (thermo.unifac) gives {r.tolist()}',
                                  residual=relmax(ga[fin], r[fin]) if (ga.shape == r.shape and fin.any()) else None)
                    rec.hit('sub-model-method:' + cls)
                rec.hit('sub-model-method')
            except Exception as e:
                rec.exception('functional-form', e, what=f'{cls}.activity_coefficients raised {type(e).__name__}: {str(e)[:150]}')
    # (5b) ideal models return one for every chemical list / argument form and leave their arguments alone
    try:
        P = case.get('P', 101325.)
        y = x.copy(); Ps = np.array(case.get('Psats') or [1e4] * m, float); Ps0 = Ps.copy()
        phi = eq.IdealFugacityCoefficients(cs); pcf = eq.MockPoyintingCorrectionFactors(cs); gid = eq.IdealActivityCoefficients(cs)
        vals = [phi(y, T, P), phi.f(y, T, P, *phi.args), pcf(T, P, Ps), pcf(T, P), gid.f(y, T, *gid.args)]
        gi = gid(y, T)
        rec.check(all(np.all(np.asarray(v) == 1.0) for v in vals) and np.shape(gi) == (m,) and np.all(gi == 1.0), 'ideal-models', 'every-case', f'ideal fugacity / Poynting / activity models returned {vals} / {np.asarray(gi).tolist()}')
        rec.check(y.tobytes() == x.tobytes() and Ps.tobytes() == Ps0.tobytes(), 'x-unchanged', 'ideal-models', 'an ideal model modified the composition or the Psats array passed by the caller')
        rec.hit('ideal:every-case')
    except Exception as e:
        rec.exception('ideal-models', e, what=f'ideal models raised {type(e).__name__}: {e}')


def replay(case, rec):
    run_case(case, rec)


def run(rec, rng, tier, shard, nshards):
    n = 1500 if tier == 'quick' else 20000
    for i in range(n):
        case = gen_case(rng)
        try:
            run_case(case, rec)
        except Exception as e:
            rec.exception('harness', e, what=f'harness error: {type(e).__name__}: {e}')
        if i % 151 == 0: rec.sample(case)
