"""C16 — activity-coefficient models are normalised, consistent and side-effect free.

Monitor: the real model objects (UNIFAC, Dortmund, NIST, ideal) are called on random compositions; the oracle checks
vertex normalisation, the Gibbs-Duhem residual by central differences, permutation equivariance, the treatment of
chemicals without groups, bit-identity of the caller's composition array and agreement of the functional form.
"""
import itertools
import numpy as np
import thermosteam as tmo
from thermosteam import equilibrium as eq
from vt.core import case_hash

PID = 'C16'
RULE = ('sets of 2-6 of 13 chemicals with functional groups (+ N2 / CO2 without), model classes UNIFAC, Dortmund, NIST (groups assigned by name on private uncached chemicals), ideal; '
        'compositions: vertices, near-vertices (1-1e-9), traces (1e-12..1e-3), interior (all x>=1e-3) with random zero-sum directions for Gibbs-Duhem, T 250-450 K, '
        'every permutation of the set for n<=4 (6 random ones otherwise). non-trivial = >=2 chemicals with groups and a non-ideal value (|gamma-1|>1e-6) observed; distinct = hash of the case')
MIN_NONTRIVIAL = {'quick': 300, 'thorough': 10000}
ASSUMPTIONS = ['Gibbs-Duhem is evaluated by central differences with step 1e-3*min(x) along zero-sum directions; bound 1e-4 of the largest term + 1e-7 (nearly ideal mixtures have terms of 1e-7 and finite-difference noise of a few 1e-9)',
               'NIST groups exist only for the chemicals whose names resolve in the bundled NIST subgroup table']
WITH = ('Water', 'Ethanol', 'Methanol', 'Propanol', 'Butanol', 'Hexane', 'Heptane', 'Octane', 'Benzene', 'Toluene', 'Acetone', 'EthylAcetate', 'AceticAcid')
WITHOUT = ('N2', 'CO2')
NIST_GROUPS = {'Water': {'H2O': 1}, 'Ethanol': {'CH3': 1, 'CH2': 1, 'OH prim': 1}, 'Propanol': {'CH3': 1, 'CH2': 2, 'OH prim': 1}, 'Butanol': {'CH3': 1, 'CH2': 3, 'OH prim': 1},
               'Hexane': {'CH3': 2, 'CH2': 4}, 'Heptane': {'CH3': 2, 'CH2': 5}, 'Octane': {'CH3': 2, 'CH2': 6}, 'Methanol': {'CH3OH': 1}, 'Acetone': {'CH3': 1, 'CH3CO': 1}}
CLASSES = {'UNIFAC': 'UNIFACActivityCoefficients', 'Dortmund': 'DortmundActivityCoefficients', 'NIST': 'NISTActivityCoefficients', 'Ideal': 'IdealActivityCoefficients'}

_chems = {}
_nist = {}


def required(tier):
    return ['vertex', 'gibbs-duhem', 'permutation', 'no-groups', 'x-unchanged', 'functional-form', 'ideal-models', 'model:UNIFAC', 'model:Dortmund', 'model:NIST']


def chem(i):
    c = _chems.get(i)
    if c is None: c = _chems[i] = tmo.Chemical(i, cache=True)
    return c


def nist_chem(i):
    c = _nist.get(i)
    if c is None:
        c = tmo.Chemical(i, cache=False)
        try:
            c.NIST.set_group_counts_by_name(NIST_GROUPS[i])
        except Exception:
            c = False
        _nist[i] = c
    return c


def model(cls, ids):
    if cls == 'NIST':
        cs = [nist_chem(i) if i in NIST_GROUPS else tmo.Chemical(i, cache=True) for i in ids]
        if any(c is False for c in cs): return None, None
    else:
        cs = [chem(i) for i in ids]
    return getattr(eq, CLASSES[cls])(cs), cs


def gen_case(rng):
    cls = rng.choice(['UNIFAC', 'Dortmund', 'Dortmund', 'NIST', 'Ideal'])
    pool = [i for i in WITH if (cls != 'NIST' or i in NIST_GROUPS)]
    n = rng.randrange(2, min(6, len(pool)) + 1)
    ids = rng.sample(pool, n)
    extra = [i for i in WITHOUT if rng.random() < 0.25]
    kind = rng.choice(['vertex', 'near-vertex', 'trace', 'interior', 'interior', 'interior'])
    m = n + len(extra)
    if extra and rng.random() < 0.15:
        # only members without group data are present
        x = [0.0] * n + [1.0 / len(extra)] * len(extra)
        return {'cls': cls, 'ids': ids, 'extra': extra, 'kind': 'inert-only', 'x': x, 'T': round(rng.uniform(250, 450), 2), 'd': [0.0] * m, 'pseed': rng.randrange(10 ** 6)}
    if kind == 'vertex':
        x = [0.0] * m; x[rng.randrange(n)] = 1.0
    elif kind == 'near-vertex':
        k = rng.randrange(n); x = [1e-9 / (m - 1)] * m; x[k] = 1 - 1e-9
    elif kind == 'trace':
        x = [10 ** rng.uniform(-12, -3) if rng.random() < 0.5 else rng.random() for _ in range(m)]
    else:
        x = [rng.uniform(0.02, 1) for _ in range(m)]
    s = sum(x); x = [v / s for v in x]
    d = [rng.uniform(-1, 1) for _ in range(m)]; mean = sum(d) / m; d = [v - mean for v in d]
    return {'cls': cls, 'ids': ids, 'extra': extra, 'kind': kind, 'x': x, 'T': round(rng.uniform(250, 450), 2), 'd': d, 'pseed': rng.randrange(10 ** 6)}


def run_case(case, rec):
    rec.begin_case(case)
    cls = case['cls']; ids = list(case['ids']) + list(case['extra'])
    n = len(case['ids'])
    T = case['T']
    try:
        G, cs = model(cls, ids)
    except Exception as e:
        rec.exception('construct', e, what=f'{cls} model construction raised {type(e).__name__}: {e}'); return
    if G is None: rec.refuse('NIST group names not available'); return
    tag = cls
    rec.hit('model:' + cls)
    x = np.array(case['x'], float)
    x0 = x.copy()
    try:
        g = np.asarray(G(x, T), float)
    except Exception as e:
        rec.exception('call', e, what=f'{cls}({ids})(x, {T}) raised {type(e).__name__}: {str(e)[:150]}'); return
    # (6) caller's composition untouched, bit for bit
    rec.check(x.tobytes() == x0.tobytes(), 'x-unchanged', tag, f'{cls} model modified the composition array passed by the caller: {x0.tolist()} -> {x.tolist()}')
    x = x0.copy()
    # (7) functional form used inside the flash solvers
    try:
        gf = np.asarray(G.f(x.copy(), T, *G.args), float)
        rec.check(np.array_equal(gf, g) or (gf.ndim == 0 and np.all(g == gf)), 'functional-form', tag, f'Gamma.f(x,T,*args) = {gf.tolist()} differs from Gamma(x,T) = {g.tolist()}')
    except Exception as e:
        rec.exception('functional-form', e, what=f'{cls}.f raised {type(e).__name__}: {e}')
    if cls == 'Ideal':
        rec.check(np.all(g == 1.0), 'ideal-models', 'gamma', f'ideal activity coefficients {g.tolist()}')
        try:
            phi = eq.IdealFugacityCoefficients(cs)(x, T, 101325.); pcf = eq.MockPoyintingCorrectionFactors(cs)(T, 101325., None)
            rec.check(np.all(np.asarray(phi) == 1.0) and np.all(np.asarray(pcf) == 1.0), 'ideal-models', 'phi-pcf', f'ideal fugacity {phi} / Poynting {pcf} not one')
            rec.check(eq.IdealFugacityCoefficients(cs).f(x, T, 101325.) == 1.0 and G.f(x, T) == 1.0, 'ideal-models', 'functional', 'ideal functional forms do not return one')
        except Exception as e:
            rec.exception('ideal-models', e, what=f'ideal models raised {type(e).__name__}: {e}')
        rec.mark_nontrivial(case_hash(case)); return
    # (4) chemicals without group data get exactly one and do not perturb the others
    for k in range(n, len(ids)):
        rec.check(g[k] == 1.0, 'no-groups', f'value/{tag}', f'{ids[k]} has no groups but gamma = {g[k]!r}')
    if case['extra'] and x[:n].sum() > 0:
        try:
            G2, _ = model(cls, list(case['ids']))
            xs = x[:n] / x[:n].sum()
            g2 = np.asarray(G2(xs.copy(), T), float)
            rec.check(np.allclose(g[:n], g2, rtol=1e-12, atol=0), 'no-groups', f'perturbs/{tag}', f'gamma with inert members {g[:n].tolist()} != gamma on the renormalised sub-composition {g2.tolist()}')
        except Exception as e:
            rec.exception('no-groups', e, what=f'sub-model raised {type(e).__name__}: {e}')
    # (1) normalisation at the vertices
    if case['kind'] in ('vertex', 'near-vertex'):
        k = int(np.argmax(x))
        rec.check(abs(g[k] - 1.0) <= 1e-9, 'vertex', tag, f'gamma of {ids[k]} at x={x[k]!r} is {g[k]!r}, not 1', residual=abs(g[k] - 1.0))
    # (2) Gibbs-Duhem on interior points
    if case['kind'] == 'interior' and n >= 2:
        d = np.array(case['d'], float)
        d[n:] = 0.0; d[:n] -= d[:n].mean()      # move only chemicals that have groups; still zero-sum
        eps = 1e-3 * x[:n].min() / max(np.abs(d).max(), 1e-12)
        try:
            gp = np.asarray(G((x + eps * d).copy(), T), float); gm = np.asarray(G((x - eps * d).copy(), T), float)
            dln = (np.log(gp) - np.log(gm)) / (2 * eps)
            terms = x * dln
            res = abs(terms.sum()); scale = np.abs(terms).max()
            rec.check(res <= 1e-4 * scale + 1e-7, 'gibbs-duhem', tag, f'sum x_i dln(gamma_i)/ds = {terms.sum()!r} with largest term {scale!r} (x={x.tolist()}, T={T})', residual=res / max(scale, 1e-300))
        except Exception as e:
            rec.exception('gibbs-duhem', e, what=f'{cls} raised {type(e).__name__} near an interior point: {e}')
    # (3) permutation equivariance (fresh model object per permutation; exercises the per-tuple cache)
    m = len(ids)
    if m <= 4: perms = list(itertools.permutations(range(m)))[1:]
    else:
        import random
        r = random.Random(case['pseed']); perms = []
        for _ in range(6):
            p = list(range(m)); r.shuffle(p); perms.append(tuple(p))
    for p in perms:
        try:
            Gp, _ = model(cls, [ids[i] for i in p])
            gpv = np.asarray(Gp(x[list(p)].copy(), T), float)
            ok = np.allclose(gpv, g[list(p)], rtol=1e-9, atol=0)
            rec.check(ok, 'permutation', tag, f'gamma depends on the position in the chemical list: order {[ids[i] for i in p]} gives {gpv.tolist()} expected {g[list(p)].tolist()}')
            if not ok: break
        except Exception as e:
            rec.exception('permutation', e, what=f'{cls} on a permuted list raised {type(e).__name__}: {e}'); break
    if np.abs(g[:n] - 1).max() > 1e-6: rec.mark_nontrivial(case_hash(case))


def replay(case, rec):
    run_case(case, rec)


def run(rec, rng, tier, shard, nshards):
    n = 1500 if tier == 'quick' else 20000
    for i in range(n):
        case = gen_case(rng)
        try:
            run_case(case, rec)
        except Exception as e:
            rec.exception('harness', e, what=f'harness error: {type(e).__name__}: {e}')
        if i % 151 == 0: rec.sample(case)
