"""C16 — activity-coefficient models are normalised, consistent and side-effect free.

Monitor: the real model objects (UNIFAC, Dortmund, NIST, ideal) are called on random compositions; the oracle checks
vertex normalisation, the Gibbs-Duhem residual by central differences, permutation equivariance, the treatment of
chemicals without groups, bit-identity of the caller's composition array and agreement of the functional form.
The values themselves are compared with an independent implementation of the published models (thermo.unifac with its own
parameter tables), so that a thermodynamically consistent but wrong model (temperature dependence, transposed interaction
table, wrong coordination number / exponent / Q-R column, wrong table wired to a class) is not admitted.
"""
import itertools
import numpy as np
import thermosteam as tmo
from thermosteam import equilibrium as eq
from thermo import unifac as _tu            # independent implementation + its own parameter tables (thermosteam ships private copies of both)
from vt.core import case_hash

PID = 'C16'
RULE = ('sets of 2-6 of 13 chemicals with functional groups (+ N2 / CO2 without), model classes UNIFAC, Dortmund, NIST (groups assigned by name on private uncached chemicals), ideal; '
        'compositions: vertices, near-vertices (1-1e-9), traces (1e-12..1e-3), interior (all x>=1e-3) with random zero-sum directions for Gibbs-Duhem, T 250-450 K, '
        'every permutation of the set for n<=4 (6 random ones otherwise). Added: faces of the simplex (exact zeros on group-bearing members), sets with 0/1 group-bearing member + inert ones (ideal fallback), '
        'Gibbs-Duhem with relative steps (trace / near-vertex / face compositions) and with the inert members moving, caller array kinds (list, int array, non-contiguous view) for the model object and the '
        'functional form, activity_coefficients() on the sub-composition, re-evaluation after an intervening call at another (x, T) and with args captured earlier (bit identity), ideal fugacity / Poynting '
        'models (with a Psats array) in every case. Value reference: every evaluated (x, T) of the three group models (first state, second state, activity_coefficients()) against '
        'thermo.unifac.UNIFAC.from_subgroups with thermo\'s own tables on the renormalised sub-composition of the group-bearing members (1e-12 relative); Gibbs-Duhem also with Richardson '
        'extrapolation (steps eps, eps/2) bounded by the rounding of the difference quotient; Gibbs-Duhem cases whose largest term is below the resolution are counted as gd:unresolved:*, not as held. '
        'non-trivial = >=2 chemicals with groups and a non-ideal value (|gamma-1|>1e-6) observed; distinct = hash of the case. '
        'Added (round 6): two more chemical pools judged by every clause above - wide-pool: 50 more named chemicals whose assignments hold the structural subgroups the first 13 lack (quaternary carbon C / CY-C / c-C with '
        'surface parameter Q = 0, CH, cyclic, olefinic, substituted aromatic carbon, ethers, amines, nitriles, halogenated and single-group molecules; NIST by name) mixed with the first 13; assigned-groups: blank chemicals '
        'with assignments drawn from the whole subgroup vocabulary of the reference tables (1-4 subgroups, counts 1-6, main-group pairs without interaction parameters included), assigned by name, by name in two '
        'accumulating calls (reset=False) or by subgroup id, with twin members (same assignment, different chemical object: equal coefficients); call forms: evaluation under numpy\'s ignore error state (the state of '
        'the compiled form) judged against the reference and bit-identical to the default-state value, integer / numpy temperature. Keys of the new pools carry <class>/<pool>[/zero-area-group].')
MIN_NONTRIVIAL = {'quick': 300, 'thorough': 10000}
ASSUMPTIONS = ['Gibbs-Duhem is evaluated by central differences with step 1e-3*min(x) along zero-sum directions; bound 1e-4 of the largest term + 1e-7 (nearly ideal mixtures have terms of 1e-7 and finite-difference noise of a few 1e-9); '
               'the Richardson combination (4 S(eps/2) - S(eps))/3 removes the eps^2 truncation term (which alone reaches 8e-6 of the largest term) and is bounded by 1e-7 of the largest term + 1000*2.2e-16/eps '
               '(observed worst 20*2.2e-16/eps: pure rounding of the quotient); a case is called resolved when that floor is below 1 % of its largest term',
               'the models named UNIFAC / Dortmund / NIST are the published ones: the values are compared with the implementation and the parameter tables of the external package thermo (version 0, version 1, '
               'version 1 with NISTUFSG/NISTUFIP), which the harness pins to three literal values (water/ethanol) when it is imported; members without groups are left out and the rest renormalised (documented behaviour)',
               'vertex normalisation, permutation equivariance and the value reference are bounded by 1e-12 relative (observed worst over 60000 cases 2.9e-15 / 1.1e-14 / 1.1e-14: rounding of the group sums in another order)',
               'NIST groups are assigned by name; the six names used are looked up in thermo\'s NIST table to obtain the subgroup ids the reference uses (a KeyError of the library for a name that table does not hold would be a refusal; any other failure is a violation)',
               'assigned-groups pool: the vocabulary is every subgroup name that is unambiguous in thermo\'s table of the class, minus the ionic-liquid groups and the groups of later table revisions (their published R / Q '
               'differ between table versions: not decidable here); every drawn molecule holds at least one subgroup with Q > 0 (a molecule of zero surface area has no combinatorial term); counts <= 6, <= 4 subgroups per molecule',
               'a model value does not depend on numpy\'s floating point error state: the value under errstate(all=ignore) - the behaviour of the compiled (numba) form, which cannot raise - is judged like any other value',
               'an integer (or numpy float64 / int64) temperature denotes the same temperature as the equal Python float',
               'added pools only (the bounds of the first pool are unchanged): (a) value / permutation / twin / sub-composition comparisons allow 1e-12 max(1, |ln gamma|) relative, since exp() turns the absolute rounding '
               'of ln(gamma) into a relative one (observed 3.5e-15 |ln gamma| at ln gamma = -368; a coefficient that underflows to 0 in the reference must be 0; a reference that leaves the range of math.exp is counted '
               'value-reference:reference-out-of-range, not judged); (b) the plain Gibbs-Duhem bound is widened by twice the measured difference between the sums at steps eps and eps/2 (its eps^2 truncation term '
               'reached 6.5e-4 of the largest term in 16000 interior cases), the Richardson bound is unchanged (observed worst 0.043 of it over 60000 cases); a sum over members whose coefficient under- or overflowed '
               'in the reference too is not formed (gd:not-formed:exp-out-of-range, 4 in 60000); (c) near a vertex (1 - x = 1e-9) the distance from one must be <= 1e-12, or <= 1e-2 of the distance at 1 - x = 1e-6, '
               'or <= 1000 (1 - x) (published placeholder parameters such as a(ACOH, CCl4) = 10000 K push the quadratic regime below 1 - x ~ psi: CCl4 with traces of phenol and DMSO is 1 + 0.3 (1 - x) in both '
               'implementations), and exactly one (1e-12) at the vertex itself']
WITH = ('Water', 'Ethanol', 'Methanol', 'Propanol', 'Butanol', 'Hexane', 'Heptane', 'Octane', 'Benzene', 'Toluene', 'Acetone', 'EthylAcetate', 'AceticAcid')
WITHOUT = ('N2', 'CO2')
NIST_GROUPS = {'Water': {'H2O': 1}, 'Ethanol': {'CH3': 1, 'CH2': 1, 'OH prim': 1}, 'Propanol': {'CH3': 1, 'CH2': 2, 'OH prim': 1}, 'Butanol': {'CH3': 1, 'CH2': 3, 'OH prim': 1},
               'Hexane': {'CH3': 2, 'CH2': 4}, 'Heptane': {'CH3': 2, 'CH2': 5}, 'Octane': {'CH3': 2, 'CH2': 6}, 'Methanol': {'CH3OH': 1}, 'Acetone': {'CH3': 1, 'CH3CO': 1}}
CLASSES = {'UNIFAC': 'UNIFACActivityCoefficients', 'Dortmund': 'DortmundActivityCoefficients', 'NIST': 'NISTActivityCoefficients', 'Ideal': 'IdealActivityCoefficients'}
GROUP_CLASSES = ('UNIFAC', 'Dortmund', 'NIST')
VALUE_RTOL = 1e-12          # observed worst difference to the reference 1.1e-14 over 60000 cases (all kinds, present and absent members)
U = 2.2e-16

# ---- added pools (round 6) -----------------------------------------------------------------------------------------------------------------------------
# wide-pool: named chemicals whose (database) assignments hold the structural subgroups the first 13 lack; every one has UNIFAC and Dortmund groups
WIDE = ('tert-butanol', 'MTBE', 'neopentane', '2,2-dimethylbutane', 'isooctane', 'tert-butylbenzene', 'pinacolone', 'neopentyl glycol', '2,2-dimethylpropanoic acid', 'tert-butyl acetate', 'ETBE',
        '1,1-dimethylcyclohexane',                                                                                       # quaternary carbon (C / CY-C: surface parameter Q = 0)
        'isobutane', 'isopropanol', '2-methylpentane', 'isobutanol', 'cyclohexane', 'methylcyclohexane', 'cyclohexanol', '1-hexene', 'ethylbenzene', 'cumene', 'styrene', 'phenol', 'naphthalene',
        'diethyl ether', 'tetrahydrofuran', 'dimethyl ether', '2-butanone', 'acetaldehyde', 'methyl acetate', 'butyl acetate', 'formic acid', 'propionic acid', 'acetonitrile', 'diethylamine', 'triethylamine',
        'aniline', 'pyridine', 'N,N-dimethylformamide', 'chloroform', 'dichloromethane', 'carbon tetrachloride', 'chlorobenzene', '1,2-dichloroethane', 'dimethyl sulfoxide', 'carbon disulfide',
        'ethylene glycol', 'glycerol', 'furfural', '1,4-dioxane', 'tert-butyl chloride')
NIST_WIDE = {'tert-butanol': {'CH3': 3, 'C': 1, 'OH tert': 1}, 'MTBE': {'CH3': 3, 'C': 1, 'CH3O': 1}, 'neopentane': {'CH3': 4, 'C': 1}, '2,2-dimethylbutane': {'CH3': 4, 'CH2': 1, 'C': 1},
             'isooctane': {'CH3': 5, 'CH2': 1, 'CH': 1, 'C': 1}, 'tert-butylbenzene': {'CH3': 3, 'C': 1, 'ACH': 5, 'AC': 1}, 'pinacolone': {'CH3': 3, 'C': 1, 'CH3CO': 1},
             '1,1-dimethylcyclohexane': {'CH3': 2, 'c-CH2': 5, 'c-C': 1}, 'isopropanol': {'CH3': 2, 'CH': 1, 'OH sec': 1}, 'cyclohexane': {'c-CH2': 6}, 'methylcyclohexane': {'CH3': 1, 'c-CH2': 5, 'c-CH': 1},
             'Benzene': {'ACH': 6}, 'Toluene': {'ACH': 5, 'ACCH3': 1}, 'ethylbenzene': {'CH3': 1, 'ACH': 5, 'ACCH2': 1}, 'diethyl ether': {'CH3': 2, 'CH2': 1, 'CH2O': 1},
             '2-butanone': {'CH3': 1, 'CH2': 1, 'CH3CO': 1}, 'methyl acetate': {'CH3': 1, 'CH3COO': 1}, 'EthylAcetate': {'CH3': 1, 'CH2': 1, 'CH3COO': 1}, 'AceticAcid': {'CH3': 1, 'COOH': 1},
             'acetonitrile': {'CH3CN': 1}, 'chloroform': {'CHCl3': 1}, 'dimethyl sulfoxide': {'DMSO': 1}, '1-hexene': {'CH3': 1, 'CH2': 3, 'CH2=CH': 1}, 'triethylamine': {'CH3': 3, 'CH2': 2, 'CH2N': 1}}
NIST_ALL = dict(NIST_GROUPS); NIST_ALL.update(NIST_WIDE)
# assigned-groups: the most common subgroups (drawn more often; the rest of a draw comes from the whole vocabulary of the reference table)
COMMON = {'UNIFAC': ('CH3', 'CH2', 'CH', 'C', 'OH', 'ACH', 'AC', 'ACCH3', 'CH3CO', 'CH2O', 'CH3COO', 'COOH', 'H2O', 'CH2=CH'),
          'Dortmund': ('CH3', 'CH2', 'CH', 'C', 'CY-CH2', 'CY-CH', 'CY-C', 'OH(P)', 'OH(S)', 'OH(T)', 'ACH', 'AC', 'CH3CO', 'CH2O', 'CH3COO', 'COOH', 'H2O'),
          'NIST': ('CH3', 'CH2', 'CH', 'C', 'c-CH2', 'c-CH', 'c-C', 'OH prim', 'OH sec', 'OH tert', 'ACH', 'AC', 'CH3CO', 'CH2O', 'CH3COO', 'COOH', 'H2O')}
# ionic-liquid groups and groups of later table revisions: published R / Q differ between table versions (not decidable here), or the name is newer than the library's table;
# names whose spelling differs between table editions (the library spells subgroup 73 'HCON(..' as the DDBST list prints it, and two NIST names with a trailing blank): a KeyError for them decides nothing
NOT_IN_VOCABULARY = {'UNIFAC': ('IMIDAZOL', 'BTI', 'HCON(CH2)2'),
                     'Dortmund': ('C3H2N2+', 'C3H3N2+', 'C4H8N+', 'BF4-', 'C5H5N+', 'OTF-', 'C5H4N+', 'SO4', 'HSO4', 'PF6', 'BTI-', 'HCONHCH3', 'HCONHCH2', 'HCON(CH2)2'),
                     'NIST': ('CH=NOH', 'CH2(O)2', 'CH(O)2', 'AC-O-CO-CH3', 'CH2SuCH')}
FORMS = ('by-name', 'incremental', 'by-id')
KINDS = ('vertex', 'near-vertex', 'trace', 'interior', 'interior', 'interior', 'face')

_chems = {}
_nist = {}
_spec = {}          # label of an assigned-groups member -> {'groups': [[name, count], ...], 'form': ...} (registered from the case before the model is built)
_assigned = {}      # label -> blank chemical carrying the assignment

# ---- independent value reference -----------------------------------------------------------------------------------------------------------------
if hasattr(_tu, 'load_unifac_ip'): _tu.load_unifac_ip()
REF = {'UNIFAC': dict(version=0, interaction_data=_tu.UFIP, subgroups=_tu.UFSG),
       'Dortmund': dict(version=1, interaction_data=_tu.DOUFIP2016, subgroups=_tu.DOUFSG),
       'NIST': dict(version=1, interaction_data=_tu.NISTUFIP, subgroups=_tu.NISTUFSG)}          # NIST-modified UNIFAC (Kang et al. 2015): the Dortmund equations with its own groups and parameters
_NIST_ID = {sg.group: k for k, sg in _tu.NISTUFSG.items()}


def _vocabulary(cls):
    """{name: subgroup id} of the reference table: names that denote one subgroup only, minus NOT_IN_VOCABULARY."""
    table = REF[cls]['subgroups']; count = {}
    for sg in table.values(): count[sg.group] = count.get(sg.group, 0) + 1
    v = {sg.group: int(k) for k, sg in table.items() if count[sg.group] == 1 and sg.group not in NOT_IN_VOCABULARY[cls]}
    lost = [k for k in COMMON[cls] if k not in v]
    if lost: raise RuntimeError(f'harness: the {cls} reference table does not hold the subgroup names {lost}')
    return v


VOCAB_ID = {cls: _vocabulary(cls) for cls in REF}
VOCAB = {cls: sorted(VOCAB_ID[cls]) for cls in REF}
for _i, _g in NIST_WIDE.items():
    if any(k not in VOCAB_ID['NIST'] for k in _g): raise RuntimeError(f'harness: NIST_WIDE[{_i}] uses a name the reference table does not hold: {_g}')


def gen_molecule(r, cls):
    """[[subgroup name, count], ...]: 1-4 distinct subgroups (60 % from the common ones), at least one of them with Q > 0."""
    table = REF[cls]['subgroups']; names = []
    for _ in range(r.choice([1, 1, 2, 2, 3, 3, 4])):
        nm = r.choice(COMMON[cls] if r.random() < 0.6 else VOCAB[cls])
        if nm not in names: names.append(nm)
    groups = [[nm, r.choice([1, 1, 1, 2, 2, 3, 4, 6])] for nm in names]
    if all(table[VOCAB_ID[cls][nm]].Q == 0 for nm in names): groups.append(['CH3', r.choice([1, 2, 3])])
    return groups


def _catalogue(cls, size=150):
    import random
    r = random.Random('C16 assigned-groups ' + cls); out = []
    while len(out) < size:
        m = gen_molecule(r, cls)
        if m not in out: out.append(m)
    return out


CATALOGUE = {cls: _catalogue(cls) for cls in REF}          # finite (the chemical objects and the library's per-tuple model cache stay bounded); cases carry the assignment itself


def lnq(gp, gm, step):
    """(ln gp - ln gm)/step in the harness's own arithmetic: a zero, negative or nan coefficient gives nan (judged: a nan sum is over every bound), never a FloatingPointError of the harness."""
    with np.errstate(all='ignore'):
        return (np.log(gp) - np.log(gm)) / step


def within(a, b, rtol):
    """all |a - b| <= rtol |b| (nan / inf on either side: False)."""
    a = np.asarray(a, float); b = np.asarray(b, float)
    if a.shape != b.shape: return False
    with np.errstate(all='ignore'):
        return bool(np.all(np.isfinite(a)) and np.all(np.isfinite(b)) and np.all(np.abs(a - b) <= rtol * np.abs(b)))


SMALLEST_NORMAL = 2.2250738585072014e-308


def within_ln(a, b, rtol):
    """added pools: all |a - b| <= rtol |b| max(1, |ln b|) - gamma = exp(ln gamma) carries the absolute rounding of ln(gamma), which grows with |ln(gamma)| (recorded: pyridine / cyclohexanol
    at infinite dilution, Dortmund, ln(gamma) = -368: both implementations give 6.8865279100e-161 and differ by 1.3e-12 relative = 3.5e-15 |ln gamma|). Same as within() for |ln b| <= 1."""
    a = np.asarray(a, float); b = np.asarray(b, float)
    if a.shape != b.shape: return False
    with np.errstate(all='ignore'):
        if not (np.all(np.isfinite(a)) and np.all(np.isfinite(b)) and np.all(b >= 0)): return False
        z = b == 0          # exp(ln gamma) underflowed in the reference (ln gamma < -745): zero expected
        sub = (~z) & (b < SMALLEST_NORMAL)      # gradual underflow (ln gamma in -745 .. -708): a subnormal carries only a few bits, both values must lie in that range and agree to the spacing of subnormals
        nrm = ~(z | sub)
        return bool(np.all(a[z] == 0) and np.all((a[sub] < SMALLEST_NORMAL) & (np.abs(a[sub] - b[sub]) <= 1e-6 * b[sub] + 1e-322))
                    and np.all(np.abs(a[nrm] - b[nrm]) <= rtol * b[nrm] * np.maximum(1.0, np.abs(np.log(b[nrm])))))


def relmax_ln(a, b):
    try:
        with np.errstate(all='ignore'):
            a = np.asarray(a, float); b = np.asarray(b, float)
            nz = b != 0
            v = float(np.max(np.abs(a[nz] / b[nz] - 1.0) / np.maximum(1.0, np.abs(np.log(b[nz]))))) if nz.any() else 0.0
        return v if v == v else None
    except Exception:
        return None


def relmax(a, b):
    """largest |a/b - 1| (recorded residual only); None when it cannot be formed."""
    try:
        with np.errstate(all='ignore'):
            v = float(np.max(np.abs(np.asarray(a, float) / np.asarray(b, float) - 1.0)))
        return v if v == v else None
    except Exception:
        return None


def ref_gammas(cls, groups, xs, T):
    """activity coefficients of the published model, computed by thermo from {subgroup id: count} dicts."""
    try:
        return np.array(_tu.UNIFAC.from_subgroups(T=float(T), xs=[float(v) for v in xs], chemgroups=groups, **REF[cls]).gammas(), float)
    except (OverflowError, ZeroDivisionError, ValueError):
        # math.exp / math.log of the reference out of range (added pools: |ln(gamma)| > 709 or psi = 0 with extreme published parameters): the reference has no value to compare with
        return None


def _pin_reference():
    # the reference itself is pinned to literal values (ethanol/water; the Dortmund and NIST ones are the values printed in the class documentation, the UNIFAC one is the recorded repaired value)
    eth, wat = {1: 1, 2: 1, 14: 1}, {16: 1}
    for cls, groups, xs, want in (('UNIFAC', [eth, wat], [0.3, 0.7], [1.6646371246270681, 1.222781811499355]),
                                  ('Dortmund', [wat, eth], [0.5, 0.5], [1.4749922296583007, 1.2418240954542252]),
                                  ('NIST', [wat, eth], [0.5, 0.5], [1.4794334959559001, 1.2379032263253202])):
        got = ref_gammas(cls, groups, xs, 350.)
        if got is None or not np.allclose(got, want, rtol=1e-12, atol=0): raise RuntimeError(f'harness: the thermo reference for {cls} gives {got.tolist()}, pinned {want}')


_pin_reference()


def groups_of(cls, i, c):
    """{subgroup id: count} of one chemical for the reference; None when the chemical has no assignment. NIST: from the harness's own names through thermo's table."""
    if i in _spec:
        out = {}
        for k, v in _spec[i]['groups']: out[VOCAB_ID[cls][k]] = out.get(VOCAB_ID[cls][k], 0) + int(v)          # assigned-groups member: from the case, through the reference's table
        return out
    if cls == 'NIST':
        if i not in NIST_ALL: return None
        return {_NIST_ID[k]: v for k, v in NIST_ALL[i].items()}
    g = getattr(c, cls)
    return {int(k): int(v) for k, v in g.items()} if g else None


def required(tier):
    return ['vertex', 'gibbs-duhem', 'permutation', 'no-groups', 'x-unchanged', 'functional-form', 'ideal-models', 'model:UNIFAC', 'model:Dortmund', 'model:NIST',
            'kind:face', 'kind:few-groups', 'gd:relative-step', 'gd:inert-moving', 'caller:list', 'caller:view', 'caller:int', 'caller:f-view', 'repeatable', 'sub-model-method', 'ideal:every-case',
            'value-reference', 'value-reference:UNIFAC', 'value-reference:Dortmund', 'value-reference:NIST', 'value-reference:second-state', 'value-reference:absent-member', 'value-reference:single-group-member',
            'sub-model-method:UNIFAC', 'sub-model-method:Dortmund', 'sub-model-method:NIST',
            'gd:richardson', 'gd:resolved:interior', 'gd:resolved:relative-step/interior', 'gd:resolved:relative-step/face', 'gd:resolved:relative-step/trace', 'gd:resolved:inert-moving',
            'ambient:activity_coefficients.gamma_modified_UNIFAC',
            'pool:wide-pool>=800', 'pool:assigned-groups>=500', 'pool:wide-pool:UNIFAC>=100', 'pool:wide-pool:Dortmund>=100', 'pool:wide-pool:NIST>=100',
            'pool:assigned-groups:UNIFAC>=50', 'pool:assigned-groups:Dortmund>=50', 'pool:assigned-groups:NIST>=50',
            'feature:zero-area-group>=400', 'feature:zero-area-group:UNIFAC>=50', 'feature:zero-area-group:Dortmund>=50', 'feature:zero-area-group:NIST>=50',
            'feature:missing-interaction>=100', 'assigned:by-name>=100', 'assigned:incremental>=100', 'assigned:by-id>=100', 'twin-members>=50',
            'vertex:limit>=30', 'errstate-ignore>=2000', 'value-reference:errstate-ignore>=1500', 'caller-T:int>=1000']


def assigned_chem(cls, label):
    """a blank chemical (its own, empty group-count objects) that receives the assignment of the case in one of three forms."""
    c = _assigned.get(label)
    if c is None:
        spec = _spec[label]; groups = [(str(k), int(v)) for k, v in spec['groups']]
        c = tmo.Chemical.blank(label)
        gc = getattr(c, cls)
        if spec['form'] == 'by-name':
            gc.set_group_counts_by_name(dict(groups))
        elif spec['form'] == 'incremental':
            first, second = {}, {}
            for j, (k, v) in enumerate(groups):
                if v >= 2: first[k] = v // 2; second[k] = v - v // 2          # the same name in both calls: the counts add up
                elif j % 2 == 0: first[k] = v
                else: second[k] = v
            gc.set_group_counts_by_name(first)
            gc.set_group_counts_by_name(second, reset=False)
        else:
            for k, v in groups: gc[VOCAB_ID[cls][k]] = v                       # by the published subgroup number
        _assigned[label] = c
    return c


def label_of(cls, groups, form, slot):
    return 'S' + cls[0] + case_hash([cls, groups, form, slot])


def chem(i, cls=None):
    if i in _spec: return assigned_chem(cls, i)
    c = _chems.get(i)
    if c is None: c = _chems[i] = tmo.Chemical(i, cache=True)
    return c


def nist_chem(i):
    c = _nist.get(i)
    if c is None:
        c = tmo.Chemical(i, cache=False)
        try:
            c.NIST.set_group_counts_by_name(NIST_ALL[i])
        except Exception as e:
            c = NistFailure(i, e)
        _nist[i] = c
    return c


class NistFailure:
    """set_group_counts_by_name raised: a refusal only for a KeyError on a name that the independent NIST table does not hold either (none of the six names used)."""
    def __init__(self, i, e):
        self.ID = i; self.exc = e
        self.warranted = isinstance(e, KeyError) and any(k not in _NIST_ID for k in NIST_ALL[i])


def model(cls, ids):
    if cls == 'NIST':
        cs = [assigned_chem(cls, i) if i in _spec else nist_chem(i) if i in NIST_ALL else tmo.Chemical(i, cache=True) for i in ids]
        bad = [c for c in cs if isinstance(c, NistFailure)]
        if bad: return None, bad
    else:
        cs = [chem(i, cls) for i in ids]
    return getattr(eq, CLASSES[cls])(cs), cs


def gen_extras(rng, case, m):
    """fields of the added clauses (drawn after the original ones)."""
    case['u'] = [round(rng.uniform(-1, 1), 6) for _ in range(m)]                     # relative-step direction for Gibbs-Duhem
    x2 = [rng.uniform(0.02, 1) for _ in range(m)]; s2 = sum(x2)
    case['x2'] = [v / s2 for v in x2]; case['T2'] = round(rng.uniform(250, 450), 2)   # intervening evaluation at another state
    case['xk'] = rng.choice(['list', 'view', 'f-view', 'int' if all(v in (0.0, 1.0) for v in case['x']) else 'list'])
    case['Psats'] = [round(10 ** rng.uniform(2, 6), 3) for _ in range(m)]; case['P'] = rng.choice([5e4, 101325., 1e6])
    return case


def gen_x(rng, kind, n, m):
    """composition of the added pools: the kinds of the first pool (n members with groups first, m - n inert ones after them)."""
    if kind == 'vertex':
        x = [0.0] * m; x[rng.randrange(n)] = 1.0
    elif kind == 'near-vertex':
        k = rng.randrange(n); x = [1e-9 / (m - 1)] * m; x[k] = 1 - 1e-9
    elif kind == 'trace':
        x = [10 ** rng.uniform(-12, -3) if rng.random() < 0.5 else rng.random() for _ in range(m)]
        if not sum(x) > 0: x[0] = 1.0
    elif kind == 'face':
        x = [rng.uniform(0.02, 1) for _ in range(m)]
        if n == 2 and m == 2:
            x[rng.randrange(n)] = 0.0
        else:
            nz = rng.randrange(1, n) if n > 2 else 1
            for k in rng.sample(range(n), nz): x[k] = 0.0
    else:
        x = [rng.uniform(0.02, 1) for _ in range(m)]
    s = sum(x)
    return [v / s for v in x]


def gen_wide(rng):
    """sets of named chemicals, at least one from the wide pool."""
    cls = rng.choice(['UNIFAC', 'Dortmund', 'Dortmund', 'NIST'])
    wide = [i for i in WIDE if (cls != 'NIST' or i in NIST_ALL)]
    pool = [i for i in WITH if (cls != 'NIST' or i in NIST_ALL)] + wide
    n = rng.randrange(2, 7)
    ids = rng.sample(pool, n)
    if not any(i in wide for i in ids):
        ids[rng.randrange(n)] = rng.choice(wide)
    extra = [i for i in WITHOUT if rng.random() < 0.2]
    kind = rng.choice(KINDS)
    m = n + len(extra)
    x = gen_x(rng, kind, n, m)
    d = [rng.uniform(-1, 1) for _ in range(m)]; mean = sum(d) / m; d = [v - mean for v in d]
    return gen_extras(rng, {'cls': cls, 'ids': ids, 'extra': extra, 'kind': kind, 'x': x, 'T': round(rng.uniform(250, 450), 2), 'd': d, 'pseed': rng.randrange(10 ** 6), 'pool': 'wide-pool'}, m)


def gen_assigned(rng):
    """sets of blank chemicals with assignments from the catalogue of the class; one in four sets holds a twin (the assignment of another member, given in another form)."""
    cls = rng.choice(['UNIFAC', 'Dortmund', 'Dortmund', 'NIST'])
    n = rng.randrange(2, 6)
    picks = rng.sample(range(len(CATALOGUE[cls])), n)
    forms = [rng.choice(FORMS) for _ in range(n)]
    twin = None
    if rng.random() < 0.25:
        a, b = rng.sample(range(n), 2)
        picks[b] = picks[a]; forms[b] = rng.choice([f for f in FORMS if f != forms[a]]); twin = [a, b]
    ids, assigned = [], {}
    for k in range(n):
        groups = [list(g) for g in CATALOGUE[cls][picks[k]]]
        label = label_of(cls, groups, forms[k], 0)
        ids.append(label); assigned[label] = {'groups': groups, 'form': forms[k]}
    extra = [i for i in WITHOUT if rng.random() < 0.15]
    kind = rng.choice(KINDS)
    m = n + len(extra)
    x = gen_x(rng, kind, n, m)
    d = [rng.uniform(-1, 1) for _ in range(m)]; mean = sum(d) / m; d = [v - mean for v in d]
    case = {'cls': cls, 'ids': ids, 'extra': extra, 'kind': kind, 'x': x, 'T': round(rng.uniform(250, 450), 2), 'd': d, 'pseed': rng.randrange(10 ** 6), 'pool': 'assigned-groups', 'assigned': assigned}
    if twin: case['twin'] = twin
    return gen_extras(rng, case, m)


def gen_case(rng):
    r = rng.random()
    case = gen_wide(rng) if r < 0.22 else gen_assigned(rng) if r < 0.36 else gen_base(rng)
    case['es'] = rng.random() < 0.5            # also evaluated under numpy's ignore error state
    case['Tk'] = rng.random() < 0.3            # also evaluated at an integer / numpy temperature
    return case


def gen_base(rng):
    cls = rng.choice(['UNIFAC', 'Dortmund', 'Dortmund', 'NIST', 'Ideal'])
    pool = [i for i in WITH if (cls != 'NIST' or i in NIST_GROUPS)]
    if rng.random() < 0.04:
        # at most one member has group data (plus >=1 without): the model class falls back to the ideal model
        n = rng.randrange(0, 2)
        ids = rng.sample(pool, n)
        extra = list(WITHOUT) if rng.random() < 0.5 else [rng.choice(WITHOUT)]
        if rng.random() < 0.5: extra.reverse()
        m = n + len(extra)
        x = [rng.uniform(0.02, 1) for _ in range(m)]
        if rng.random() < 0.2: x[rng.randrange(m)] = 0.0
        if sum(x) == 0: x[0] = 1.0
        s = sum(x); x = [v / s for v in x]
        return gen_extras(rng, {'cls': cls, 'ids': ids, 'extra': extra, 'kind': 'few-groups', 'x': x, 'T': round(rng.uniform(250, 450), 2), 'd': [0.0] * m, 'pseed': rng.randrange(10 ** 6)}, m)
    n = rng.randrange(2, min(6, len(pool)) + 1)
    ids = rng.sample(pool, n)
    extra = [i for i in WITHOUT if rng.random() < 0.25]
    kind = rng.choice(['vertex', 'near-vertex', 'trace', 'interior', 'interior', 'interior', 'face'])
    m = n + len(extra)
    if extra and rng.random() < 0.15:
        # only members without group data are present
        x = [0.0] * n + [1.0 / len(extra)] * len(extra)
        return gen_extras(rng, {'cls': cls, 'ids': ids, 'extra': extra, 'kind': 'inert-only', 'x': x, 'T': round(rng.uniform(250, 450), 2), 'd': [0.0] * m, 'pseed': rng.randrange(10 ** 6)}, m)
    if kind == 'vertex':
        x = [0.0] * m; x[rng.randrange(n)] = 1.0
    elif kind == 'near-vertex':
        k = rng.randrange(n); x = [1e-9 / (m - 1)] * m; x[k] = 1 - 1e-9
    elif kind == 'trace':
        x = [10 ** rng.uniform(-12, -3) if rng.random() < 0.5 else rng.random() for _ in range(m)]
    elif kind == 'face':
        # exact zeros on some group-bearing members, at least one (usually >= 2) of them present
        x = [rng.uniform(0.02, 1) for _ in range(m)]
        if n == 2 and not extra:
            x[rng.randrange(n)] = 0.0                      # an edge of a binary is a vertex reached through the general path
        else:
            nz = rng.randrange(1, n) if n > 2 else 1
            for k in rng.sample(range(n), nz): x[k] = 0.0
    else:
        x = [rng.uniform(0.02, 1) for _ in range(m)]
    s = sum(x); x = [v / s for v in x]
    d = [rng.uniform(-1, 1) for _ in range(m)]; mean = sum(d) / m; d = [v - mean for v in d]
    return gen_extras(rng, {'cls': cls, 'ids': ids, 'extra': extra, 'kind': kind, 'x': x, 'T': round(rng.uniform(250, 450), 2), 'd': d, 'pseed': rng.randrange(10 ** 6)}, m)


def run_case(case, rec):
    rec.begin_case(case)
    cls = case['cls']; ids = list(case['ids']) + list(case['extra'])
    n = len(case['ids'])
    T = case['T']
    pool = case.get('pool', 'base')
    for label, spec in sorted((case.get('assigned') or {}).items()):
        _spec[label] = spec; rec.hit('assigned:' + spec['form'])
    try:
        G, cs = model(cls, ids)
    except Exception as e:
        rec.exception('construct', e, what=f'{cls} model construction raised {type(e).__name__}: {e}'); return
    if G is None:
        for b in cs:
            if b.warranted: rec.refuse('NIST group names not available')
            else: rec.exception('construct', b.exc, what=f'{b.ID}.NIST.set_group_counts_by_name({NIST_ALL[b.ID]}) raised {type(b.exc).__name__}: {b.exc} (every name is a subgroup of the NIST table)')
        return
    # keys of the added pools name the pool and the structural class of the assignments (first pool: the class alone, as before)
    feat = features(case, rec, cls, ids, cs, n)
    tag = cls if pool == 'base' else f'{cls}/{pool}{feat}'
    wp = '' if pool == 'base' else f'{pool}{feat}/'
    rec.hit('model:' + cls)
    if pool != 'base': rec.hit('pool:' + pool); rec.hit(f'pool:{pool}:{cls}')
    x = np.array(case['x'], float)
    x0 = x.copy()
    gi = errstate_ignore(case, rec, G, cs, cls, ids, n, T, tag, wp) if case.get('es') else None
    try:
        g = np.asarray(G(x, T), float)
    except Exception as e:
        rec.exception('call' if pool == 'base' else f'call:{pool}{feat.replace("/", ":")}', e, what=f'{cls}({ids})(x, {T}) raised {type(e).__name__}: {str(e)[:150]}'); return
    if gi is not None:
        rec.check(gi.shape == g.shape and gi.tobytes() == g.tobytes(), 'repeatable', f'{tag}/errstate-ignore', f'{cls}({ids})(x, {T}) = {g.tolist()} but {gi.tolist()} under numpy.errstate(all="ignore")')
    # (6) caller's composition untouched, bit for bit
    rec.check(x.tobytes() == x0.tobytes(), 'x-unchanged', tag, f'{cls} model modified the composition array passed by the caller: {x0.tolist()} -> {x.tolist()}')
    x = x0.copy()
    # (7) functional form used inside the flash solvers
    try:
        gf = np.asarray(G.f(x.copy(), T, *G.args), float)
        rec.check(np.array_equal(gf, g) or (gf.ndim == 0 and np.all(g == gf)), 'functional-form', tag, f'Gamma.f(x,T,*args) = {gf.tolist()} differs from Gamma(x,T) = {g.tolist()}')
    except Exception as e:
        rec.exception('functional-form', e, what=f'{cls}.f raised {type(e).__name__}: {e}')
    # (0) value of the published model (independent implementation and tables)
    if cls in GROUP_CLASSES:
        value_reference(case, rec, cls, ids, cs, n, x, T, g, wp + case['kind'])
    extra_clauses(case, rec, G, cs, cls, ids, n, T, g, tag, wp)
    added_call_forms(case, rec, G, cls, ids, n, T, g, tag)
    if cls == 'Ideal':
        rec.check(np.all(g == 1.0), 'ideal-models', 'gamma', f'ideal activity coefficients {g.tolist()}')
        try:
            phi = eq.IdealFugacityCoefficients(cs)(x, T, 101325.); pcf = eq.MockPoyintingCorrectionFactors(cs)(T, 101325., None)
            rec.check(np.all(np.asarray(phi) == 1.0) and np.all(np.asarray(pcf) == 1.0), 'ideal-models', 'phi-pcf', f'ideal fugacity {phi} / Poynting {pcf} not one')
            rec.check(eq.IdealFugacityCoefficients(cs).f(x, T, 101325.) == 1.0 and G.f(x, T) == 1.0, 'ideal-models', 'functional', 'ideal functional forms do not return one')
        except Exception as e:
            rec.exception('ideal-models', e, what=f'ideal models raised {type(e).__name__}: {e}')
        rec.mark_nontrivial(case_hash(case)); return
    # (4) chemicals without group data get exactly one and do not perturb the others
    for k in range(n, len(ids)):
        rec.check(g[k] == 1.0, 'no-groups', f'value/{tag}', f'{ids[k]} has no groups but gamma = {g[k]!r}')
    if case['extra'] and x[:n].sum() > 0:
        try:
            G2, _ = model(cls, list(case['ids']))
            xs = x[:n] / x[:n].sum()
            g2 = np.asarray(G2(xs.copy(), T), float)
            rec.check(np.allclose(g[:n], g2, rtol=1e-12, atol=0) or (pool != 'base' and within_ln(g[:n], g2, 1e-12)), 'no-groups', f'perturbs/{tag}', f'gamma with inert members {g[:n].tolist()} != gamma on the renormalised sub-composition {g2.tolist()}')
        except Exception as e:
            rec.exception('no-groups', e, what=f'sub-model raised {type(e).__name__}: {e}')
    if case['kind'] == 'few-groups':
        # at most one member with group data: nothing else of the property applies (no pair of interacting members)
        rec.hit('kind:few-groups'); rec.mark_nontrivial(case_hash(case)); return
    if case['kind'] == 'face': rec.hit('kind:face')
    # (1) normalisation at the vertices
    if case['kind'] in ('vertex', 'near-vertex') or (x.max() == 1.0 and int(np.argmax(x)) < n):
        k = int(np.argmax(x))
        if pool != 'base' and x[k] < 1.0:
            vertex_limit(rec, G, ids, x, T, k, g, tag)
        else:
            rec.check(abs(g[k] - 1.0) <= 1e-12, 'vertex', tag, f'gamma of {ids[k]} at x={x[k]!r} is {g[k]!r}, not 1', residual=abs(g[k] - 1.0))
    # (2) Gibbs-Duhem on interior points
    if case['kind'] == 'interior' and n >= 2:
        d = np.array(case['d'], float)
        d[n:] = 0.0; d[:n] -= d[:n].mean()      # move only chemicals that have groups; still zero-sum
        eps = 1e-3 * x[:n].min() / max(np.abs(d).max(), 1e-12)
        try:
            gp = np.asarray(G((x + eps * d).copy(), T), float); gm = np.asarray(G((x - eps * d).copy(), T), float)
            gd_range(case, cls, ids, cs, n, T, ((x + eps * d, gp), (x - eps * d, gm)))
            dln = lnq(gp, gm, 2 * eps)
            terms = x * dln
            res = abs(terms.sum()); scale = np.abs(terms).max()
            s2h, slack = half_step(pool, G, x, d, eps, T, None, terms.sum())
            gd_judge(rec, res <= 1e-4 * scale + 1e-7 + slack, scale, 1e-7, 'gibbs-duhem', tag, 'interior', f'sum x_i dln(gamma_i)/ds = {terms.sum()!r} with largest term {scale!r} (x={x.tolist()}, T={T})', res / max(scale, 1e-300))
            gd_richardson(rec, G, x, d, eps, T, None, terms.sum(), scale, tag, 'interior', s2h)
        except GdSkip:
            rec.hit('gd:not-formed:exp-out-of-range')
        except Exception as e:
            rec.exception('gibbs-duhem', e, what=f'{cls} raised {type(e).__name__} near an interior point: {e}')
    # (2b) Gibbs-Duhem with relative steps x_i -> x_i (1 +- eps (u_i - ubar)): resolves trace, near-vertex and face compositions
    #      (members at exactly zero stay at zero: the derivative is taken inside the face)
    present = [k for k in range(n) if x[k] > 0]
    if len(present) >= 2 and case.get('u') is not None and case['kind'] != 'vertex':
        u = np.array(case['u'], float); u[n:] = 0.0
        xs = x[:n].sum()
        ubar = float((x[:n] * u[:n]).sum() / xs)
        d = np.zeros(len(x)); d[:n] = x[:n] * (u[:n] - ubar)        # zero-sum, zero on absent and on inert members
        eps = 1e-3
        try:
            gp = np.asarray(G((x + eps * d).copy(), T), float); gm = np.asarray(G((x - eps * d).copy(), T), float)
            gd_range(case, cls, ids, cs, n, T, ((x + eps * d, gp), (x - eps * d, gm)), present)
            dln = lnq(gp[present], gm[present], 2 * eps)
            terms = x[present] * dln
            res = abs(terms.sum()); scale = np.abs(terms).max()
            s2h, slack = half_step(pool, G, x, d, eps, T, present, terms.sum())
            gd_judge(rec, res <= 1e-4 * scale + 1e-7 + slack, scale, 1e-7, 'gibbs-duhem', f'{tag}/relative-step/{case["kind"]}', f'relative-step/{case["kind"]}',
                     f'sum x_i dln(gamma_i)/ds = {terms.sum()!r} with largest term {scale!r} along a relative step (x={x.tolist()}, T={T})', res / max(scale, 1e-300))
            gd_richardson(rec, G, x, d, eps, T, present, terms.sum(), scale, f'{tag}/relative-step/{case["kind"]}', f'relative-step/{case["kind"]}', s2h)
            rec.hit('gd:relative-step')
        except GdSkip:
            rec.hit('gd:not-formed:exp-out-of-range')
        except Exception as e:
            rec.exception('gibbs-duhem', e, what=f'{cls} raised {type(e).__name__} near a {case["kind"]} point: {e}')
    # (2c) Gibbs-Duhem with the members without group data moving too (their gamma is one: d ln(gamma) = 0)
    if case['kind'] == 'interior' and n >= 2 and case['extra']:
        d = np.array(case['d'], float); d -= d.mean()
        eps = 1e-3 * x.min() / max(np.abs(d).max(), 1e-12)
        try:
            gp = np.asarray(G((x + eps * d).copy(), T), float); gm = np.asarray(G((x - eps * d).copy(), T), float)
            gd_range(case, cls, ids, cs, n, T, ((x + eps * d, gp), (x - eps * d, gm)))
            dln = lnq(gp, gm, 2 * eps)
            terms = x * dln
            res = abs(terms.sum()); scale = np.abs(terms).max()
            s2h, slack = half_step(pool, G, x, d, eps, T, None, terms.sum())
            gd_judge(rec, res <= 1e-4 * scale + 1e-7 + slack, scale, 1e-7, 'gibbs-duhem', f'{tag}/inert-moving', 'inert-moving',
                     f'sum x_i dln(gamma_i)/ds = {terms.sum()!r} with largest term {scale!r}, inert members moving (x={x.tolist()}, d={d.tolist()}, T={T})', res / max(scale, 1e-300))
            gd_richardson(rec, G, x, d, eps, T, None, terms.sum(), scale, f'{tag}/inert-moving', 'inert-moving', s2h)
            rec.hit('gd:inert-moving')
        except GdSkip:
            rec.hit('gd:not-formed:exp-out-of-range')
        except Exception as e:
            rec.exception('gibbs-duhem', e, what=f'{cls} raised {type(e).__name__} near an interior point (inert members moving): {e}')
    # (3) permutation equivariance (fresh model object per permutation; exercises the per-tuple cache)
    m = len(ids)
    if m <= 4: perms = list(itertools.permutations(range(m)))[1:]
    else:
        import random
        r = random.Random(case['pseed']); perms = []
        for _ in range(6):
            p = list(range(m)); r.shuffle(p); perms.append(tuple(p))
    for p in perms:
        try:
            Gp, _ = model(cls, [ids[i] for i in p])
            gpv = np.asarray(Gp(x[list(p)].copy(), T), float)
            ok = gpv.shape == g.shape and (np.allclose(gpv, g[list(p)], rtol=1e-12, atol=0) or (pool != 'base' and within_ln(gpv, g[list(p)], 1e-12)))   # observed worst 3.8e-15 (order of the group sums); added pools: times max(1, |ln gamma|)
            rec.check(ok, 'permutation', tag, f'gamma depends on the position in the chemical list: order {[ids[i] for i in p]} gives {gpv.tolist()} expected {g[list(p)].tolist()}',
                      residual=relmax(gpv, g[list(p)]) if ok else None)
            if not ok: break
        except Exception as e:
            rec.exception('permutation', e, what=f'{cls} on a permuted list raised {type(e).__name__}: {e}'); break
    if np.abs(g[:n] - 1).max() > 1e-6: rec.mark_nontrivial(case_hash(case))


def features(case, rec, cls, ids, cs, n):
    """structural class of the assignments of the set, read from the reference's tables: '/zero-area-group' when a member holds a subgroup whose surface parameter Q is zero
    (quaternary carbon); reach counters for it and for sets with a pair of main groups that has no interaction parameters (psi = 1 by default)."""
    if cls not in GROUP_CLASSES: return ''
    table = REF[cls]['subgroups']; ip = REF[cls]['interaction_data']
    zero = False; mains = []
    for k in range(n):
        try:
            gr = groups_of(cls, ids[k], cs[k])
        except Exception:
            gr = None
        for gid in (gr or ()):
            sg = table.get(gid)
            if sg is None: continue
            if sg.Q == 0: zero = True
            if sg.main_group_id not in mains: mains.append(sg.main_group_id)
    if zero: rec.hit('feature:zero-area-group'); rec.hit('feature:zero-area-group:' + cls)
    if any(a != b and b not in (ip.get(a) or {}) for a in mains for b in mains): rec.hit('feature:missing-interaction'); rec.hit('feature:missing-interaction:' + cls)
    if len(mains) == 1: rec.hit('feature:one-main-group')
    return '/zero-area-group' if zero else ''


def vertex_limit(rec, G, ids, x, T, k, g, tag):
    """near a vertex, added pools: their assignments reach parameter regions where psi practically vanishes (the published tables hold placeholders such as a(ACOH, CCl4) = 10000 K; arbitrary
    assignments meet large Dortmund b, c terms). There the quadratic regime of ln(gamma) starts only below 1 - x ~ psi and the coefficient of the main member is 1 + c (1 - x) at 1 - x = 1e-9
    (c = 0.3 for CCl4 with traces of phenol and DMSO, UNIFAC; the reference gives the same value), so 1e-12 at 1 - x = 1e-9 is not implied by 'tends to one'. Judged instead: exactly one at the
    vertex itself, and the distance from one at 1 - x = 1e-9 is below 1e-12, or at most 1e-2 of the distance at 1 - x = 1e-6 on the same ray, or at most 1000 (1 - x)."""
    e = np.zeros(len(x)); e[k] = 1.0
    far = e + (x - e) * 1e3
    try:
        gv = np.asarray(G(e.copy(), T), float); gfar = np.asarray(G(far.copy(), T), float)
    except Exception as ex:
        rec.exception('vertex', ex, what=f'{tag} raised {type(ex).__name__} on the ray towards the vertex of {ids[k]}: {str(ex)[:150]}'); return
    rec.check(abs(gv[k] - 1.0) <= 1e-12, 'vertex', f'{tag}/limit/at-vertex', f'gamma of {ids[k]} at its vertex is {gv[k]!r}, not 1', residual=abs(gv[k] - 1.0))
    near, farther = abs(g[k] - 1.0), abs(gfar[k] - 1.0)
    rec.check(bool(near <= 1e-12 or near <= 1e-2 * farther or near <= 1e3 * (1.0 - x[k])), 'vertex', f'{tag}/limit/approach', f'gamma of {ids[k]} does not tend to one: {g[k]!r} at x={x[k]!r} and {gfar[k]!r} at x={far[k]!r} (T={T})')
    rec.hit('vertex:limit')


def errstate_ignore(case, rec, G, cs, cls, ids, n, T, tag, wp):
    """the model evaluated under numpy's ignore error state (the compiled form of the functional form cannot raise: a division by zero that raises here gives inf / nan there and whatever
    the code makes of it): the value is judged against the reference like any other; returned for the bit comparison with the value of the default state."""
    x = np.array(case['x'], float)
    try:
        with np.errstate(all='ignore'):
            gi = np.asarray(G(x, T), float)
            gf = np.asarray(G.f(x.copy(), T, *G.args), float)
    except Exception as e:
        rec.exception('errstate-ignore', e, what=f'{cls}({ids})(x, {T}) under numpy.errstate(all="ignore") raised {type(e).__name__}: {str(e)[:150]}'); return None
    rec.hit('errstate-ignore')
    rec.check(x.tobytes() == np.array(case['x'], float).tobytes(), 'x-unchanged', f'{tag}/errstate-ignore', f'{cls} model modified the composition array passed by the caller (numpy error state: ignore)')
    rec.check(gf.shape == gi.shape and gf.tobytes() == gi.tobytes() or (gf.ndim == 0 and np.all(gi == gf)), 'functional-form', f'{tag}/errstate-ignore',
              f'under numpy.errstate(all="ignore") Gamma.f(x,T,*args) = {gf.tolist()} differs from Gamma(x,T) = {gi.tolist()}')
    if cls in GROUP_CLASSES:
        value_reference(case, rec, cls, ids, cs, n, x, T, gi, wp + 'errstate-ignore/' + case['kind'])
        rec.hit('value-reference:errstate-ignore')
    else:
        rec.check(gi.shape == (len(ids),) and np.all(gi == 1.0), 'ideal-models', 'gamma/errstate-ignore', f'ideal activity coefficients {gi.tolist()} under numpy.errstate(all="ignore")')
    return gi


def added_call_forms(case, rec, G, cls, ids, n, T, g, tag):
    """twin members (the same assignment on two chemical objects) and temperature argument kinds."""
    x = np.array(case['x'], float)
    # (3b) two members with the same assignment: the coefficient depends on the assignment and on the mixture only (exchanging the two leaves the mixture as it is)
    tw = case.get('twin')
    if tw:
        a, b = tw
        ok = within_ln(g[[a]], g[[b]], 1e-12)
        rec.check(ok, 'permutation', f'{tag}/twin-members', f'members {a} and {b} of {ids} carry the same assignment {case["assigned"][ids[a]]["groups"]} but gamma = {g[a]!r} / {g[b]!r} (x={x.tolist()}, T={T})',
                  residual=(abs(float(g[a]) / float(g[b]) - 1) if ok and g[b] not in (0.0, float('inf')) and g[b] == g[b] else None))      # (both may have under- or overflowed alike)
        rec.hit('twin-members')
    # (7c) the same temperature as an int / numpy float64 / 0-d array
    if case.get('Tk'):
        Ti = int(round(T))
        try:
            want = np.asarray(G(x.copy(), float(Ti)), float)
            for kind, Tv in (('int', Ti), ('numpy-float64', np.float64(Ti)), ('numpy-int64', np.int64(Ti))):
                got = np.asarray(G(x.copy(), Tv), float)
                gotf = np.asarray(G.f(x.copy(), Tv, *G.args), float)
                rec.check(got.shape == want.shape and got.tobytes() == want.tobytes(), 'functional-form', f'{tag}/temperature:{kind}', f'Gamma(x, {Tv!r}) = {got.tolist()} differs from Gamma(x, {float(Ti)!r}) = {want.tolist()}')
                rec.check((gotf.shape == want.shape and gotf.tobytes() == want.tobytes()) or (gotf.ndim == 0 and np.all(want == gotf)), 'functional-form', f'{tag}/f/temperature:{kind}',
                          f'Gamma.f(x, {Tv!r}, *args) = {gotf.tolist()} differs from Gamma(x, {float(Ti)!r}) = {want.tolist()}')
            rec.hit('caller-T:int')
        except Exception as e:
            rec.exception('functional-form', e, what=f'{cls} at an integer / numpy temperature raised {type(e).__name__}: {str(e)[:150]}')


def gd_judge(rec, ok, scale, floor, clause, key, label, what, residual):
    """a Gibbs-Duhem sum over its bound is a violation; one within it counts as held only when the absolute floor of the bound is below 1 % of the largest term
    (nearly ideal sets, trace and near-vertex compositions have terms below the rounding of the difference quotient: counted gd:unresolved:*, not held)."""
    if not ok:
        rec.check(False, clause, key, what); return
    if floor <= 1e-2 * scale:
        rec.check(True, clause, key, what, residual=residual)
        if clause == 'gibbs-duhem-richardson': rec.hit('gd:resolved:' + label)
    else:
        rec.hit(('gd:unresolved:' if clause == 'gibbs-duhem-richardson' else 'gd:unresolved-plain:') + label)


class GdSkip(Exception):
    pass


def gd_range(case, cls, ids, cs, n, T, points, sel=None):
    """added pools: a coefficient that under- or overflowed (exp(ln gamma) = 0 or inf; recorded: 1,1-dimethylcyclohexane dilute in pyridine at 266 K, Dortmund, in both implementations) has no
    logarithm in floating point: the Gibbs-Duhem sum at that point is not formed (counted, not judged) when the reference is out of range at the same point too; a zero / inf / nan
    where the reference has a positive finite value is judged as before (the sum is nan: over every bound)."""
    if case.get('pool', 'base') == 'base': return
    for xq, gq in points:
        gq = np.asarray(gq, float)[:n]
        odd = ~(np.isfinite(gq) & (gq >= SMALLEST_NORMAL))      # zero, inf, nan, or a subnormal (gradual underflow: its logarithm carries only a few bits)
        if sel is not None:
            keep = np.zeros(n, bool); keep[[k for k in sel if k < n]] = True; odd &= keep          # members that enter the sum
        if not odd.any(): continue
        xs = float(xq[:n].sum())
        groups = [groups_of(cls, ids[k], cs[k]) for k in range(n)]
        r = ref_gammas(cls, groups, xq[:n] / xs, T) if (xs > 0 and all(groups)) else None
        if r is None or all((not np.isfinite(r[k])) or r[k] < SMALLEST_NORMAL for k in np.where(odd)[0]): raise GdSkip()


def half_step_sum(G, x, d, eps, T, sel):
    h = eps / 2
    gp = np.asarray(G((x + h * d).copy(), T), float); gm = np.asarray(G((x - h * d).copy(), T), float)
    dln = lnq(gp, gm, 2 * h)
    return float((x * dln).sum() if sel is None else (x[sel] * dln[sel]).sum())


def half_step(pool, G, x, d, eps, T, sel, s1):
    """added pools: the eps^2 truncation term of the plain central difference is not bounded by a fraction of the largest first-order term (sets near an extremum of ln(gamma): 6.5e-4 of
    it among 16000 interior cases of the assigned-groups pool, 1.8e-4 in the wide pool), so the plain bound is widened by twice the measured difference to the half-step sum (the truncation term
    is 4/3 of that difference; a sum that does not vanish keeps its value at both steps and stays over the bound). First pool: nothing added, bound as before."""
    if pool == 'base': return None, 0.0
    s2 = half_step_sum(G, x, d, eps, T, sel)
    return s2, 2.0 * abs(float(s1) - s2)


def gd_richardson(rec, G, x, d, eps, T, sel, s1, scale, key, label, s2=None):
    """second central difference with half the step; (4 S(eps/2) - S(eps))/3 has no eps^2 term: what is left is the rounding of ln(gamma) divided by eps."""
    if s2 is None: s2 = half_step_sum(G, x, d, eps, T, sel)
    R = abs((4 * s2 - s1) / 3)
    floor = 1000 * U / eps
    bound = 1e-7 * scale + floor
    rec.hit('gd:richardson')
    gd_judge(rec, R <= bound, scale, floor, 'gibbs-duhem-richardson', key, label,
             f'Richardson-extrapolated sum x_i dln(gamma_i)/ds = {R!r} (steps {eps!r} and half of it: {s1!r}, {s2!r}) with largest term {scale!r}, bound {bound!r} (x={np.asarray(x).tolist()}, T={T})', R / bound)


def value_reference(case, rec, cls, ids, cs, n, x, T, g, where):
    """g = model(x, T) against the reference on the renormalised sub-composition of the n group-bearing members (the others are documented to be left out)."""
    groups = [groups_of(cls, ids[k], cs[k]) for k in range(n)]
    if any(gr is None for gr in groups):
        rec.refuse(f'a member of the with-groups pool carries no {cls} group assignment (value reference not defined)'); return
    g = np.asarray(g, float)
    if n == 1:
        # one member with groups among inert ones: its sub-composition is the pure chemical
        rec.check(g.shape == (len(ids),) and abs(g[0] - 1.0) <= VALUE_RTOL, 'value-reference', f'{cls}/single-group-member', f'{ids[0]} is the only member with groups (pure sub-composition) but gamma = {g.tolist()}',
                  residual=abs(g[0] - 1.0) if g.shape == (len(ids),) else None)
        rec.hit('value-reference:single-group-member'); return
    if n < 2: return
    xs = float(x[:n].sum())
    if not xs > 0:
        rec.hit('value-reference:undefined/no-group-member-present'); return       # 0/0 sub-composition: the published model has no value there
    xsub = x[:n] / xs
    r = ref_gammas(cls, groups, xsub, T)
    if r is None:
        rec.hit('value-reference:reference-out-of-range'); return
    base = case.get('pool', 'base') == 'base'
    ok = g.shape == (len(ids),) and (within if base else within_ln)(g[:n], r, VALUE_RTOL)
    res = (relmax if base else relmax_ln)(g[:n], r) if g.shape == (len(ids),) else None
    rec.check(ok, 'value-reference', f'{cls}/{where}', f'{cls}({ids})(x={np.asarray(x).tolist()}, T={T}) = {g.tolist()} but the published model (thermo.unifac, groups {groups}) gives {r.tolist()} for the members with groups',
              residual=res)
    rec.hit('value-reference:' + cls)
    if np.any(xsub == 0): rec.hit('value-reference:absent-member')
    return r


def extra_clauses(case, rec, G, cs, cls, ids, n, T, g, tag=None, wp=''):
    """added clauses that apply to every model class: caller array kinds, re-evaluation, sub-model method, ideal fugacity / Poynting."""
    tag = tag or cls
    x = np.array(case['x'], float)
    m = len(x)
    same = lambda a: (np.array_equal(np.asarray(a, float), g) or (np.ndim(a) == 0 and np.all(g == a)))
    # (6b) other kinds of caller arrays
    xk = case.get('xk')
    try:
        if xk == 'list':
            xc = [float(v) for v in x]; keep = list(xc)
            gl = G(xc, T)
            rec.check(xc == keep and all(type(v) is float for v in xc), 'x-unchanged', f'{tag}/list', f'{cls} model modified the composition list passed by the caller: {keep} -> {xc}')
            rec.check(same(gl), 'functional-form', f'{tag}/list-argument', f'Gamma(list(x), T) = {np.asarray(gl).tolist()} differs from Gamma(array(x), T) = {g.tolist()}')
            rec.hit('caller:list')
        elif xk == 'int':
            xc = np.array(case['x']).astype(int); keep = xc.copy()
            gi = G(xc, T)
            rec.check(xc.dtype == keep.dtype and xc.tobytes() == keep.tobytes(), 'x-unchanged', f'{tag}/int-array', f'{cls} model modified the integer composition array passed by the caller')
            rec.check(same(gi), 'functional-form', f'{tag}/int-argument', f'Gamma(int array, T) = {np.asarray(gi).tolist()} differs from Gamma(float array, T) = {g.tolist()}')
            rec.hit('caller:int')
        elif xk in ('view', 'f-view'):
            base = np.full(2 * m, -7.0); base[::2] = x; keep = base.copy()
            xc = base[::2]
            if xk == 'view':
                gv = G(xc, T)
            else:
                gv = G.f(xc, T, *G.args)                      # the functional form on the caller's own (non-contiguous) array
            rec.check(base.tobytes() == keep.tobytes(), 'x-unchanged', f'{tag}/{xk}', f'{cls} ({"model object" if xk == "view" else "functional form"}) modified the non-contiguous composition view passed by the caller: {keep.tolist()} -> {base.tolist()}')
            rec.check(same(gv), 'functional-form', f'{tag}/{xk}-argument', f'value on a non-contiguous view {np.asarray(gv).tolist()} differs from Gamma(x, T) = {g.tolist()}')
            rec.hit('caller:' + xk)
        # the functional form on the caller's own contiguous array (not a copy)
        xc = x.copy(); keep = xc.copy()
        gf = G.f(xc, T, *G.args)
        rec.check(xc.tobytes() == keep.tobytes(), 'x-unchanged', f'{tag}/functional-form', f'{cls}.f modified the composition array passed by the caller: {keep.tolist()} -> {xc.tolist()}')
    except Exception as e:
        rec.exception('x-unchanged', e, what=f'{cls} on a caller array of kind {xk} raised {type(e).__name__}: {str(e)[:150]}')
    # (6c) side-effect free: the same (x, T) after an evaluation at another state, and through args captured before it
    if case.get('x2') is not None:
        try:
            args = G.args
            x2 = np.array(case['x2'], float)
            g2nd = G(x2, case['T2'])
            if cls in GROUP_CLASSES:
                value_reference(case, rec, cls, ids, cs, n, np.array(case['x2'], float), case['T2'], g2nd, wp + 'second-state')
                rec.check(x2.tobytes() == np.array(case['x2'], float).tobytes(), 'x-unchanged', f'{tag}/second-state', f'{cls} model modified the composition array of the intervening evaluation')
                rec.hit('value-reference:second-state')
            g3 = G(x.copy(), T)
            g4 = G.f(x.copy(), T, *args)
            rec.check(same(g3), 'repeatable', f'{tag}/after-other-state', f'Gamma(x, T) = {g.tolist()} but {np.asarray(g3).tolist()} after an intervening evaluation at x2={case["x2"]}, T2={case["T2"]}')
            rec.check(same(g4), 'repeatable', f'{tag}/captured-args', f'Gamma.f(x, T, *args) with args captured before an intervening evaluation gives {np.asarray(g4).tolist()}, Gamma(x, T) = {g.tolist()}')
        except Exception as e:
            rec.exception('repeatable', e, what=f'{cls} re-evaluation raised {type(e).__name__}: {str(e)[:150]}')
    # (7b) the public sub-model method (chemicals with groups only, normalised sub-composition)
    if (cls in GROUP_CLASSES and n >= 2) or (hasattr(G, 'activity_coefficients') and hasattr(G, '_index')):
        # n >= 2 members with groups: the class must offer the method (the harness knows which members carry groups: the first n)
        idx = list(range(n)) if (cls in GROUP_CLASSES and n >= 2) else [int(i) for i in G._index]
        xs = x[idx]
        if xs.sum() > 0:
            xs = xs / xs.sum(); keep = xs.copy()
            try:
                ga = np.asarray(G.activity_coefficients(xs, T), float)
                rec.check(xs.tobytes() == keep.tobytes(), 'x-unchanged', f'{tag}/activity_coefficients', f'{cls}.activity_coefficients modified the composition array passed by the caller')
                ref = g[idx]
                # nan (member absent from every group sum) is mapped to one by the functional form: tolerated only for an absent member whose coefficient from the model object is exactly one
                nan_ok = ga.shape == ref.shape and all((a == a) or (xs[k] == 0 and ref[k] == 1.0) for k, a in enumerate(ga))
                rec.check(nan_ok, 'functional-form', f'{tag}/activity_coefficients/nan-for-present-member', f'{cls}.activity_coefficients(x_sub={xs.tolist()}, T) = {ga.tolist()} has nan for a member that is present (Gamma(x, T) = {ref.tolist()})')
                okv = ga.shape == ref.shape and all((a == b) or (a != a) or abs(a - b) <= 1e-12 * abs(b) or (wp and b > 0 and abs(a - b) <= 1e-12 * b * abs(np.log(b))) for a, b in zip(ga, ref))
                rec.check(okv, 'functional-form', f'{tag}/activity_coefficients', f'{cls}.activity_coefficients(x_sub, T) = {ga.tolist()} differs from Gamma(x, T)[with groups] = {ref.tolist()}')
                if cls in GROUP_CLASSES and n >= 2:
                    groups = [groups_of(cls, ids[k], cs[k]) for k in range(n)]
                    if all(gr is not None for gr in groups):
                        r = ref_gammas(cls, groups, xs, T)
                        fin = ga == ga
                        if r is None:
                            rec.hit('value-reference:reference-out-of-range')
                        else:
                            rec.check(ga.shape == r.shape and (within_ln if wp else within)(ga[fin], r[fin], VALUE_RTOL), 'value-reference', f'{cls}/{wp}activity_coefficients',
                                      f'{cls}.activity_coefficients(x_sub={xs.tolist()}, T={T}) = {ga.tolist()} but the published model (thermo.unifac) gives {r.tolist()}',
                                      residual=(relmax_ln if wp else relmax)(ga[fin], r[fin]) if (ga.shape == r.shape and fin.any()) else None)
                    rec.hit('sub-model-method:' + cls)
                rec.hit('sub-model-method')
            except Exception as e:
                rec.exception('functional-form', e, what=f'{cls}.activity_coefficients raised {type(e).__name__}: {str(e)[:150]}')
    # (5b) ideal models return one for every chemical list / argument form and leave their arguments alone
    try:
        P = case.get('P', 101325.)
        y = x.copy(); Ps = np.array(case.get('Psats') or [1e4] * m, float); Ps0 = Ps.copy()
        phi = eq.IdealFugacityCoefficients(cs); pcf = eq.MockPoyintingCorrectionFactors(cs); gid = eq.IdealActivityCoefficients(cs)
        vals = [phi(y, T, P), phi.f(y, T, P, *phi.args), pcf(T, P, Ps), pcf(T, P), gid.f(y, T, *gid.args)]
        gi = gid(y, T)
        rec.check(all(np.all(np.asarray(v) == 1.0) for v in vals) and np.shape(gi) == (m,) and np.all(gi == 1.0), 'ideal-models', 'every-case', f'ideal fugacity / Poynting / activity models returned {vals} / {np.asarray(gi).tolist()}')
        rec.check(y.tobytes() == x.tobytes() and Ps.tobytes() == Ps0.tobytes(), 'x-unchanged', 'ideal-models', 'an ideal model modified the composition or the Psats array passed by the caller')
        rec.hit('ideal:every-case')
    except Exception as e:
        rec.exception('ideal-models', e, what=f'ideal models raised {type(e).__name__}: {e}')


def replay(case, rec):
    run_case(case, rec)


def run(rec, rng, tier, shard, nshards):
    n = 2350 if tier == 'quick' else 31000          # 64 % of the cases come from the first pool (1500 / 20000 as before), 22 % from the wide pool, 14 % from the assigned-groups pool
    for i in range(n):
        case = gen_case(rng)
        try:
            run_case(case, rec)
        except Exception as e:
            rec.exception('harness', e, what=f'harness error: {type(e).__name__}: {e}')
        if i % 151 == 0: rec.sample(case)
