"""C20 — separation helper functions close the material balance and meet their targets.

Monitor (MaterialLedger): molar flows of every inlet and outlet are recorded around each real helper call; the
per-chemical balance, non-negativity, and the helper's own target (partition ratios, moisture fraction, phase routing,
split identity, balance residual) are evaluated.
"""
import warnings
import numpy as np
import thermosteam as tmo
from thermosteam import separations as sep
from thermosteam.exceptions import InfeasibleRegion
from vt.core import case_hash
from vt.common import thermo_of, stream_invariant

PID = 'C20'
RULE = ('random cases per helper: mix_and_split, adjust_moisture_content, mix_and_split_with_moisture_content, partition / phase_fraction (K in 10^U(-3,3), optional phi guess, '
        'forced top/bottom chemicals, chemicals in none of the lists, strict on/off), phase_split, chemical_splits, material_balance (invertible inlet matrices), and the vle / lle wrappers '
        '(efficiency in [0,1]); feeds of 1-6 chemicals with flows 10^U(-2,3) incl. zeros; outlets fresh and holding stale content from a previous run. '
        'non-trivial = >=2 chemicals flowing and both outlets non-empty (or a non-degenerate target); distinct = hash of the case')
MIN_NONTRIVIAL = {'quick': 400, 'thorough': 15000}
ASSUMPTIONS = ['the vle / lle wrappers are driven with water/alcohol(/octanol) feeds inside the model ranges; their equilibrium quality is C04/C15, only the routing and balance are judged here',
               'moisture adjustment is judged only when the permeate holds enough water (otherwise the documented InfeasibleRegion is expected)']
IDS = ('Water', 'Ethanol', 'Octanol', 'Methanol', 'O2', 'Glucose')


def required(tier):
    return ['mix_and_split', 'moisture', 'partition', 'partition:stale-outlets', 'partition:forced', 'phase_fraction', 'phase_split', 'chemical_splits', 'material_balance', 'material_balance:lstsq', 'moisture:strict=False:short', 'vle-wrapper', 'lle-wrapper']


def arr(s): return s.mol.to_array() if hasattr(s.mol, 'to_array') else np.asarray(s.mol, float)


def mk(th, flows, phase='l', T=298.15):
    s = tmo.Stream(None, phase=phase, T=T, thermo=th)
    for i, v in zip(th.chemicals.IDs, flows):
        if v: s.imol[i] = v
    return s


def gflows(rng, n, pzero=0.25, lo=-2, hi=3):
    return [0.0 if rng.random() < pzero else round(10 ** rng.uniform(lo, hi), 4) for _ in range(n)]


def gen_case(rng):
    n = len(IDS)
    t = rng.choices(['mix_and_split', 'moisture', 'mixmoist', 'partition', 'phase_fraction', 'phase_split', 'chemical_splits', 'material_balance', 'vle', 'lle'],
                    [4, 3, 2, 8, 2, 2, 2, 3, 1, 1])[0]
    c = {'t': t, 'stale': rng.random() < 0.5, 'stale_flows': [gflows(rng, n), gflows(rng, n)]}
    if t in ('mix_and_split', 'mixmoist'):
        c['ins'] = [gflows(rng, n) for _ in range(rng.randrange(1, 4))]
        c['split'] = rng.choice([round(rng.random(), 4), 0.0, 1.0]) if rng.random() < 0.4 else [rng.choice([0.0, 1.0, round(rng.random(), 4)]) for _ in range(n)]
        c['mc'] = round(rng.uniform(0.02, 0.95), 4)
    elif t == 'moisture':
        c['ret'] = gflows(rng, n); c['perm'] = gflows(rng, n); c['mc'] = round(rng.uniform(0.02, 0.95), 4)
        c['enough'] = rng.random() < 0.85
        c['strict'] = rng.choice([None, None, True, False])
    elif t in ('partition', 'phase_fraction'):
        c['feed'] = gflows(rng, n, pzero=0.15)
        k = rng.randrange(1, 5)
        ids = rng.sample(range(n), k)
        rest = [i for i in range(n) if i not in ids]
        c['ids'] = ids
        c['K'] = [round(10 ** rng.uniform(-3, 3), 5) for _ in ids]
        c['top'] = [i for i in rest if rng.random() < 0.3]
        c['bottom'] = [i for i in rest if i not in c['top'] and rng.random() < 0.3]
        c['phi'] = rng.choice([None, None, round(rng.random(), 3)])
        c['strict'] = rng.random() < 0.3
    elif t == 'phase_split':
        c['phases'] = rng.choice(['lg', 'lL', 'gls', 'lLg'])
        c['rows'] = [gflows(rng, n) for _ in c['phases']]
    elif t == 'chemical_splits':
        c['a'] = gflows(rng, n, 0.1); c['b'] = gflows(rng, n, 0.1)
    elif t == 'material_balance':
        k = rng.randrange(1, 4)
        c['ids'] = rng.sample(range(n), k)
        c['var'] = [gflows(rng, n, 0.1, 0, 2) for _ in range(k)]
        c['cin'] = [gflows(rng, n, 0.4, -1, 1) for _ in range(rng.randrange(0, 3))]
        c['x'] = [round(rng.uniform(0.2, 5), 4) for _ in range(k)]       # true scale factors: the outlet is built from them
        c['extra_out'] = gflows(rng, n, 0.5, -1, 1)
        c['is_exact'] = rng.random() < 0.7; c['nout'] = rng.choice([1, 1, 2])
    elif t == 'vle':
        c['feed'] = [round(10 ** rng.uniform(0, 2), 3), round(10 ** rng.uniform(0, 2), 3), 0.0, round(10 ** rng.uniform(-1, 2), 3) if rng.random() < 0.6 else 0.0, rng.choice([0.0, 0.05]), 0.0]
        c['spec'] = rng.choice([{'V': round(rng.uniform(0.1, 0.9), 3), 'P': 101325.}, {'T': round(rng.uniform(350, 370), 2), 'P': 101325.}, {'V': round(rng.uniform(0.1, 0.9), 3), 'T': round(rng.uniform(330, 360), 2)}])
    elif t == 'lle':
        c['feed'] = [round(10 ** rng.uniform(0, 2), 3), round(10 ** rng.uniform(-1, 1), 3), round(10 ** rng.uniform(0, 2), 3), 0.0, 0.0, 0.0]
        c['eff'] = rng.choice([1.0, 0.0, round(rng.random(), 3)])
        c['topchem'] = rng.choice([None, 'Octanol', 'Water'])
    return c


def balance(rec, clause, tag, ins, outs, what):
    tot_in = sum(ins) if ins else 0.0; tot_out = sum(outs)
    scale = max(float(np.max(np.abs(tot_in))) if np.size(tot_in) else 0.0, 1e-300)
    res = float(np.max(np.abs(tot_in - tot_out))) / scale
    ok = rec.check(bool(np.all(np.abs(tot_in - tot_out) <= 1e-11 * np.maximum(np.abs(tot_in), np.abs(tot_out)) + 1e-13 * scale)), clause, f'balance/{tag}',
                   f'{what}: outlets {np.asarray(tot_out).tolist()} != inlets {np.asarray(tot_in).tolist()}', residual=res)
    neg = [float(v) for o in outs for v in o if v < 0]
    rec.check(not neg, clause, f'negative/{tag}', f'{what}: negative outlet flows {neg[:4]} without an infeasibility report')
    return ok


def run_case(case, rec):
    rec.begin_case(case)
    th = thermo_of(IDS)
    tmo.settings.set_thermo(th)
    ids = th.chemicals.IDs
    MW = th.chemicals.MW
    t = case['t']
    stale = case['stale']
    def outlet(k, phase='l'):
        return mk(th, case['stale_flows'][k] if stale else [0.0] * len(ids), phase)
    tag = 'stale-outlets' if stale else 'fresh-outlets'
    with warnings.catch_warnings():
        warnings.simplefilter('ignore')
        try:
            if t == 'mix_and_split':
                ins = [mk(th, f) for f in case['ins']]; top, bot = outlet(0), outlet(1)
                before = [arr(i).copy() for i in ins]
                split = np.array(case['split']) if isinstance(case['split'], list) else case['split']
                sep.mix_and_split(ins, top, bot, split)
                balance(rec, 'mix_and_split', tag, before, [arr(top), arr(bot)], 'mix_and_split')
                exp_top = sum(before) * split
                rec.check(np.allclose(arr(top), exp_top, rtol=1e-12, atol=0), 'mix_and_split', f'top/{tag}', f'top {arr(top).tolist()} != split*sum(ins) {np.asarray(exp_top).tolist()}')
                if (sum(before) > 0).sum() >= 2 and arr(top).any() and arr(bot).any(): rec.mark_nontrivial(case_hash(case))
            elif t in ('moisture', 'mixmoist'):
                mc = case['mc']
                if t == 'moisture':
                    ret = mk(th, case['ret']); perm = mk(th, case['perm'])
                    if case['enough']:
                        dry = ret.F_mass - ret.imass['Water']
                        need = dry * mc / (1 - mc) - ret.imass['Water']
                        if perm.imass['Water'] < need: perm.imass['Water'] = need * 1.5 + 1.0
                    before = [arr(ret).copy(), arr(perm).copy()]
                    strict = case.get('strict')
                    run = (lambda: sep.adjust_moisture_content(ret, perm, mc)) if strict is None else (lambda: sep.adjust_moisture_content(ret, perm, mc, strict=strict))
                    if strict is False: rec.hit('moisture:strict=False')
                else:
                    ins = [mk(th, f) for f in case['ins']]; ret, perm = outlet(0), outlet(1)
                    before = [arr(i).copy() for i in ins]
                    split = np.array(case['split']) if isinstance(case['split'], list) else case['split']
                    run = lambda: sep.mix_and_split_with_moisture_content(ins, ret, perm, split, mc)
                try:
                    run()
                except InfeasibleRegion:
                    rec.refuse('not enough water (documented InfeasibleRegion)'); return
                balance(rec, 'moisture', tag if t == 'mixmoist' else 'adjust', before, [arr(ret), arr(perm)], t)
                Fm = ret.F_mass
                dry = Fm - ret.imass['Water']
                if t == 'moisture' and case.get('strict') is False and not case['enough'] and perm.imol['Water'] == 0:
                    # not enough water and infeasibility not reported: the balance and the signs (judged above) are all that can be asked
                    rec.hit('moisture:strict=False:short'); rec.mark_nontrivial(case_hash(case)); return
                if dry > 0:
                    got = ret.imass['Water'] / Fm
                    rec.check(abs(got - mc) <= 1e-9, 'moisture', 'target', f'{t}: retentate moisture fraction {got!r} != requested {mc}', residual=abs(got - mc))
                    rec.mark_nontrivial(case_hash(case))
            elif t in ('partition', 'phase_fraction'):
                feed = mk(th, case['feed'])
                IDs = tuple(ids[i] for i in case['ids']); K = np.array(case['K'])
                topc = tuple(ids[i] for i in case['top']) or None; botc = tuple(ids[i] for i in case['bottom']) or None
                fb = arr(feed).copy()
                if not fb[case['ids'] + case['top'] + case['bottom']].sum():
                    rec.refuse('no material among the listed chemicals (composition undefined; not judged)'); return
                if t == 'phase_fraction':
                    try:
                        phi = sep.phase_fraction(feed, IDs, K, case['phi'], topc, botc, case['strict'])
                    except InfeasibleRegion:
                        rec.refuse('InfeasibleRegion (strict)'); return
                    top, bot = outlet(0), outlet(1)
                    try: phi2 = sep.partition(mk(th, case['feed']), top, bot, IDs, K, case['phi'], topc, botc, case['strict'])
                    except InfeasibleRegion: rec.refuse('InfeasibleRegion (strict)'); return
                    rec.check(0.0 <= phi <= 1.0 and abs(phi - phi2) <= 1e-9, 'phase_fraction', 'agrees-with-partition', f'phase_fraction {phi} vs partition {phi2}')
                    rec.check(np.array_equal(arr(feed), fb), 'phase_fraction', 'feed-changed', 'phase_fraction changed the feed')
                    rec.mark_nontrivial(case_hash(case)); return
                top, bot = outlet(0), outlet(1)
                try:
                    phi = sep.partition(feed, top, bot, IDs, K, case['phi'], topc, botc, case['strict'])
                except InfeasibleRegion:
                    rec.refuse('InfeasibleRegion (strict)'); return
                ptag = tag + ('/forced' if (topc or botc) else '')
                balance(rec, 'partition', ptag, [fb], [arr(top), arr(bot)], 'partition')
                rec.check(np.array_equal(arr(feed), fb), 'partition', 'feed-changed', 'partition changed the feed')
                if stale: rec.hit('partition:stale-outlets')
                if topc or botc: rec.hit('partition:forced')
                # forced chemicals entirely in their outlet
                for i in case['top']:
                    rec.check(arr(bot)[i] == 0 and arr(top)[i] == fb[i], 'partition', f'forced-top/{tag}', f'forced top chemical {ids[i]}: top {arr(top)[i]} bottom {arr(bot)[i]} feed {fb[i]}')
                for i in case['bottom']:
                    rec.check(arr(top)[i] == 0 and arr(bot)[i] == fb[i], 'partition', f'forced-bottom/{tag}', f'forced bottom chemical {ids[i]}: top {arr(top)[i]} bottom {arr(bot)[i]} feed {fb[i]}')
                # chemicals in none of the lists leave with the top (bottom = 0)
                for i in range(len(ids)):
                    if i not in case['ids'] and i not in case['top'] and i not in case['bottom']:
                        rec.check(arr(bot)[i] == 0, 'partition', f'unlisted-in-bottom/{tag}', f'chemical {ids[i]} is in no list but the bottom outlet holds {arr(bot)[i]} of it (feed {fb[i]})')
                # partition coefficients reproduced up to one common factor
                yt, xb = arr(top), arr(bot)
                idx = [i for i in case['ids'] if yt[i] > 0 and xb[i] > 0]
                if len(idx) >= 2 and 0 < phi < 1:
                    y = yt[idx] / yt[case['ids']].sum(); x = xb[idx] / xb[case['ids']].sum()
                    Kd = {i: k for i, k in zip(case['ids'], K)}
                    r = np.array([(y[m] / x[m]) / Kd[i] for m, i in enumerate(idx)])
                    # entries clipped by handle_infeasible_flow_rates (bottom = feed or 0) are exempt: they cannot be in both outlets
                    spread = float(r.max() / r.min() - 1)
                    rec.check(spread <= 1e-6, 'partition', f'K-ratio/{ptag}', f'(y/x)/K not one common factor: {r.tolist()} (phi={phi})', residual=spread)
                    rec.mark_nontrivial(case_hash(case))
                elif fb.any() and (fb > 0).sum() >= 2: rec.mark_nontrivial(case_hash(case))
            elif t == 'phase_split':
                ms = tmo.MultiStream(None, phases=tuple(case['phases']), thermo=th)
                for p, row in zip(case['phases'], case['rows']):
                    for i, v in zip(ids, row):
                        if v: ms.imol[p, i] = v
                outs = [outlet(k % 2) for k in range(len(ms.phases))]
                sep.phase_split(ms, outs)
                for p, o in zip(ms.phases, outs):
                    rec.check(np.array_equal(arr(o), ms.imol[p].to_array()) and o.phase == p, 'phase_split', tag, f'outlet for phase {p}: phase {o.phase}, flows {arr(o).tolist()} != {ms.imol[p].to_array().tolist()}')
                rec.mark_nontrivial(case_hash(case))
            elif t == 'chemical_splits':
                a = mk(th, case['a']); b = mk(th, case['b'])
                spl = sep.chemical_splits(a, b)
                d = spl.data; d = d.to_array() if hasattr(d, 'to_array') else np.asarray(d)
                tot = arr(a) + arr(b)
                m = tot > 0
                rec.check(np.allclose(d[m] * tot[m], arr(a)[m], rtol=1e-12, atol=0), 'chemical_splits', 'identity', f'splits*(a+b) {(d * tot).tolist()} != a {arr(a).tolist()}')
                spl2 = sep.chemical_splits(a, mixed=mk(th, list(tot)))
                d2 = spl2.data; d2 = d2.to_array() if hasattr(d2, 'to_array') else np.asarray(d2)
                rec.check(np.allclose(d2[m], d[m], rtol=1e-12, atol=0), 'chemical_splits', 'mixed-form', 'chemical_splits(a, mixed=a+b) differs from chemical_splits(a, b)')
                rec.mark_nontrivial(case_hash(case))
            elif t == 'material_balance':
                k = len(case['ids'])
                var = [mk(th, f) for f in case['var']]; cin = [mk(th, f) for f in case['cin']]
                A = np.array([arr(v) for v in var]).T[case['ids'], :]
                if abs(np.linalg.det(A)) < 1e-6 * np.abs(A).max() ** k or np.linalg.cond(A) > 1e6:
                    rec.refuse('singular / ill-conditioned inlet matrix (excluded by the quantifier)'); return
                out = sum(x * arr(v) for x, v in zip(case['x'], var)) + (sum(arr(c) for c in cin) if cin else 0)
                nout = case.get('nout', 1)
                outs = [mk(th, list(out / nout)) for _ in range(nout)]        # the same total leaving through one or two constant outlets
                if case.get('is_exact', True): sep.material_balance(tuple(ids[i] for i in case['ids']), var, cin, outs)
                else:
                    rec.hit('material_balance:lstsq')
                    sep.material_balance(tuple(ids[i] for i in case['ids']), var, cin, outs, is_exact=False)
                tot_in = sum(arr(v) for v in var) + (sum(arr(c) for c in cin) if cin else 0)
                tot_out = sum(arr(o) for o in outs)
                res = np.abs(tot_in - tot_out)[case['ids']]
                scale = max(np.abs(tot_out).max(), 1e-300)
                rec.check(bool(np.all(res <= 1e-9 * scale)), 'material_balance', 'residual', f'inlets minus outlets on the chosen chemicals: {res.tolist()} (scale {scale})', residual=float(res.max() / scale))
                fac = [float(arr(v).sum() / np.array(f).sum()) for v, f in zip(var, case['var'])]
                rec.check(np.allclose(fac, case['x'], rtol=1e-8), 'material_balance', 'scale-factors', f'recovered scale factors {fac} != true {case["x"]}')
                rec.mark_nontrivial(case_hash(case))
            elif t == 'vle':
                feed = mk(th, case['feed'], T=340.)
                vap, liq = outlet(0, 'l'), outlet(1, 'g')
                fb = arr(feed).copy()
                try:
                    sep.vle(feed, vap, liq, **case['spec'])
                except Exception as e:
                    # the balance is stated for calls that return; a raise inside the equilibrium solver is counted, programming errors are still reported
                    if not isinstance(e, (TypeError, AttributeError, KeyError, IndexError, NameError, UnboundLocalError)): rec.refuse(f'vle raised: {type(e).__name__}'); return
                    raise
                balance(rec, 'vle-wrapper', tag, [fb], [arr(vap), arr(liq)], 'separations.vle')
                rec.check(vap.phase == 'g' and liq.phase == 'l' and vap.T == liq.T and vap.P == liq.P, 'vle-wrapper', 'routing', f'vapour outlet phase {vap.phase}, liquid outlet phase {liq.phase}, T {vap.T}/{liq.T}')
                rec.check(np.array_equal(arr(feed), fb), 'vle-wrapper', 'feed-changed', 'separations.vle changed the feed')
                if arr(vap).any() and arr(liq).any(): rec.mark_nontrivial(case_hash(case))
            elif t == 'lle':
                feed = mk(th, case['feed'], T=300.)
                top, bot = outlet(0), outlet(1)
                fb = arr(feed).copy()
                try:
                    sep.lle(feed, top, bot, top_chemical=case['topchem'], efficiency=case['eff'])
                except Exception as e:
                    # the balance is stated for calls that return; a raise inside the equilibrium solver is counted, programming errors are still reported
                    if not isinstance(e, (TypeError, AttributeError, KeyError, IndexError, NameError, UnboundLocalError)): rec.refuse(f'lle raised: {type(e).__name__}'); return
                    raise
                balance(rec, 'lle-wrapper', tag + f'/eff{"=1" if case["eff"] == 1 else ("=0" if case["eff"] == 0 else "<1")}', [fb], [arr(top), arr(bot)], 'separations.lle')
                rec.check(np.array_equal(arr(feed), fb), 'lle-wrapper', 'feed-changed', 'separations.lle changed the feed')
                if case['eff'] == 0: rec.check(np.allclose(arr(top), arr(bot), rtol=1e-12), 'lle-wrapper', 'eff=0', 'with efficiency 0 the feed is not divided equally')
                if arr(top).any() and arr(bot).any(): rec.mark_nontrivial(case_hash(case))
        except Exception as e:
            rec.exception(t, e, what=f'{t} ({tag}) raised {type(e).__name__}: {str(e)[:160]}')


def replay(case, rec):
    run_case(case, rec)


def run(rec, rng, tier, shard, nshards):
    n = 3000 if tier == 'quick' else 30000
    for i in range(n):
        case = gen_case(rng)
        try:
            run_case(case, rec)
        except Exception as e:
            rec.exception('harness', e, what=f'harness error: {type(e).__name__}: {e}')
        if i % 301 == 0: rec.sample(case)
