"""C20 — separation helper functions close the material balance and meet their targets.

Monitor (MaterialLedger): molar flows of every inlet and outlet are recorded around each real helper call; the
per-chemical balance, non-negativity, and the helper's own target (partition ratios, moisture fraction, phase routing,
split identity, balance residual) are evaluated.
"""
import warnings
import numpy as np
import thermosteam as tmo
from thermosteam import separations as sep
from thermosteam.exceptions import InfeasibleRegion
from vt.core import case_hash, exc_key
from vt.common import thermo_of, stream_invariant

PID = 'C20'
RULE = ('random cases per helper: mix_and_split, adjust_moisture_content, mix_and_split_with_moisture_content, partition / phase_fraction (K in 10^U(-3,3), optional phi guess, '
        'forced top/bottom chemicals, chemicals in none of the lists, strict on/off), phase_split, chemical_splits, material_balance (invertible inlet matrices), and the vle / lle wrappers '
        '(efficiency in [0,1]); feeds of 1-6 chemicals with flows 10^U(-2,3) incl. zeros; outlets fresh and holding stale content from a previous run. '
        'Coverage additions: moisture adjustment with ID= (non-water moisture) and with MultiStream retentate / permeate (moisture partly outside the liquid phase); a single forced chemical given as '
        'a bare string; equal / repeated / unit K values; partition_coefficients() of the outlets against the given K, vle_/lle_partition_coefficients() of the wrapper outlets; vle driven by duty Q, by x / y '
        '(binary feeds), far below bubble / above dew, and with a stale multi_stream=; lle with multi_stream= and single-liquid-phase feeds; phase_split of a single-phase Stream; mix_and_split with '
        'MultiStream / gas inlets and with the top outlet among the inlets. '
        'Oracle audit: a raise is a refusal only for the documented exception type AND where the harness sees from the inputs that it is warranted (moisture: its own need / have / liquid moisture; '
        'partition: its own Rachford-Rice flows outside [0, feed] under strict=True, never under strict=False; vle: x / y outside the lever rule on the bubble / dew point, a duty cooling the feed below 250 K; '
        'lle and vle (V,P) / (T,P) / (V,T): never); phase_split is compared with the rows the harness put in; y_i = K_i x_i over the whole outlets for every listed chemical wherever the Rachford-Rice reference has an interior root. '
        'Call histories (in addition to the single-call cases): the same two outlet objects handed to 2-4 calls of mix_and_split / mix_and_split_with_moisture_content / phase_split / partition / vle in any order, '
        'the outlets starting fresh, as liquid / gas streams holding content or as MultiStreams holding content in several phases; inlets liquid / gas / solid streams, MultiStreams one of whose phases may hold nothing, '
        'streams flashed with Stream.vle (subcooled / superheated: an empty phase) and the outlets themselves (top and / or bottom among the inlets); phase_split of one living feed object rewritten between calls '
        '(through the indexer, after empty(), copy_like, its phase proxies, after a change of its phases and back); every call judged on its own against what the harness put in. '
        'non-trivial = >=2 chemicals flowing and both outlets non-empty (or a non-degenerate target); distinct = hash of the case')
MIN_NONTRIVIAL = {'quick': 400, 'thorough': 15000}
ASSUMPTIONS = ['the vle / lle wrappers are driven with water/alcohol(/octanol) feeds inside the model ranges; their equilibrium quality is C04/C15, only the routing and balance are judged here',
               'moisture adjustment is judged only when the permeate holds enough water (otherwise the documented InfeasibleRegion is expected); whether it does is decided by the harness from the inputs (moisture needed for the target vs liquid moisture of the permeate; for mix_and_split_with_moisture_content with vapour among the inlets the phase rows come from a separate mix_and_split run on copies)',
               'whether an x / y specification of the vle wrapper is attainable is decided with the bubble / dew point of the specified composition (Stream.bubble_point_at_P / dew_point_at_P etc., judged by C04) and the lever rule; a refused duty must cool the feed below 250 K by an upper bound of its heat capacity',
               'the whole-outlet K check allows the 1e-6 resolution of the phase fraction (bracket width of the library\'s solver) carried through the harness\' own Rachford-Rice model',
               'call histories: partition is not called while an outlet is a MultiStream (it writes through .mol / .imol[IDs] of single-phase outlets); an outlet holding glucose in a gas phase is not recycled as an inlet (no gas-phase enthalpy model for it); '
               'an InfeasibleRegion of mix_and_split_with_moisture_content ends the history without a judgement (whether a refusal is warranted is judged by the single-call cases); a MultiStream outlet of phase_split may file a liquid phase under its own liquid label (l / L)',
               'call histories: a mix_and_split / mix_and_split_with_moisture_content call whose top outlet is a single-phase gas Stream while the inlets bring glucose asks the data package for the gas enthalpy of glucose (there is none): '
               'such calls are judged when they return; a raise that carries the TypeError of Gas_Enthalpy_Ref_Solid on its chain is counted (history:mix/glucose-into-gas-outlet/raised), not judged; '
               'a flashed inlet that Stream.vle(V, P) cannot prepare (FloatingPointError from inside DewPoint.solve_Tx: recorded finding) ends the history under its own key',
               "material_balance(balance='composition') is not judged: it is an iteration to a loose tolerance on compositions, not the statement's 'inlets minus outlets vanish'"]
IDS = ('Water', 'Ethanol', 'Octanol', 'Methanol', 'O2', 'Glucose')


def required(tier):
    return ['mix_and_split', 'moisture', 'partition', 'partition:stale-outlets', 'partition:forced', 'phase_fraction', 'phase_split', 'chemical_splits', 'material_balance', 'material_balance:lstsq', 'moisture:strict=False:short', 'partition:rr-reference', 'partition:rr-reference/one-sided-K', 'phase_split:empty-phase/stale-outlet', 'vle-wrapper', 'lle-wrapper',
            'moisture:ID', 'moisture:multistream', 'moisture:multistream:moisture-in-other-phase', 'forced:bare-string', 'partition:equal-K', 'partition:unit-K', 'partition_coefficients', 'vle:Q', 'vle:x-or-y', 'vle:one-outlet-empty',
            'vle:multi_stream', 'vle_partition_coefficients', 'lle:multi_stream', 'lle:single-liquid', 'lle_partition_coefficients', 'phase_split:stream', 'mix_and_split:multistream-inlet', 'mix_and_split:top-among-inlets',
            # oracle audit: every vle specification class must be JUDGED (a refusal is granted only where the harness sees it warranted), the Rachford-Rice reference must reach
            # phase_fraction and the strict cases, the whole-outlet K check must see single-listed-chemical cases, phase_split must compare against the given rows
            'vle:judged/VP', 'vle:judged/VP/edge', 'vle:judged/TP', 'vle:judged/TP/far', 'vle:judged/VT', 'vle:judged/QP', 'vle:judged/x-or-y', 'lle:judged/two-liquid',
            'phase_fraction:rr-reference', 'partition:rr-reference/strict', 'partition:K-whole-outlet/well-conditioned', 'partition:K-whole-outlet/one-listed',
            'phase_split:feed-unchanged', 'moisture:judged', 'moisture:judged/mixmoist', 'moisture:refusal-warranted',
            # call histories on reused outlets (floors: about a quarter of what a quick run reaches)
            'history:mix_and_split>=800', 'history:mix_and_split/multistream-outlets>=400', 'history:mix_and_split/reused-outlets-holding-content>=500', 'history:mix/empty-phase-inlet>=400',
            'history:mix/outlet-holds-phase-absent-from-inlets/feed-non-empty>=300', 'history:mix/flashed-inlet>=100', 'history:top-among-inlets>=100', 'history:bottom-among-inlets>=100',
            'history:mixmoist/judged>=150', 'history:mixmoist/target-judged>=100', 'history:mixmoist/multistream-outlets>=100',
            'history:phase_split>=300', 'history:phase_split/multistream-outlets>=150', 'history:phase_split/reused-outlets-holding-content>=200', 'history:phase_split/empty-phase>=100',
            'history:phase_split/feed-imol>=8', 'history:phase_split/feed-empty>=5', 'history:phase_split/feed-copy_like>=8', 'history:phase_split/feed-proxy>=8', 'history:phase_split/feed-rephase>=8',
            'history:partition/reused-outlets-holding-content>=100', 'history:partition/non-liquid-outlet>=40', 'history:partition/K-ratio>=40',
            'history:vle/multistream-outlets>=60', 'history:vle/reused-outlets-holding-content>=80',
            # input classes that recorded mechanisms are counted against (rate_per of the known findings) / that a not-judged data gap is recognised in
            'vle:dew-flash/ternary>=100', 'vle:dew-flash/binary>=60', 'history:flash-inlet/dew-flash/ternary>=30', 'history:mix/glucose-into-gas-outlet>=100']


def arr(s): return s.mol.to_array() if hasattr(s.mol, 'to_array') else np.asarray(s.mol, float)


def mk(th, flows, phase='l', T=298.15):
    s = tmo.Stream(None, phase=phase, T=T, thermo=th)
    for i, v in zip(th.chemicals.IDs, flows):
        if v: s.imol[i] = v
    return s


def gflows(rng, n, pzero=0.25, lo=-2, hi=3):
    return [0.0 if rng.random() < pzero else round(10 ** rng.uniform(lo, hi), 4) for _ in range(n)]


def gen_case(rng):
    n = len(IDS)
    t = rng.choices(['mix_and_split', 'moisture', 'mixmoist', 'partition', 'phase_fraction', 'phase_split', 'chemical_splits', 'material_balance', 'vle', 'lle'],
                    [4, 3, 2, 8, 2, 2, 2, 3, 1, 1])[0]
    c = {'t': t, 'stale': rng.random() < 0.5, 'stale_flows': [gflows(rng, n), gflows(rng, n)]}
    if t in ('mix_and_split', 'mixmoist'):
        c['ins'] = [gflows(rng, n) for _ in range(rng.randrange(1, 4))]
        c['split'] = rng.choice([round(rng.random(), 4), 0.0, 1.0]) if rng.random() < 0.4 else [rng.choice([0.0, 1.0, round(rng.random(), 4)]) for _ in range(n)]
        c['mc'] = round(rng.uniform(0.02, 0.95), 4)
        c['mID'] = rng.choice([None, None, 'Ethanol', 'Methanol'])
        c['ms_in'] = [rng.random() < 0.25 for _ in c['ins']]                     # this inlet is a gas/liquid MultiStream (its flows divided between the phases)
        c['gas_in'] = [rng.random() < 0.15 for _ in c['ins']]                    # this inlet is a gas stream
        c['top_in'] = t == 'mix_and_split' and rng.random() < 0.15              # the top outlet (with its content) is also the last inlet
        c['frac'] = [round(rng.random(), 3) for _ in range(n)]
    elif t == 'moisture':
        c['ret'] = gflows(rng, n); c['perm'] = gflows(rng, n); c['mc'] = round(rng.uniform(0.02, 0.95), 4)
        c['enough'] = rng.random() < 0.85
        c['strict'] = rng.choice([None, None, True, False])
        c['mID'] = rng.choice([None, None, 'Ethanol', 'Methanol'])
        if rng.random() < 0.3:
            c['ms'] = rng.choice(['ls', 'lg'])                                   # retentate and permeate are MultiStreams; the liquid row holds c['ret'] / c['perm']
            c['ret2'] = gflows(rng, n, pzero=0.6); c['perm2'] = gflows(rng, n, pzero=0.8)
            if rng.random() < 0.7:
                m = IDS.index(c['mID'] or 'Water'); c['ret2'][m] = 0.0; c['perm2'][m] = 0.0      # otherwise some of the moisture sits outside the liquid phase
    elif t in ('partition', 'phase_fraction'):
        c['feed'] = gflows(rng, n, pzero=0.15)
        k = rng.randrange(1, 5)
        ids = rng.sample(range(n), k)
        rest = [i for i in range(n) if i not in ids]
        c['ids'] = ids
        c['K'] = [round(10 ** rng.uniform(-3, 3), 5) for _ in ids]
        c['top'] = [i for i in rest if rng.random() < 0.3]
        c['bottom'] = [i for i in rest if i not in c['top'] and rng.random() < 0.3]
        c['phi'] = rng.choice([None, None, round(rng.random(), 3)])
        c['strict'] = rng.random() < 0.3
        u = rng.random()
        if u < 0.06: c['K'] = [c['K'][0]] * k                                    # all partition coefficients equal
        elif u < 0.10: c['K'] = [1.0] * k                                        # ... and equal to one (no separation)
        elif u < 0.16 and k > 1: c['K'][1] = c['K'][0]                           # a repeated value
        elif u < 0.20: c['K'][rng.randrange(k)] = 1.0
        elif u < 0.30: c['K'] = [round(10 ** rng.uniform(0.05, 3), 5) for _ in ids]       # every listed chemical prefers the top ...
        elif u < 0.40: c['K'] = [round(10 ** rng.uniform(-3, -0.05), 5) for _ in ids]     # ... or the bottom: with a chemical forced into the other outlet both outlets are still non-empty
        if 0.20 <= u < 0.40 and rest:
            c['top'] = []; c['bottom'] = []
            side = 'bottom' if (u < 0.30) == (rng.random() < 0.8) else 'top'
            c[side] = rng.sample(rest, rng.randrange(1, len(rest) + 1))
            for i in c[side]:
                if not c['feed'][i]: c['feed'][i] = round(10 ** rng.uniform(-1, 2), 4)
        c['topstr'] = len(c['top']) == 1 and rng.random() < 0.5                  # a single forced chemical given as a bare string (as in the docstring's bottom_chemicals=('NaCl'))
        c['botstr'] = len(c['bottom']) == 1 and rng.random() < 0.5
    elif t == 'phase_split':
        c['phases'] = rng.choice(['lg', 'lL', 'gls', 'lLg'])
        c['rows'] = [gflows(rng, n) for _ in c['phases']]
        if rng.random() < 0.35: c['rows'][rng.randrange(len(c['rows']))] = [0.0] * n      # a phase of the feed holds nothing: its outlet must end up empty too (stale outlets!)
        if rng.random() < 0.25: c['phases'] = rng.choice('lgs'); c['rows'] = c['rows'][:1]; c['as_stream'] = rng.random() < 0.7      # one phase: a Stream (or a one-phase MultiStream) and one outlet
    elif t == 'chemical_splits':
        c['a'] = gflows(rng, n, 0.1); c['b'] = gflows(rng, n, 0.1)
    elif t == 'material_balance':
        k = rng.randrange(1, 4)
        c['ids'] = rng.sample(range(n), k)
        c['var'] = [gflows(rng, n, 0.1, 0, 2) for _ in range(k)]
        c['cin'] = [gflows(rng, n, 0.4, -1, 1) for _ in range(rng.randrange(0, 3))]
        c['x'] = [round(rng.uniform(0.2, 5), 4) for _ in range(k)]       # true scale factors: the outlet is built from them
        c['extra_out'] = gflows(rng, n, 0.5, -1, 1)
        c['is_exact'] = rng.random() < 0.7; c['nout'] = rng.choice([1, 1, 2])
    elif t == 'vle':
        c['feed'] = [round(10 ** rng.uniform(0, 2), 3), round(10 ** rng.uniform(0, 2), 3), 0.0, round(10 ** rng.uniform(-1, 2), 3) if rng.random() < 0.6 else 0.0, rng.choice([0.0, 0.05]), 0.0]
        c['spec'] = rng.choice([{'V': round(rng.uniform(0.1, 0.9), 3), 'P': 101325.}, {'T': round(rng.uniform(350, 370), 2), 'P': 101325.}, {'V': round(rng.uniform(0.1, 0.9), 3), 'T': round(rng.uniform(330, 360), 2)}])
        u = rng.random()
        if u < 0.15: c['spec'] = {'Q': round(rng.uniform(-1, 1) * 4e4 * sum(c['feed']), 1), 'P': 101325.}                  # duty (kJ/hr): up to about +-the heat of vaporisation of the feed
        elif u < 0.30:
            c['feed'] = c['feed'][:2] + [0.0] * 4                                                                          # x / y specifications are for binary mixtures
            xy = rng.choice('xy'); z = c['feed'][0] / (c['feed'][0] + c['feed'][1])
            # water is the heavier component: a liquid somewhat richer / a vapour somewhat leaner in water than the feed is usually attainable (otherwise the library refuses)
            w = round(min(0.98, max(0.02, z + (1 if xy == 'x' else -1) * rng.uniform(0.005, 0.12) + (rng.uniform(-0.25, 0.25) if rng.random() < 0.2 else 0.0))), 3)
            c['spec'] = {xy: [w, round(1 - w, 3)], rng.choice('PPT'): None}
            c['spec'] = {k_: ((101325. if k_ == 'P' else round(rng.uniform(352, 372), 2)) if v is None else v) for k_, v in c['spec'].items()}
        elif u < 0.42: c['spec'] = {'T': round(rng.choice([rng.uniform(300, 345), rng.uniform(380, 400)]), 2), 'P': 101325.}     # far below the bubble point / above the dew point
        elif u < 0.48: c['spec'] = {'V': rng.choice([0.0, 1.0]), 'P': 101325.}
        c['ms'] = rng.random() < 0.3                                                                                       # multi_stream= given (holding stale content)
    elif t == 'lle':
        c['feed'] = [round(10 ** rng.uniform(0, 2), 3), round(10 ** rng.uniform(-1, 1), 3), round(10 ** rng.uniform(0, 2), 3), 0.0, 0.0, 0.0]
        c['eff'] = rng.choice([1.0, 0.0, round(rng.random(), 3)])
        c['topchem'] = rng.choice([None, 'Octanol', 'Water'])
        u = rng.random()
        if u < 0.12: c['feed'][2] = 0.0                                          # no solvent: one liquid phase
        elif u < 0.2: c['feed'][2] = round(10 ** rng.uniform(-4, -2), 6)         # a trace of solvent
        elif u < 0.25: c['feed'][0] = 0.0
        c['ms'] = rng.random() < 0.3
    return c


def rr_root(z, K, za, zb):
    """independent Rachford-Rice reference with material forced to the top (za) / bottom (zb): the top fraction phi in (0, 1) at which the listed chemicals
    satisfy y_i = K_i x_i with mole fractions taken over each whole outlet; None when no interior root exists (one outlet holds no listed chemical)."""
    z = np.asarray(z, float); K = np.asarray(K, float)
    def g(phi):
        return float((z * (K - 1) / (1 + phi * (K - 1))).sum()) + (za / phi if za > 0 else 0.0) - (zb / (1 - phi) if zb > 0 else 0.0)
    lo, hi = 1e-12, 1 - 1e-12
    if not (g(lo) > 0 > g(hi)): return None
    for _ in range(200):
        mid = 0.5 * (lo + hi)
        if g(mid) > 0: lo = mid
        else: hi = mid
    return 0.5 * (lo + hi)


CP_MAX = np.array([76., 140., 320., 95., 35., 250.])     # J/mol/K: upper bounds of the liquid (O2: gas) heat capacities of IDS between 250 and 340 K


def xy_lever(th, feed, spec):
    """vapour fraction the lever rule gives for a binary water / ethanol feed and a liquid (x) or vapour (y) composition, with the conjugate composition taken from the
    bubble / dew point of that composition (not from the flash under test): the x / y specification is attainable iff the value lies in [0, 1]."""
    z = feed[0] / (feed[0] + feed[1])
    w = float((spec.get('x') if 'x' in spec else spec['y'])[0])
    s = tmo.Stream(None, Water=w, Ethanol=1 - w, thermo=th)
    if 'x' in spec:
        bp = s.bubble_point_at_P(spec['P']) if 'P' in spec else s.bubble_point_at_T(spec['T'])
        x_, y_ = w, float(bp.y[bp.IDs.index('Water')])
    else:
        dp = s.dew_point_at_P(spec['P']) if 'P' in spec else s.dew_point_at_T(spec['T'])
        x_, y_ = float(dp.x[dp.IDs.index('Water')]), w
    return (z - x_) / (y_ - x_) if y_ != x_ else float('inf')


def volatile_class(flows):
    """input class of a flash feed: how many of the condensable volatile chemicals (water, ethanol, methanol) flow"""
    n = sum(1 for i in ('Water', 'Ethanol', 'Methanol') if flows[IDS.index(i)] > 0)
    return {3: 'ternary', 2: 'binary'}.get(n, 'single')


def dew_bounded(spec):
    """the flash takes its temperature bracket from DewPoint.solve_Tx: pressure given with a vapour fraction or a duty"""
    return 'P' in spec and ('V' in spec or 'Q' in spec)


def dew_solver_failure(e):
    """the recorded mechanism (see known_findings: dew-solver): a FloatingPointError raised from inside DewPoint.solve_Tx - its unbounded secant left the temperature domain
    and the activity model divided by zero / produced an invalid value there. Recognised from the library's own frames (the raise passes through solve_Tx of dew_point.py),
    not from the message."""
    if not isinstance(e, FloatingPointError): return False
    tb = e.__traceback__
    while tb is not None:
        co = tb.tb_frame.f_code
        if co.co_name == 'solve_Tx' and co.co_filename.replace('\\', '/').endswith('equilibrium/dew_point.py'): return True
        tb = tb.tb_next
    return False


def gas_enthalpy_data_gap(e):
    """the raise is (or was raised while handling) the TypeError of free_energy.Gas_Enthalpy_Ref_Solid: the enthalpy of a solid-reference chemical (glucose) was asked for in a
    gas phase, for which the data package has no heat of vaporisation / gas heat capacity (documented data gap). Stream.H / mix_from answer it by trying other phases from the
    stream's current temperature; what that attempt raises hangs on this TypeError through __context__."""
    seen = 0
    while e is not None and seen < 12:
        if isinstance(e, TypeError) and exc_key(e) == 'TypeError@Gas_Enthalpy_Ref_Solid': return True
        e = e.__context__; seen += 1
    return False


class InletNotBuilt(Exception):
    """an inlet of a history could not be prepared (Stream.vle of the flashed inlet raised): there is no input to judge a helper on"""
    def __init__(self, cause, pcls, fcls):
        super().__init__(str(cause)); self.cause = cause; self.pcls = pcls; self.fcls = fcls


def balance(rec, clause, tag, ins, outs, what):
    tot_in = sum(ins) if ins else 0.0; tot_out = sum(outs)
    scale = max(float(np.max(np.abs(tot_in))) if np.size(tot_in) else 0.0, 1e-300)
    res = float(np.max(np.abs(tot_in - tot_out))) / scale
    ok = rec.check(bool(np.all(np.abs(tot_in - tot_out) <= 1e-11 * np.maximum(np.abs(tot_in), np.abs(tot_out)) + 1e-13 * scale)), clause, f'balance/{tag}',
                   f'{what}: outlets {np.asarray(tot_out).tolist()} != inlets {np.asarray(tot_in).tolist()}', residual=res)
    neg = [float(v) for o in outs for v in o if v < 0]
    rec.check(not neg, clause, f'negative/{tag}', f'{what}: negative outlet flows {neg[:4]} without an infeasibility report')
    return ok


def run_case(case, rec):
    rec.begin_case(case)
    th = thermo_of(IDS)
    tmo.settings.set_thermo(th)
    ids = th.chemicals.IDs
    MW = th.chemicals.MW
    t = case['t']
    if t == 'history':
        with warnings.catch_warnings():
            warnings.simplefilter('ignore')
            try:
                run_history(case, rec, th, ids)
            except Exception as e:
                rec.exception('history', e, what=f'history of helper calls on reused outlets raised {type(e).__name__}: {str(e)[:160]}')
        return
    stale = case['stale']
    def outlet(k, phase='l'):
        return mk(th, case['stale_flows'][k] if stale else [0.0] * len(ids), phase)
    tag = 'stale-outlets' if stale else 'fresh-outlets'
    with warnings.catch_warnings():
        warnings.simplefilter('ignore')
        try:
            def inlet(k, f):
                # added inlet kinds: a gas/liquid MultiStream (flows divided between the phases) or a gas stream
                if case.get('ms_in', [False] * (k + 1))[k]:
                    m_ = tmo.MultiStream(None, phases=('g', 'l'), thermo=th)
                    for i, v, fr in zip(ids, f, case['frac']):
                        if i == 'Glucose': fr = 0.0                      # no gas-phase enthalpy model for the solid-reference chemical
                        if v: m_.imol['g', i] = v * fr; m_.imol['l', i] = v - v * fr
                    rec.hit('mix_and_split:multistream-inlet'); return m_
                if case.get('gas_in', [False] * (k + 1))[k]: return mk(th, [0.0 if i == 'Glucose' else v for i, v in zip(ids, f)], 'g')
                return mk(th, f)
            if t == 'mix_and_split':
                ins = [inlet(k, f) for k, f in enumerate(case['ins'])]; top, bot = outlet(0), outlet(1)
                if case.get('top_in'): ins.append(top); rec.hit('mix_and_split:top-among-inlets'); tag += '/top-among-inlets'
                before = [arr(i).copy() for i in ins]
                split = np.array(case['split']) if isinstance(case['split'], list) else case['split']
                sep.mix_and_split(ins, top, bot, split)
                balance(rec, 'mix_and_split', tag, before, [arr(top), arr(bot)], 'mix_and_split')
                exp_top = sum(before) * split
                rec.check(np.allclose(arr(top), exp_top, rtol=1e-12, atol=0), 'mix_and_split', f'top/{tag}', f'top {arr(top).tolist()} != split*sum(ins) {np.asarray(exp_top).tolist()}')
                if (sum(before) > 0).sum() >= 2 and arr(top).any() and arr(bot).any(): rec.mark_nontrivial(case_hash(case))
            elif t in ('moisture', 'mixmoist'):
                mc = case['mc']
                mID = case.get('mID'); W = mID or 'Water'            # the moisture chemical (ID= given for anything but water)
                kwID = {'ID': mID} if mID else {}
                if mID: rec.hit('moisture:ID')
                msk = case.get('ms')
                tot = lambda s_, i: float(np.sum(s_.imass[i]))
                if t == 'moisture':
                    if msk:
                        def mkms(rl, r2):
                            m_ = tmo.MultiStream(None, phases=tuple(msk), thermo=th)
                            for ph_, row in (('l', rl), (msk[1], r2)):
                                for i, v in zip(ids, row):
                                    if v: m_.imol[ph_, i] = v
                            return m_
                        ret = mkms(case['ret'], case['ret2']); perm = mkms(case['perm'], case['perm2'])
                        rec.hit('moisture:multistream')
                        if ret.imol[msk[1], W] or perm.imol[msk[1], W]: rec.hit('moisture:multistream:moisture-in-other-phase')
                    else:
                        ret = mk(th, case['ret']); perm = mk(th, case['perm'])
                    if case['enough']:
                        dry = ret.F_mass - tot(ret, W)
                        need = dry * mc / (1 - mc) - tot(ret, W)
                        have = float(perm.imass['l', W]) if msk else float(perm.imass[W])
                        if have < need:
                            if msk: perm.imass['l', W] = need * 1.5 + 1.0
                            else: perm.imass[W] = need * 1.5 + 1.0
                    before = [arr(ret).copy(), arr(perm).copy()]
                    strict = case.get('strict')
                    run = (lambda: sep.adjust_moisture_content(ret, perm, mc, **kwID)) if strict is None else (lambda: sep.adjust_moisture_content(ret, perm, mc, strict=strict, **kwID))
                    if strict is False: rec.hit('moisture:strict=False')
                else:
                    ins = [inlet(k, f) for k, f in enumerate(case['ins'])]; ret, perm = outlet(0), outlet(1)
                    before = [arr(i).copy() for i in ins]
                    split = np.array(case['split']) if isinstance(case['split'], list) else case['split']
                    run = lambda: sep.mix_and_split_with_moisture_content(ins, ret, perm, split, mc, **kwID)
                mbase = tag if t == 'mixmoist' else 'adjust'
                mtag = mbase + ('/ID' if mID else '') + ('/multistream' if msk else '')
                if t == 'mixmoist' and (any(case.get('ms_in', [])) or any(case.get('gas_in', []))): mtag += '/gas-or-multistream-inlet'
                # the harness' own feasibility model (inputs only): the retentate / permeate the adjustment starts from, the moisture the target asks for
                # (delta), the liquid moisture the retentate would be left with and the liquid moisture the permeate can give
                iW = ids.index(W); MWa = np.asarray(MW, float)
                if t == 'moisture':
                    r_mass = float((before[0] * MWa).sum()); r_all = float(before[0][iW] * MWa[iW])
                    r_liq = float(ret.imass['l', W]) if msk else r_all
                    p_liq = float(perm.imass['l', W]) if msk else float(before[1][iW] * MWa[iW])
                    strict_eff = case.get('strict')
                else:
                    r0 = sum(before) * split; p0 = sum(before) - r0          # the mixed inlets divided by the split
                    r_mass = float((r0 * MWa).sum()); r_all = r_liq = float(r0[iW] * MWa[iW]); p_liq = float(p0[iW] * MWa[iW])
                    strict_eff = None
                    if mtag.endswith('/gas-or-multistream-inlet'):
                        # with vapour among the inlets the outlets may become MultiStreams and only the liquid rows take part in the adjustment: the state the adjustment
                        # starts from is taken from a separate run of mix_and_split (judged by its own clause) on copies; its totals must be the harness' own r0 / p0
                        ret_c, perm_c = outlet(0), outlet(1)
                        sep.mix_and_split([i_.copy() for i_ in ins], ret_c, perm_c, split)
                        rec.hit('moisture:mixmoist:phase-reference')
                        if not rec.check(np.allclose(arr(ret_c), r0, rtol=1e-12, atol=0) and np.allclose(arr(perm_c), p0, rtol=1e-12, atol=1e-12 * float(np.max(r0 + p0, initial=0.0))), 'mix_and_split', f'top/{tag}/moisture-reference',
                                         f'mix_and_split on copies of the inlets: retentate {arr(ret_c).tolist()} / permeate {arr(perm_c).tolist()} != split * sum(ins) {np.asarray(r0).tolist()} / the rest {np.asarray(p0).tolist()}'): return
                        if isinstance(ret_c, tmo.MultiStream): r_liq = float(ret_c.imass['l', W]) if 'l' in ret_c.phases else 0.0
                        if isinstance(perm_c, tmo.MultiStream): p_liq = float(perm_c.imass['l', W]) if 'l' in perm_c.phases else 0.0
                delta = (r_mass - r_all) * mc / (1 - mc) - r_all                # moisture to move from the permeate into the retentate (negative: the other way)
                ftol = 1e-9 * max(r_mass, p_liq, abs(delta), 1e-300)
                warranted_liquid = r_liq + delta < ftol                         # moisture outside the liquid phase (reaches) exceeds the target
                warranted_short = strict_eff is not False and p_liq - delta < ftol     # the permeate cannot give the moisture and infeasibility is to be reported
                try:
                    run()
                except InfeasibleRegion as e_:
                    # a refusal is documented for exactly two input classes; anywhere else the raise is a failure to reach the requested moisture fraction
                    if warranted_short or warranted_liquid:
                        rec.hit('moisture:refusal-warranted')
                        rec.refuse('not enough water (documented InfeasibleRegion)' if warranted_short else 'moisture outside the liquid phase exceeds the target (documented InfeasibleRegion)'); return
                    rec.check(False, 'moisture', f'spurious-infeasible/{mtag}' + ('/strict=False' if strict_eff is False else ''),
                              f'{t}: InfeasibleRegion ({str(e_)[:80]}) although the retentate needs {delta!r} kg/hr of {W} and the permeate liquid holds {p_liq!r} kg/hr (retentate liquid moisture {r_liq!r}, strict={strict_eff})')
                    return
                rec.hit('moisture:judged' + ('/mixmoist' if t == 'mixmoist' else ''))
                balance(rec, 'moisture', mtag, before, [arr(ret), arr(perm)], t)
                if msk:
                    negp = [float(v) for s_ in (ret, perm) for v in s_.imol.data.to_array().ravel() if v < 0]
                    rec.check(not negp, 'moisture', f'negative-phase-flow/{mtag}', f'{t}: negative phase flows {negp[:4]} without an infeasibility report')
                Fm = ret.F_mass
                dry = Fm - tot(ret, W)
                if t == 'moisture' and case.get('strict') is False and not case['enough'] and float(perm.imol['l', W] if msk else perm.imol[W]) == 0:
                    # not enough water and infeasibility not reported: the balance and the signs (judged above) are all that can be asked
                    rec.hit('moisture:strict=False:short'); rec.mark_nontrivial(case_hash(case)); return
                if dry > 0:
                    got = tot(ret, W) / Fm
                    rec.check(abs(got - mc) <= 1e-9, 'moisture', 'target' + mtag[len(mbase):], f'{t}: retentate moisture fraction {got!r} != requested {mc}', residual=abs(got - mc))
                    rec.mark_nontrivial(case_hash(case))
            elif t in ('partition', 'phase_fraction'):
                feed = mk(th, case['feed'])
                IDs = tuple(ids[i] for i in case['ids']); K = np.array(case['K'])
                topc = tuple(ids[i] for i in case['top']) or None; botc = tuple(ids[i] for i in case['bottom']) or None
                if case.get('topstr'): topc = topc[0]; rec.hit('forced:bare-string')          # one forced chemical as a bare string
                if case.get('botstr'): botc = botc[0]; rec.hit('forced:bare-string')
                if len(set(case['K'])) < len(case['K']) or (len(case['K']) == 1 and case['K'][0] == 1.0): rec.hit('partition:equal-K')
                if 1.0 in case['K']: rec.hit('partition:unit-K')
                fb = arr(feed).copy()
                if not fb[case['ids'] + case['top'] + case['bottom']].sum():
                    rec.refuse('no material among the listed chemicals (composition undefined; not judged)'); return
                # independent Rachford-Rice reference (harness arithmetic on the inputs): where an interior root exists both outlets hold listed chemicals and phi must be that root
                L = case['ids'] + case['top'] + case['bottom']
                Ftot = fb[L].sum()
                zr = fb[case['ids']] / Ftot; zar = fb[case['top']].sum() / Ftot; zbr = fb[case['bottom']].sum() / Ftot
                ref = rr_root(zr[zr > 0], K[zr > 0], zar, zbr) if (zr > 0).sum() >= 1 else None
                interior = ref is not None and 1e-6 < ref < 1 - 1e-6
                one_sided = all(k_ >= 1 for k_ in case['K']) or all(k_ <= 1 for k_ in case['K'])
                def infeasible(clause, e_):
                    # InfeasibleRegion is documented for strict=True and a solution with negative flows. With K > 0 and 0 < phi < 1 the bottom flow
                    # z_i (1 - phi) F / (phi K_i + 1 - phi) lies inside (0, feed_i): the raise is warranted only if the harness' own flows leave [0, feed_i]
                    if not case['strict']:
                        rec.check(False, clause, 'spurious-infeasible/strict=False', f'{t} raised InfeasibleRegion ({str(e_)[:60]}) although strict is False (negative flows are to be removed, not reported)'); return
                    if ref is not None:
                        own = zr * (1 - ref) * Ftot / (ref * K + 1 - ref)
                        if bool(np.any(own < -1e-9 * Ftot) or np.any(own > fb[case['ids']] + 1e-9 * Ftot)):
                            rec.hit('partition:refusal-warranted'); rec.refuse('InfeasibleRegion (strict)'); return
                    rec.check(False, clause, 'spurious-infeasible/strict=True' + ('' if ref is not None else '/no-interior-root'),
                              f'{t} (strict) raised InfeasibleRegion ({str(e_)[:60]}) although with K = {case["K"]} > 0 every bottom flow of the Rachford-Rice solution (root {ref!r}) lies inside [0, feed]')
                def rr_check(clause, key, phi_):
                    return rec.check(abs(phi_ - ref) <= 1e-6, clause, key,
                                     f'{t} returned phi = {phi_!r} but the Rachford-Rice equation with K = {case["K"]}, z = {zr.tolist()}, forced top / bottom fractions {zar} / {zbr} has its root at {ref!r} (both outlets non-empty there)', residual=abs(phi_ - ref))
                if t == 'phase_fraction':
                    try:
                        phi = sep.phase_fraction(feed, IDs, K, case['phi'], topc, botc, case['strict'])
                    except InfeasibleRegion as e_:
                        infeasible('phase_fraction', e_); return
                    if interior:
                        rec.hit('phase_fraction:rr-reference')
                        rr_check('phase_fraction', 'rr-reference' + ('/forced' if (topc or botc) else '') + ('/one-sided-K' if one_sided else ''), phi)
                    top, bot = outlet(0), outlet(1)
                    try: phi2 = sep.partition(mk(th, case['feed']), top, bot, IDs, K, case['phi'], topc, botc, case['strict'])
                    except InfeasibleRegion as e_: infeasible('partition', e_); return
                    rec.check(0.0 <= phi <= 1.0 and abs(phi - phi2) <= 1e-9, 'phase_fraction', 'agrees-with-partition', f'phase_fraction {phi} vs partition {phi2}')
                    rec.check(np.array_equal(arr(feed), fb), 'phase_fraction', 'feed-changed', 'phase_fraction changed the feed')
                    rec.mark_nontrivial(case_hash(case)); return
                top, bot = outlet(0), outlet(1)
                try:
                    phi = sep.partition(feed, top, bot, IDs, K, case['phi'], topc, botc, case['strict'])
                except InfeasibleRegion as e_:
                    infeasible('partition', e_); return
                ptag = tag + ('/forced' if (topc or botc) else '')
                if interior:
                    if not case['strict']:
                        rec.hit('partition:rr-reference')
                        if one_sided: rec.hit('partition:rr-reference/one-sided-K')
                    else: rec.hit('partition:rr-reference/strict')
                    rr_check('partition', f'phase-fraction/{ptag}' + ('/one-sided-K' if one_sided else ''), phi)
                balance(rec, 'partition', ptag, [fb], [arr(top), arr(bot)], 'partition')
                rec.check(np.array_equal(arr(feed), fb), 'partition', 'feed-changed', 'partition changed the feed')
                if stale: rec.hit('partition:stale-outlets')
                if topc or botc: rec.hit('partition:forced')
                # forced chemicals entirely in their outlet
                for i in case['top']:
                    rec.check(arr(bot)[i] == 0 and arr(top)[i] == fb[i], 'partition', f'forced-top/{tag}', f'forced top chemical {ids[i]}: top {arr(top)[i]} bottom {arr(bot)[i]} feed {fb[i]}')
                for i in case['bottom']:
                    rec.check(arr(top)[i] == 0 and arr(bot)[i] == fb[i], 'partition', f'forced-bottom/{tag}', f'forced bottom chemical {ids[i]}: top {arr(top)[i]} bottom {arr(bot)[i]} feed {fb[i]}')
                # chemicals in none of the lists leave with the top (bottom = 0)
                for i in range(len(ids)):
                    if i not in case['ids'] and i not in case['top'] and i not in case['bottom']:
                        rec.check(arr(bot)[i] == 0, 'partition', f'unlisted-in-bottom/{tag}', f'chemical {ids[i]} is in no list but the bottom outlet holds {arr(bot)[i]} of it (feed {fb[i]})')
                # partition coefficients reproduced up to one common factor
                yt, xb = arr(top), arr(bot)
                idx = [i for i in case['ids'] if yt[i] > 0 and xb[i] > 0]
                if len(idx) >= 2 and 0 < phi < 1:
                    y = yt[idx] / yt[case['ids']].sum(); x = xb[idx] / xb[case['ids']].sum()
                    Kd = {i: k for i, k in zip(case['ids'], K)}
                    r = np.array([(y[m] / x[m]) / Kd[i] for m, i in enumerate(idx)])
                    # entries clipped by handle_infeasible_flow_rates (bottom = feed or 0) are exempt: they cannot be in both outlets
                    spread = float(r.max() / r.min() - 1)
                    rec.check(spread <= 1e-6, 'partition', f'K-ratio/{ptag}', f'(y/x)/K not one common factor: {r.tolist()} (phi={phi})', residual=spread)
                    # the library's own read-out of the achieved coefficients (mol fractions over the listed chemicals) must show the same common factor
                    Kc = np.asarray(sep.partition_coefficients(IDs, top, bot), float)
                    pos = {i: m for m, i in enumerate(case['ids'])}
                    r2 = np.array([Kc[pos[i]] / Kd[i] for i in idx])
                    spread2 = float(r2.max() / r2.min() - 1) if r2.min() > 0 else float('inf')
                    rec.hit('partition_coefficients')
                    rec.check(len(Kc) == len(IDs) and spread2 <= 1e-6, 'partition', f'partition_coefficients/{ptag}', f'partition_coefficients(IDs, top, bottom)/K not one common factor: {r2.tolist()} (phi={phi})', residual=spread2)
                    rec.mark_nontrivial(case_hash(case))
                elif fb.any() and (fb > 0).sum() >= 2: rec.mark_nontrivial(case_hash(case))
                # with mole fractions taken over each whole outlet (listed + forced chemicals) the common factor is exactly one at the Rachford-Rice root:
                # y_i = K_i x_i for EVERY listed chemical present in both outlets, also when only one chemical is listed. The library resolves phi to 1e-6
                # (bracket width); the bound is that resolution carried through the harness' own model: factor(phi) = b(phi) / a(phi),
                # a = sum z K / (1 + phi (K - 1)) + za / phi, b = sum z / (1 + phi (K - 1)) + zb / (1 - phi), evaluated at ref -+ 1e-6
                if interior and idx:
                    def fac(p_): return (float((zr / (1 + p_ * (K - 1))).sum()) + (zbr / (1 - p_) if zbr > 0 else 0.0)) / (float((zr * K / (1 + p_ * (K - 1))).sum()) + (zar / p_ if zar > 0 else 0.0))
                    sens = max(abs(fac(ref - 1e-6) - 1), abs(fac(ref + 1e-6) - 1))
                    tolK = 1e-9 + 1.5 * sens + 2e-15 * max(fb[i] / yt[i] for i in idx)      # ... plus the round-off of top = feed - bottom where nearly all of a chemical stays in the bottom
                    Ts = yt[L].sum(); Bs = xb[L].sum()
                    Kd = {i: k for i, k in zip(case['ids'], K)}
                    rw = np.array([(yt[i] / Ts) / (xb[i] / Bs) / Kd[i] for i in idx])
                    dev = float(np.abs(rw - 1).max())
                    cond = 'well-conditioned' if tolK <= 1e-4 else 'ill-conditioned'
                    rec.hit(f'partition:K-whole-outlet/{cond}')
                    if len(case['ids']) == 1: rec.hit('partition:K-whole-outlet/one-listed')
                    rec.check(dev <= tolK, 'partition', f'K-whole-outlet/{ptag}/{cond}', f'(y/x)/K over the whole outlets (listed + forced chemicals) is not one: {rw.tolist()} for chemicals {[ids[i] for i in idx]} '
                              f'(phi={phi!r}, Rachford-Rice root {ref!r}, bound {tolK:.3g} = the 1e-6 resolution in phi carried through the model)')
                    rec.notes['K-whole-outlet: worst deviation / bound (this shard)'] = max(rec.notes.get('K-whole-outlet: worst deviation / bound (this shard)', 0.0), dev / tolK)
                    if sens > 0: rec.notes['K-whole-outlet: worst deviation as an error in phi (this shard)'] = max(rec.notes.get('K-whole-outlet: worst deviation as an error in phi (this shard)', 0.0), dev / sens * 1e-6)
                    if cond == 'well-conditioned': rec.notes['K-whole-outlet: worst deviation, well-conditioned (this shard)'] = max(rec.notes.get('K-whole-outlet: worst deviation, well-conditioned (this shard)', 0.0), dev)
            elif t == 'phase_split' and case.get('as_stream'):
                # a single-phase Stream and one outlet
                fs = mk(th, case['rows'][0], case['phases'])
                fb = arr(fs).copy(); o = outlet(0)
                sep.phase_split(fs, [o])
                rec.hit('phase_split:stream')
                rec.check(np.array_equal(arr(o), fb) and o.phase == case['phases'] and np.array_equal(arr(fs), fb), 'phase_split', f'stream/{tag}', f'single-phase feed {fb.tolist()} ({case["phases"]}): outlet phase {o.phase}, flows {arr(o).tolist()}, feed afterwards {arr(fs).tolist()}')
                rec.mark_nontrivial(case_hash(case))
            elif t == 'phase_split':
                ms = tmo.MultiStream(None, phases=tuple(case['phases']), thermo=th)
                for p, row in zip(case['phases'], case['rows']):
                    for i, v in zip(ids, row):
                        if v: ms.imol[p, i] = v
                outs = [outlet(k % 2) for k in range(len(ms.phases))]
                phases0 = tuple(ms.phases)                                              # outlets are allocated in this (alphabetical) order
                given = {p: np.array(row, float) for p, row in zip(case['phases'], case['rows'])}      # what the harness put into each phase: the reference (not the feed read back after the call)
                sep.phase_split(ms, outs)
                if any(not any(r_) for r_ in case['rows']): rec.hit('phase_split:empty-phase' + ('/stale-outlet' if stale else ''))
                for p, o in zip(phases0, outs):
                    rec.check(np.array_equal(arr(o), given[p]) and o.phase == p, 'phase_split', tag, f'outlet for phase {p}: phase {o.phase}, flows {arr(o).tolist()} != what the feed held in that phase {given[p].tolist()}')
                rec.hit('phase_split:feed-unchanged')
                rec.check(tuple(ms.phases) == phases0 and all(np.array_equal(ms.imol[p].to_array(), given[p]) for p in phases0), 'phase_split', 'feed-changed/multistream',
                          f'phase_split changed the feed: phases {tuple(ms.phases)}, rows {[ms.imol[p].to_array().tolist() for p in ms.phases]} (given {[given[p].tolist() for p in phases0]})')
                rec.mark_nontrivial(case_hash(case))
            elif t == 'chemical_splits':
                a = mk(th, case['a']); b = mk(th, case['b'])
                spl = sep.chemical_splits(a, b)
                d = spl.data; d = d.to_array() if hasattr(d, 'to_array') else np.asarray(d)
                tot = arr(a) + arr(b)
                m = tot > 0
                rec.check(np.allclose(d[m] * tot[m], arr(a)[m], rtol=1e-12, atol=0), 'chemical_splits', 'identity', f'splits*(a+b) {(d * tot).tolist()} != a {arr(a).tolist()}')
                spl2 = sep.chemical_splits(a, mixed=mk(th, list(tot)))
                d2 = spl2.data; d2 = d2.to_array() if hasattr(d2, 'to_array') else np.asarray(d2)
                rec.check(np.allclose(d2[m], d[m], rtol=1e-12, atol=0), 'chemical_splits', 'mixed-form', 'chemical_splits(a, mixed=a+b) differs from chemical_splits(a, b)')
                rec.mark_nontrivial(case_hash(case))
            elif t == 'material_balance':
                k = len(case['ids'])
                var = [mk(th, f) for f in case['var']]; cin = [mk(th, f) for f in case['cin']]
                A = np.array([arr(v) for v in var]).T[case['ids'], :]
                if abs(np.linalg.det(A)) < 1e-6 * np.abs(A).max() ** k or np.linalg.cond(A) > 1e6:
                    rec.refuse('singular / ill-conditioned inlet matrix (excluded by the quantifier)'); return
                out = sum(x * arr(v) for x, v in zip(case['x'], var)) + (sum(arr(c) for c in cin) if cin else 0)
                nout = case.get('nout', 1)
                outs = [mk(th, list(out / nout)) for _ in range(nout)]        # the same total leaving through one or two constant outlets
                if case.get('is_exact', True): sep.material_balance(tuple(ids[i] for i in case['ids']), var, cin, outs)
                else:
                    rec.hit('material_balance:lstsq')
                    sep.material_balance(tuple(ids[i] for i in case['ids']), var, cin, outs, is_exact=False)
                tot_in = sum(arr(v) for v in var) + (sum(arr(c) for c in cin) if cin else 0)
                tot_out = sum(arr(o) for o in outs)
                res = np.abs(tot_in - tot_out)[case['ids']]
                scale = max(np.abs(tot_out).max(), 1e-300)
                rec.check(bool(np.all(res <= 1e-9 * scale)), 'material_balance', 'residual', f'inlets minus outlets on the chosen chemicals: {res.tolist()} (scale {scale})', residual=float(res.max() / scale))
                fac = [float(arr(v).sum() / np.array(f).sum()) for v, f in zip(var, case['var'])]
                rec.check(np.allclose(fac, case['x'], rtol=1e-8), 'material_balance', 'scale-factors', f'recovered scale factors {fac} != true {case["x"]}')
                rec.mark_nontrivial(case_hash(case))
            elif t == 'vle':
                feed = mk(th, case['feed'], T=340.)
                vap, liq = outlet(0, 'l'), outlet(1, 'g')
                fb = arr(feed).copy()
                spec = {k_: (np.array(v) if isinstance(v, list) else v) for k_, v in case['spec'].items()}
                msv = None
                if case.get('ms'):
                    msv = tmo.MultiStream(None, phases=('g', 'l'), thermo=th)         # handed over holding content of an earlier run
                    for k_, ph_ in enumerate('gl'):
                        for i, v in zip(ids, case['stale_flows'][k_]):
                            if v: msv.imol[ph_, i] = v
                    spec['multi_stream'] = msv
                sp_ = case['spec']
                vcls = ('x-or-y' if ('x' in sp_ or 'y' in sp_) else 'QP' if 'Q' in sp_ else 'VT' if ('V' in sp_ and 'T' in sp_) else
                        ('VP/edge' if sp_['V'] in (0.0, 1.0) else 'VP') if 'V' in sp_ else ('TP' if 350 <= sp_['T'] <= 370 else 'TP/far'))
                rec.hit(f'vle:cases/{vcls}')
                fcls = volatile_class(case['feed'])
                if dew_bounded(sp_): rec.hit(f'vle:dew-flash/{fcls}')          # input class of the recorded dew-solver finding (single calls and histories together)
                try:
                    sep.vle(feed, vap, liq, **spec)
                except Exception as e:
                    # the balance is stated for calls that return. A raise is a documented refusal for two input classes only, and only when the harness can see from the
                    # inputs that it is warranted: (1) x / y specifications the lever rule cannot reach (InfeasibleRegion), (2) a duty that cools the 340 K feed out of the
                    # model range (RuntimeError of the heat-capacity extrapolation). Everything else - any raise for (V,P), (T,P), (V,T) - is a violation.
                    if isinstance(e, (TypeError, AttributeError, KeyError, IndexError, NameError, UnboundLocalError)): raise
                    if exc_key(e).endswith('@?'): raise
                    if vcls == 'x-or-y' and isinstance(e, InfeasibleRegion):
                        lever = xy_lever(th, case['feed'], sp_)
                        if not (1e-4 < lever < 1 - 1e-4):
                            rec.hit('vle:refusal-warranted/x-or-y'); rec.refuse('vle raised: InfeasibleRegion'); return
                        rec.check(False, 'vle-wrapper', 'spurious-refusal/x-or-y', f'separations.vle raised InfeasibleRegion for {sp_} although the lever rule on the bubble / dew point of that composition gives a vapour fraction of {lever!r} for the feed {case["feed"][:2]}')
                        return
                    if vcls == 'QP' and isinstance(e, RuntimeError) and not isinstance(e, (NotImplementedError, RecursionError)):
                        cap = float((np.array(case['feed']) * CP_MAX).sum())          # kJ/hr/K, an upper bound of the feed's heat capacity: it cools by at least |Q| / cap
                        if sp_['Q'] < -90. * cap:
                            rec.hit('vle:refusal-warranted/QP'); rec.refuse('vle raised: RuntimeError'); return
                        rec.check(False, 'vle-wrapper', 'spurious-refusal/QP', f'separations.vle raised RuntimeError ({str(e)[:80]}) for a duty of {sp_["Q"]} kJ/hr on a feed of heat capacity <= {cap} kJ/hr/K (the outlet temperature stays above 250 K)')
                        return
                    # a raise from inside the dew-temperature solver of a pressure-specified flash carries the input class of the feed (recorded mechanism; still a violation)
                    mech = f'{vcls.split("/")[0]}/{fcls}/dew-solver' if (dew_bounded(sp_) and dew_solver_failure(e)) else vcls
                    rec.check(False, 'vle-wrapper', f'raised/{mech}/{exc_key(e)}', f'separations.vle({sp_}) on a {fcls} water / ethanol / methanol feed {case["feed"]} raised {type(e).__name__}: {str(e)[:120]} (no refusal is documented for this specification)')
                    return
                rec.hit(f'vle:judged/{vcls}')
                balance(rec, 'vle-wrapper', tag, [fb], [arr(vap), arr(liq)], 'separations.vle')
                rec.check(vap.phase == 'g' and liq.phase == 'l' and vap.T == liq.T and vap.P == liq.P, 'vle-wrapper', 'routing', f'vapour outlet phase {vap.phase}, liquid outlet phase {liq.phase}, T {vap.T}/{liq.T}')
                rec.check(np.array_equal(arr(feed), fb), 'vle-wrapper', 'feed-changed', 'separations.vle changed the feed')
                if 'Q' in case['spec']: rec.hit('vle:Q')
                if 'x' in case['spec'] or 'y' in case['spec']: rec.hit('vle:x-or-y')
                if arr(vap).any() != arr(liq).any(): rec.hit('vle:one-outlet-empty')
                if msv is not None:
                    rec.hit('vle:multi_stream')
                    rec.check(np.array_equal(msv.imol['g'].to_array(), arr(vap)) and np.array_equal(msv.imol['l'].to_array(), arr(liq)), 'vle-wrapper', 'multi_stream',
                              f'multi_stream phase rows {msv.imol.data.to_array().tolist()} != outlets {arr(vap).tolist()} / {arr(liq).tolist()}')
                if arr(vap).any() and arr(liq).any():
                    IDk, Kk = sep.vle_partition_coefficients(vap, liq)
                    rec.hit('vle_partition_coefficients')
                    Kk = np.asarray(Kk, float); yv = arr(vap) / arr(vap).sum(); xl = arr(liq) / arr(liq).sum()
                    pos = [ids.index(i) for i in IDk]
                    sub_y = yv[pos] / yv[pos].sum() if yv[pos].sum() else yv[pos]; sub_x = xl[pos] / xl[pos].sum() if xl[pos].sum() else xl[pos]
                    okk = len(Kk) == len(IDk) and all(abs(k_ * max(x_, 1e-24) - y_) <= 1e-9 * max(y_, 1e-300) + 1e-300 for k_, x_, y_ in zip(Kk, sub_x, sub_y))
                    rec.check(okk, 'vle-wrapper', 'partition-coefficients', f'vle_partition_coefficients(vap, liq) = {dict(zip(IDk, Kk.tolist()))} but y/x over these chemicals = {[(y_ / x_ if x_ else None) for x_, y_ in zip(sub_x, sub_y)]}')
                if arr(vap).any() and arr(liq).any(): rec.mark_nontrivial(case_hash(case))
            elif t == 'lle':
                feed = mk(th, case['feed'], T=300.)
                top, bot = outlet(0), outlet(1)
                fb = arr(feed).copy()
                kwl = {}
                if case.get('ms'):
                    msl = tmo.MultiStream(None, phases=('L', 'l'), thermo=th)         # handed over holding content of an earlier run
                    for k_, ph_ in enumerate('Ll'):
                        for i, v in zip(ids, case['stale_flows'][k_]):
                            if v: msl.imol[ph_, i] = v
                    kwl['multi_stream'] = msl
                lcls = 'no-solvent' if not case['feed'][2] else 'no-water' if not case['feed'][0] else 'trace-solvent' if case['feed'][2] < 0.011 else 'two-liquid'
                rec.hit('lle:cases'); rec.hit(f'lle:cases/{lcls}')
                try:
                    sep.lle(feed, top, bot, top_chemical=case['topchem'], efficiency=case['eff'], **kwl)
                except Exception as e:
                    # no refusal is documented for lle at 300 K on water / ethanol / octanol feeds: every raise is a violation (programming errors keep their key)
                    if isinstance(e, (TypeError, AttributeError, KeyError, IndexError, NameError, UnboundLocalError)) or exc_key(e).endswith('@?'): raise
                    rec.check(False, 'lle-wrapper', f'raised/{lcls}/{exc_key(e)}', f'separations.lle (efficiency {case["eff"]}, top_chemical {case["topchem"]}) raised {type(e).__name__}: {str(e)[:120]} (no refusal is documented for this feed)')
                    return
                rec.hit(f'lle:judged/{lcls}')
                balance(rec, 'lle-wrapper', tag + f'/eff{"=1" if case["eff"] == 1 else ("=0" if case["eff"] == 0 else "<1")}', [fb], [arr(top), arr(bot)], 'separations.lle')
                rec.check(np.array_equal(arr(feed), fb), 'lle-wrapper', 'feed-changed', 'separations.lle changed the feed')
                if case['eff'] == 0: rec.check(np.allclose(arr(top), arr(bot), rtol=1e-12), 'lle-wrapper', 'eff=0', 'with efficiency 0 the feed is not divided equally')
                if kwl:
                    rec.hit('lle:multi_stream')
                    tot_ms = msl.imol.data.to_array().sum(0)
                    rec.check(bool(np.all(np.abs(tot_ms - fb) <= 1e-11 * np.maximum(fb, tot_ms) + 1e-13 * fb.max())), 'lle-wrapper', 'multi_stream', f'multi_stream holds {tot_ms.tolist()} in total but the feed is {fb.tolist()}')
                    if case['eff'] == 1:
                        rows = sorted([msl.imol['L'].to_array().tolist(), msl.imol['l'].to_array().tolist()]); outs_ = sorted([arr(top).tolist(), arr(bot).tolist()])
                        rec.check(rows == outs_, 'lle-wrapper', 'multi_stream-rows', f'multi_stream phase rows {rows} are not the two outlets {outs_}')
                if not case['feed'][2] or not case['feed'][0] or not (arr(top).any() and arr(bot).any()): rec.hit('lle:single-liquid')
                if arr(top).any() and arr(bot).any() and case['eff'] == 1:
                    IDk, Kk = sep.lle_partition_coefficients(top, bot)
                    rec.hit('lle_partition_coefficients')
                    Kk = np.asarray(Kk, float); pos = [ids.index(i) for i in IDk]
                    yt_ = arr(top)[pos] / arr(top)[pos].sum(); xb_ = arr(bot)[pos] / arr(bot)[pos].sum()
                    okk = len(Kk) == len(IDk) and all(abs(k_ * max(x_, 1e-24) - y_) <= 1e-9 * max(y_, 1e-300) + 1e-300 for k_, x_, y_ in zip(Kk, xb_, yt_))
                    rec.check(okk, 'lle-wrapper', 'partition-coefficients', f'lle_partition_coefficients(top, bottom) = {dict(zip(IDk, Kk.tolist()))} but top/bottom mol fractions over these chemicals = {[(y_ / x_ if x_ else None) for x_, y_ in zip(xb_, yt_)]}')
                if arr(top).any() and arr(bot).any(): rec.mark_nontrivial(case_hash(case))
        except Exception as e:
            rec.exception(t, e, what=f'{t} ({tag}) raised {type(e).__name__}: {str(e)[:160]}')


# ---------------------------------------------------------------------------
# call histories on reused outlets
#
# The same two outlet objects are handed to a sequence of 2-4 helper calls (as the outlets of a unit are on every run of a flowsheet), starting fresh, as single-phase
# streams holding content (liquid / gas) or as MultiStreams holding content in several phases. Inlets are liquid / gas / solid streams, MultiStreams (one of whose phases
# may hold nothing), streams flashed with Stream.vle (subcooled: empty vapour phase; superheated: empty liquid phase), and the outlets themselves (recycle). Every call is
# judged on its own against what the harness put in: the statement's balance / sign / target clauses do not depend on what the outlets held before the call.

N_HISTORY = {'quick': 600, 'thorough': 6000}
G_ = IDS.index('Glucose')
MW_APPROX = (18.02, 46.07, 130.23, 32.04, 32.0, 180.16)


def gen_rows(rng, kind, pzero=0.35):
    rows = []
    for ph in kind:
        row = gflows(rng, len(IDS), pzero)
        if ph == 'g': row[G_] = 0.0                                  # no gas-phase enthalpy model for the solid-reference chemical
        rows.append(row)
    return rows


def gen_stream_spec(rng, kinds, weights, pempty_phase=0.45):
    k = rng.choices(kinds, weights)[0]
    if k == 'fresh': return {'k': 'fresh'}
    if k == 'flash':
        u = rng.random()
        spec = {'T': 300., 'P': 101325.} if u < 0.45 else {'T': 400., 'P': 101325.} if u < 0.65 else {'V': round(rng.uniform(0.1, 0.9), 3), 'P': 101325.}
        return {'k': 'flash', 'flows': [round(10 ** rng.uniform(0, 2), 3), round(10 ** rng.uniform(0, 2), 3), 0.0, rng.choice([0.0, round(10 ** rng.uniform(-1, 2), 3)]), 0.0, 0.0], 'spec': spec}
    rows = gen_rows(rng, k)
    if len(k) > 1:
        u = rng.random()
        if u < pempty_phase: rows[rng.randrange(len(k))] = [0.0] * len(IDS)          # one phase of the MultiStream holds nothing
        elif u < pempty_phase + 0.05: rows = [[0.0] * len(IDS) for _ in k]
    elif rng.random() < 0.05: rows = [[0.0] * len(IDS)]
    return {'k': k, 'rows': rows}


def gen_history(rng):
    n = len(IDS)
    c = {'t': 'history'}
    c['outs'] = [gen_stream_spec(rng, ['fresh', 'l', 'g', 'gl', 'lL', 'gls', 'Lgl'], [30, 18, 12, 25, 5, 5, 5], 0.3) for _ in range(2)]
    c['pk'] = rng.choice(['gl', 'gl', 'lL', 'ls'])                       # phases of the feed object that lives through the history (phase_split)
    ikinds = ['l', 'g', 's', 'gl', 'lL', 'gls', 'flash']; iw = [38, 10, 5, 27, 6, 7, 7]
    c['calls'] = calls = []
    # what the history is mostly made of: mixing / splitting, phase splits of one living feed object, or any helper in any order
    opw = rng.choice([[70, 20, 4, 3, 3], [70, 20, 4, 3, 3], [20, 5, 65, 5, 5], [35, 14, 16, 22, 13], [35, 14, 16, 22, 13]])
    for _ in range(rng.randrange(2, 5)):
        op = rng.choices(['mix_and_split', 'mixmoist', 'phase_split', 'partition', 'vle'], opw)[0]
        call = {'op': op}
        if op in ('mix_and_split', 'mixmoist'):
            call['ins'] = [gen_stream_spec(rng, ikinds, iw) for _ in range(rng.randrange(1, 4))]
            call['split'] = rng.choice([round(rng.random(), 4), 0.0, 1.0]) if rng.random() < 0.4 else [rng.choice([0.0, 1.0, round(rng.random(), 4)]) for _ in range(n)]
            call['top_in'] = rng.random() < 0.12; call['bot_in'] = rng.random() < 0.12       # an outlet (with what it holds) is also the last inlet (recycle)
            if op == 'mixmoist':
                call['mc'] = round(rng.uniform(0.02, 0.95), 4); call['mID'] = rng.choice([None, None, 'Ethanol', 'Methanol'])
                if rng.random() < 0.7:
                    # a liquid inlet rich in the moisture chemical, at most half of which goes to the retentate: the permeate can usually give what the target asks for
                    # (bound of the dry mass from approximate molar masses; the call is judged by what it does, not by this estimate)
                    w = IDS.index(call['mID'] or 'Water')
                    call['mc'] = round(rng.uniform(0.02, 0.8), 4)
                    dry = sum(v * m_ for sp_ in call['ins'] for row in sp_.get('rows', [sp_.get('flows')]) for v, m_ in zip(row, MW_APPROX))
                    if isinstance(call['split'], list): call['split'][w] = round(rng.uniform(0.0, 0.5), 4)
                    else: call['split'] = round(min(call['split'], rng.uniform(0.0, 0.5)), 4)
                    need = dry * call['mc'] / (1 - call['mc']) / MW_APPROX[w]
                    row = [0.0] * n; row[w] = round((need + 1.0) * rng.uniform(2.5, 6), 4)
                    call['ins'].append({'k': 'l', 'rows': [row]})
        elif op == 'phase_split':
            call['src'] = rng.choice(['fresh', 'persistent', 'persistent'])
            call['k'] = rng.choice(['gl', 'lL', 'ls', 'gs'])
            call['rows'] = gen_rows(rng, 'gl')                           # two rows, no glucose in the first (it may be a gas phase)
            if rng.random() < 0.35: call['rows'][rng.randrange(2)] = [0.0] * n
            call['how'] = rng.choice(['imol', 'empty', 'copy_like', 'proxy', 'rephase'])
        elif op == 'partition':
            call['feed'] = gflows(rng, n, pzero=0.15)
            k = rng.randrange(1, 5)
            call['ids'] = rng.sample(range(n), k)
            rest = [i for i in range(n) if i not in call['ids']]
            call['K'] = [round(10 ** rng.uniform(-3, 3), 5) for _ in call['ids']]
            call['top'] = [i for i in rest if rng.random() < 0.25]
            call['bottom'] = [i for i in rest if i not in call['top'] and rng.random() < 0.25]
        elif op == 'vle':
            call['feed'] = [round(10 ** rng.uniform(0, 2), 3), round(10 ** rng.uniform(0, 2), 3), 0.0, round(10 ** rng.uniform(-1, 2), 3) if rng.random() < 0.5 else 0.0, 0.0, 0.0]
            call['spec'] = rng.choice([{'V': round(rng.uniform(0.1, 0.9), 3), 'P': 101325.}, {'T': round(rng.uniform(350, 370), 2), 'P': 101325.}])
        calls.append(call)
    return c


def run_history(case, rec, th, ids):
    n = len(ids); MWa = np.asarray(th.chemicals.MW, float)
    isms = lambda s_: isinstance(s_, tmo.MultiStream)

    def build(spec):
        """the stream and the per-chemical flows the harness put into it (the reference: not read back from the object)"""
        k = spec['k']
        if k == 'fresh': return mk(th, [0.0] * n), np.zeros(n)
        if k == 'flash':
            s_ = mk(th, spec['flows'], 'l', T=340.)
            fcls = volatile_class(spec['flows'])
            if dew_bounded(spec['spec']): rec.hit(f'history:flash-inlet/dew-flash/{fcls}')
            try:
                s_.vle(**spec['spec'])                                     # a MultiStream now; far from saturation one of its phases holds nothing
            except FloatingPointError as e:
                # preparing the inlet is not a call of a helper under test: the recorded dew-solver mechanism is filed under its own key with the input class,
                # anything else stays an error of the history
                if dew_bounded(spec['spec']) and dew_solver_failure(e): raise InletNotBuilt(e, 'VP', fcls)
                raise
            return s_, np.array(spec['flows'], float)
        if len(k) == 1: return mk(th, spec['rows'][0], k), np.array(spec['rows'][0], float)
        m_ = tmo.MultiStream(None, phases=tuple(k), thermo=th)
        for ph_, row in zip(k, spec['rows']):
            for i, v in zip(ids, row):
                if v: m_.imol[ph_, i] = v
        return m_, np.array(spec['rows'], float).sum(0)

    def phase_rows(s_):
        """{phase: flows} held by the object now"""
        if isms(s_): return {p_: np.asarray(s_.imol[p_].to_array(), float) for p_ in s_.phases}
        return {s_.phase: arr(s_).copy()}

    def negative_rows(s_):
        return [float(v) for r_ in phase_rows(s_).values() for v in r_ if v < 0]

    top, bot = build(case['outs'][0])[0], build(case['outs'][1])[0]
    for o_ in case['outs']:
        if len(o_['k']) > 1: rec.hit('history:outlet-initially-multistream')
    pfeed = None
    nontrivial = False
    for ci, call in enumerate(case['calls']):
        op = call['op']
        v0 = sum(rec.viol_counts.values())
        held = bool(arr(top).any() or arr(bot).any())
        otag = ('reused' if ci else 'initial') + ('/multistream-outlets' if (isms(top) or isms(bot)) else '/stream-outlets') + ('/holding-content' if held else '/empty')
        etag = 'history/' + ('multistream-outlets' if (isms(top) or isms(bot)) else 'stream-outlets')      # exceptions: keyed by helper and outlet kind only
        rec.hit(f'history:{op}')
        if ci and held: rec.hit(f'history:{op}/reused-outlets-holding-content')
        if isms(top) or isms(bot): rec.hit(f'history:{op}/multistream-outlets')
        if op in ('mix_and_split', 'mixmoist'):
            try:
                built = [build(sp_) for sp_ in call['ins']]
            except InletNotBuilt as nb:
                rec.exception(f'history-setup/flashed-inlet/{nb.pcls}/{nb.fcls}/dew-solver', nb.cause,
                              what=f'Stream.vle(V, P) preparing a flashed inlet (a {nb.fcls} water / ethanol / methanol feed at 340 K) of call {ci + 1} of a history raised {type(nb.cause).__name__}: {str(nb.cause)[:120]}')
                return
            ins = [b_[0] for b_ in built]; before = [b_[1] for b_ in built]
            rtag = ''
            # an outlet that an earlier helper left holding glucose in a gas phase is not recycled: there is no gas-phase enthalpy model for the solid-reference
            # chemical (the energy balance of the mixing is outside the model range; the helpers that only route material take such outlets as they are)
            no_model = lambda o_: bool(phase_rows(o_).get('g', np.zeros(n))[G_])
            if call.get('top_in') and no_model(top): rec.hit('history:recycle-skipped/glucose-in-gas')
            elif call.get('top_in'): ins.append(top); before.append(arr(top).copy()); rtag += '/top-among-inlets'; rec.hit('history:top-among-inlets')
            if call.get('bot_in') and no_model(bot): rec.hit('history:recycle-skipped/glucose-in-gas')
            elif call.get('bot_in'): ins.append(bot); before.append(arr(bot).copy()); rtag += '/bottom-among-inlets'; rec.hit('history:bottom-among-inlets')
            fed = {}                                                        # phase -> some inlet holds material in it
            empty_phase_in = False
            for i_ in ins:
                pr = phase_rows(i_)
                for p_, r_ in pr.items(): fed[p_] = fed.get(p_, False) or bool(r_.any())
                if isms(i_) and any(r_.any() for r_ in pr.values()) and not all(r_.any() for r_ in pr.values()): empty_phase_in = True
            itag = 'empty-phase-inlet' if empty_phase_in else 'multistream-inlet' if any(isms(i_) for i_ in ins) else 'stream-inlets'
            rec.hit(f'history:mix/{itag}')
            if any(sp_['k'] == 'flash' for sp_ in call['ins']): rec.hit('history:mix/flashed-inlet')
            # the class a per-phase shortcut would get wrong: an outlet holds material in a phase in which the inlets bring nothing
            if any(r_.any() and not fed.get(p_, False) for o_ in (top, bot) for p_, r_ in phase_rows(o_).items()):
                etag += '/outlet-holds-phase-absent-from-inlets'
                rec.hit('history:mix/outlet-holds-phase-absent-from-inlets')
                if any(fed.values()): rec.hit('history:mix/outlet-holds-phase-absent-from-inlets/feed-non-empty')
            split = np.array(call['split']) if isinstance(call['split'], list) else call['split']
            tag = f'history/{otag}/{itag}{rtag}'
            total = sum(before)
            # input class 'glucose into a gas outlet': the top outlet is a single-phase GAS Stream (left so by an earlier vle / phase_split on these outlets) and the inlets
            # bring glucose. Both helpers mix into the top outlet in ITS phase (top.mix_from(ins)), which asks for the gas enthalpy of glucose: the data package has none
            # (documented data gap, as for glucose in a gas row of an inlet, which the generator never writes). The library tries other phases from the outlet's current
            # temperature and usually returns (judged as any other call); when that attempt raises too, the call is not judged. Recognised from the inputs (outlet kind and
            # phase, glucose among the inlets) AND the library's own TypeError of Gas_Enthalpy_Ref_Solid on the chain of the raise - nothing else is excused
            gap_class = (not isms(top)) and top.phase == 'g' and bool(total[G_] > 0)
            if gap_class: rec.hit('history:mix/glucose-into-gas-outlet')
            def data_gap(e):
                if not (gap_class and gas_enthalpy_data_gap(e)): return False
                rec.hit('history:mix/glucose-into-gas-outlet/raised')
                rec.refuse('history: glucose mixed into a gas-phase outlet stream - no gas enthalpy model in the data package (documented data gap; not judged, the history ends)')
                return True
            if op == 'mix_and_split':
                clause = 'mix_and_split'
                try:
                    sep.mix_and_split(ins, top, bot, split)
                except Exception as e:
                    if exc_key(e).endswith('@?'): raise
                    if data_gap(e): return
                    rec.exception(f'{clause}/{etag}', e, what=f'mix_and_split (call {ci + 1} of a history on the same outlets: {otag}, {itag}) raised {type(e).__name__}: {str(e)[:120]}'); return
            else:
                clause = 'moisture'
                mID = call.get('mID'); W = mID or 'Water'
                try:
                    sep.mix_and_split_with_moisture_content(ins, top, bot, split, call['mc'], **({'ID': mID} if mID else {}))
                except Exception as e:
                    if exc_key(e).endswith('@?'): raise
                    if not isinstance(e, InfeasibleRegion):
                        if data_gap(e): return
                        rec.exception(f'{clause}/{etag}', e, what=f'mix_and_split_with_moisture_content (call {ci + 1} of a history on the same outlets: {otag}, {itag}) raised {type(e).__name__}: {str(e)[:120]}'); return
                    # documented refusal (not enough moisture / moisture outside the liquid phase); whether it is warranted is judged by the single-call cases.
                    # The outlets are left in the state of the refusal: the history ends here
                    rec.hit('history:mixmoist/refused')
                    rec.refuse('history: mix_and_split_with_moisture_content raised InfeasibleRegion (documented; not judged, the history ends)'); return
                rec.hit('history:mixmoist/judged')
            balance(rec, clause, tag, before, [arr(top), arr(bot)], f'{op} (call {ci + 1} of a history on the same outlets)')
            neg = negative_rows(top) + negative_rows(bot)
            rec.check(not neg, clause, f'negative-phase-flow/{tag}', f'{op} (call {ci + 1} of a history on the same outlets): negative phase flows {neg[:4]} without an infeasibility report')
            if op == 'mix_and_split':
                exp_top = total * split
                rec.check(np.allclose(arr(top), exp_top, rtol=1e-12, atol=0), clause, f'top/{tag}',
                          f'mix_and_split (call {ci + 1} of a history on the same outlets): top {arr(top).tolist()} != split * sum(ins) {np.asarray(exp_top).tolist()} (bottom {arr(bot).tolist()})')
            else:
                # a normal return under the default strict setting means the permeate could give the moisture: the requested fraction must have been reached
                iW = ids.index(W)
                r0 = total * split
                dry0 = float((r0 * MWa).sum() - r0[iW] * MWa[iW])
                if dry0 > 1e-6 * max(float((total * MWa).sum()), 1e-300):
                    Fm = top.F_mass
                    got = float(np.sum(top.imass[W])) / Fm if Fm else float('nan')
                    rec.hit('history:mixmoist/target-judged')
                    rec.check(abs(got - call['mc']) <= 1e-9, clause, f'target/{tag}', f'mix_and_split_with_moisture_content (call {ci + 1} of a history on the same outlets): retentate moisture fraction {got!r} != requested {call["mc"]}',
                              residual=abs(got - call['mc']) if got == got else None)
            if (total > 0).sum() >= 2 and arr(top).any() and arr(bot).any(): nontrivial = True
        elif op == 'phase_split':
            src = call['src']
            k = case['pk'] if src == 'persistent' else call['k']
            given = {p_: np.array(r_, float) for p_, r_ in zip(k, call['rows'])}
            if src == 'fresh' or pfeed is None:
                feed = build({'k': k, 'rows': call['rows']})[0]
                how = 'new'
                if src == 'persistent': pfeed = feed
            else:
                # the feed object of an earlier call, holding new flows: written through the indexer, after emptying, copied from another stream, through
                # its (cached) phase proxies, or after its phases were changed and changed back
                feed = pfeed; how = call['how']
                if how == 'rephase':
                    feed.phases = tuple(k) + (('s',) if 's' not in k else ('g',))
                    feed.phases = tuple(k)
                if how in ('imol', 'rephase'):
                    for p_ in k:
                        for i, v in zip(ids, given[p_]): feed.imol[p_, i] = v
                elif how == 'empty':
                    feed.empty()
                    for p_ in k:
                        for i, v in zip(ids, given[p_]):
                            if v: feed.imol[p_, i] = v
                elif how == 'copy_like':
                    feed.copy_like(build({'k': k, 'rows': call['rows']})[0])
                elif how == 'proxy':
                    for p_ in k: feed[p_].mol[:] = given[p_]
            rec.hit(f'history:phase_split/feed-{how}')
            phases0 = tuple(feed.phases)                                       # outlets are allocated in this (alphabetical) order
            if set(phases0) != set(k):
                rec.check(False, 'phase_split', f'history/feed-phases/{how}', f'the feed was given phases {tuple(k)} but reports {phases0}'); return
            if any(not r_.any() for r_ in given.values()): rec.hit('history:phase_split/empty-phase')
            outs = [top, bot]
            tag = f'history/{otag}/feed-{how}'
            try:
                sep.phase_split(feed, outs)
            except Exception as e:
                if exc_key(e).endswith('@?'): raise
                rec.exception(f'phase_split/{etag}', e, what=f'phase_split (call {ci + 1} of a history on the same outlets: {otag}) raised {type(e).__name__}: {str(e)[:120]}'); return
            for p_, o_ in zip(phases0, outs):
                pr = phase_rows(o_)
                if isms(o_):
                    # a MultiStream outlet with one liquid phase files either liquid label ('l' / 'L') under the one it has: the material of the feed's phase must be
                    # all the outlet holds, in its phase(s) of that kind
                    same = [r_ for q_, r_ in pr.items() if q_.lower() == p_.lower()]
                    routed = bool(same) and np.array_equal(sum(same), given[p_]) and not any(r_.any() for q_, r_ in pr.items() if q_.lower() != p_.lower())
                else:
                    routed = np.array_equal(pr[o_.phase], given[p_]) and o_.phase == p_
                rec.check(routed, 'phase_split', tag, f'phase_split (call {ci + 1} of a history on the same outlets): the outlet for phase {p_} holds {{phase: flows}} = { {q_: r_.tolist() for q_, r_ in pr.items()} } '
                          f'but the feed held {given[p_].tolist()} in that phase')
            fr = phase_rows(feed)
            rec.check(tuple(feed.phases) == phases0 and all(np.array_equal(fr[p_], given[p_]) for p_ in phases0), 'phase_split', f'feed-changed/history/feed-{how}',
                      f'phase_split changed the feed: phases {tuple(feed.phases)}, rows { {q_: r_.tolist() for q_, r_ in fr.items()} } (given { {q_: r_.tolist() for q_, r_ in given.items()} })')
            nontrivial = True
        elif op == 'partition':
            if isms(top) or isms(bot):
                # partition writes through .mol / .imol[IDs] of its outlets: single-phase streams (its documented use); not called on MultiStream outlets
                rec.hit('history:partition/skipped-multistream-outlets'); continue
            fb = np.array(call['feed'], float)
            L = call['ids'] + call['top'] + call['bottom']
            if not fb[L].sum():
                rec.hit('history:partition/skipped-no-listed-material'); continue
            feed = mk(th, call['feed'])
            IDs = tuple(ids[i] for i in call['ids']); K = np.array(call['K'])
            topc = tuple(ids[i] for i in call['top']) or None; botc = tuple(ids[i] for i in call['bottom']) or None
            tag = f'history/{otag}' + ('/forced' if (topc or botc) else '')
            try:
                phi = sep.partition(feed, top, bot, IDs, K, None, topc, botc)
            except Exception as e:
                if exc_key(e).endswith('@?'): raise
                rec.exception(f'partition/{etag}', e, what=f'partition (call {ci + 1} of a history on the same outlets: {otag}) raised {type(e).__name__}: {str(e)[:120]}'); return
            if top.phase != 'l' or bot.phase != 'l': rec.hit('history:partition/non-liquid-outlet')
            balance(rec, 'partition', tag, [fb], [arr(top), arr(bot)], f'partition (call {ci + 1} of a history on the same outlets)')
            yt, xb = arr(top), arr(bot)
            for i in call['top']:
                rec.check(xb[i] == 0 and yt[i] == fb[i], 'partition', f'forced-top/history/{otag}', f'forced top chemical {ids[i]}: top {yt[i]} bottom {xb[i]} feed {fb[i]}')
            for i in call['bottom']:
                rec.check(yt[i] == 0 and xb[i] == fb[i], 'partition', f'forced-bottom/history/{otag}', f'forced bottom chemical {ids[i]}: top {yt[i]} bottom {xb[i]} feed {fb[i]}')
            for i in range(n):
                if i not in L: rec.check(xb[i] == 0, 'partition', f'unlisted-in-bottom/history/{otag}', f'chemical {ids[i]} is in no list but the bottom outlet holds {xb[i]} of it (feed {fb[i]})')
            idx = [i for i in call['ids'] if yt[i] > 0 and xb[i] > 0]
            if len(idx) >= 2 and 0 < phi < 1:
                y = yt[idx] / yt[call['ids']].sum(); x = xb[idx] / xb[call['ids']].sum()
                Kd = {i: k_ for i, k_ in zip(call['ids'], K)}
                r = np.array([(y[m] / x[m]) / Kd[i] for m, i in enumerate(idx)])
                spread = float(r.max() / r.min() - 1)
                rec.hit('history:partition/K-ratio')
                rec.check(spread <= 1e-6, 'partition', f'K-ratio/{tag}', f'(y/x)/K not one common factor: {r.tolist()} (phi={phi})', residual=spread)
                nontrivial = True
        elif op == 'vle':
            fb = np.array(call['feed'], float)
            feed = mk(th, call['feed'], T=340.)
            tag = f'history/{otag}'
            fcls = volatile_class(call['feed'])
            if dew_bounded(call['spec']): rec.hit(f'vle:dew-flash/{fcls}'); rec.hit(f'history:vle/dew-flash/{fcls}')
            try:
                sep.vle(feed, top, bot, **call['spec'])
            except Exception as e:
                if exc_key(e).endswith('@?'): raise
                if dew_bounded(call['spec']) and dew_solver_failure(e):
                    # the recorded dew-solver mechanism: same key family as the single calls (input class of the feed; the outlets play no part before the flash returns)
                    rec.check(False, 'vle-wrapper', f'raised/VP/{fcls}/dew-solver/history/{exc_key(e)}',
                              f'separations.vle({call["spec"]}) on a {fcls} water / ethanol / methanol feed {call["feed"]} (call {ci + 1} of a history on the same outlets: {otag}) raised {type(e).__name__}: {str(e)[:120]}')
                    return
                rec.exception(f'vle-wrapper/{etag}', e, what=f'separations.vle({call["spec"]}) (call {ci + 1} of a history on the same outlets: {otag}) raised {type(e).__name__}: {str(e)[:120]}'); return
            balance(rec, 'vle-wrapper', tag, [fb], [arr(top), arr(bot)], f'separations.vle (call {ci + 1} of a history on the same outlets)')
            rec.check(not isms(top) and not isms(bot) and top.phase == 'g' and bot.phase == 'l' and top.T == bot.T and top.P == bot.P, 'vle-wrapper', f'routing/{tag}',
                      f'vapour outlet {type(top).__name__} phase {top.phase}, liquid outlet {type(bot).__name__} phase {bot.phase}, T {top.T}/{bot.T}')
            rec.check(np.array_equal(arr(feed), fb), 'vle-wrapper', 'feed-changed/history', 'separations.vle changed the feed')
            if arr(top).any() and arr(bot).any(): nontrivial = True
        if sum(rec.viol_counts.values()) > v0: return                       # the outlets are in a wrong state: later calls of this history would only repeat it
    if nontrivial: rec.mark_nontrivial(case_hash(case))


def replay(case, rec):
    run_case(case, rec)


def run(rec, rng, tier, shard, nshards):
    n = 3000 if tier == 'quick' else 30000
    for i in range(n):
        case = gen_case(rng)
        try:
            run_case(case, rec)
        except Exception as e:
            rec.exception('harness', e, what=f'harness error: {type(e).__name__}: {e}')
        if i % 301 == 0: rec.sample(case)
    # call histories on reused outlets: generated after (and in addition to) the single-call cases, so those stay exactly what they were for a given seed
    for i in range(N_HISTORY[tier]):
        case = gen_history(rng)
        try:
            run_case(case, rec)
        except Exception as e:
            rec.exception('harness', e, what=f'harness error: {type(e).__name__}: {e}')
        if i % 299 == 7: rec.sample(case)
    # the data gap that is counted and not judged (glucose mixed into a gas-phase outlet stream) is rare because the library's retry in other phases usually returns
    # (thorough seed 0: 3 raises in 15 679 calls of the class, 2e-4): far more of it in one shard is something else hiding behind the classification
    g_ = rec.reach.get('history:mix/glucose-into-gas-outlet', 0); r_ = rec.reach.get('history:mix/glucose-into-gas-outlet/raised', 0)
    if r_ >= 5: rec.check(r_ <= 0.003 * g_, 'mix_and_split', 'history/glucose-into-gas-outlet/data-gap-rate-exceeded',
                          f'{r_} of {g_} mix_and_split / mix_and_split_with_moisture_content calls with glucose mixed into a gas-phase outlet stream raised with the gas-enthalpy TypeError on the chain (recorded: 2e-4 of such calls)')
