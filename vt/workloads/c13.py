"""C13 — copies are independent, links share what they advertise, pickles round-trip.

Monitor (StructureLedger): dense snapshots (class, phases, per-(phase,CAS) flows, T, P, price, CFs) of both objects are
taken after every step of copy / copy_like / link / unlink / proxy / mutate histories on real streams; sharing is decided
behaviourally (mutate one side, observe the other).
"""
import copy as _copy
import contextlib
import io
import pickle
import numpy as np
import thermosteam as tmo
from vt.core import case_hash, close
from vt.common import thermo_of, build_stream, phase_ledger, stream_invariant

PID = 'C13'
RULE = ('(1) copy(): equal state, then 3-10 random mutations of either side leave the other snapshot bit-identical; (2) copy_like over the matrix source {Stream, MultiStream, MultiStream holding one phase} x '
        'target {Stream, MultiStream} x {same, other property package} x {target has / lacks the source phases, empty / stale target}; (3) proxy / flow_proxy / link_with(all flag subsets) / unlink sharing graph decided by '
        'mutating one side; (4) pickle round trips of Stream, MultiStream, Reaction, ParallelReaction, Chemical, Chemicals, Thermo incl. price and characterization factors. '
        'non-trivial = source holds >=2 non-zero flows; distinct = hash of the case. '
        'Second stream of cases (own generator, run after the first): (5) link histories over 3 streams, 4-10 ops from {link_with(flags), proxy, flow_proxy, unlink (either side), copy, mutate with the rich set '
        'incl. copy_like / mix_from a donor and mol[:]=} against a model sharing graph, values checked after every op and all ordered pairs probed behaviourally; (6) copy(thermo=other package), copy.copy, copy of a phase view, '
        'copy of an ID-carrying stream; (7) copy_flow(remove=False) all / IDs / exclude / phase forms onto single and multi targets, copy_thermal_condition, copy_phase; (8) link_with across kinds / phase sets / packages '
        '(a refusal is granted only where link_with documents one - different kinds, or flow=True with other chemical IDs / other phase sets, decided from the inputs - and leaves both untouched; any other refusal is a violation; '
        'otherwise the linked parts are equal and shared); every refusal of copy_flow / copy(thermo=) / copy_phase / copy_like onto a phase view is likewise granted only when the inputs warrant it (listed ID absent from the package doing the look-up, '
        'source phase absent from a multi-phase target, multi-phase target on other chemical IDs, package lacking a held chemical, multi-phase source, source in another phase than the view), and a refused copy_flow must leave source and target as they were; '
        'after an accepted copy_flow every (phase, chemical) of the target that the call did not select holds its value from before (single-phase source onto a multi-phase target with exclude=False: that value or zero), and T, P, phase(s) of the target are unchanged; '
        'reach counters named after a form (copy2:, copy_like2:, pickle2:, basis:) count judged cases, not attempts; (9) pickles of empty / one-phase-multi / S,L labels / units+total_flow / proxy / phase view / linked pair / indexers / '
        'SeriesReaction / ReactionSystem / ReactionItem / edited X / user-defined and modified chemicals / aliases and groups / every cucumber class; (10) copy_like onto itself, between linked streams, onto and from phase views. '
        'Third stream of cases (own generator, run last): (11) flows on EVERY basis: streams whose mass / volumetric views already exist (imass, mass, ivol, vol, get_flow, show(flow=kg/hr), constructor units=, phase views and their '
        'imass / ivol) go through 1-3 rounds of copy_like / set_data(get_data()) / copy_flow / imol.copy_like / imass.copy_like from two sources over the kind x package x phase-set matrix (then copy / pickle of the target), '
        'through copy / copy.copy / pickle / proxy / flow_proxy, and through link_with(flags) / copy_like onto a linked side / unlink of either side; after every step every public reading (imol, imass, ivol, mass, vol, get_flow in kg/hr and '
        'm3/hr, F_mass, F_vol, and the same through every phase view incl. its T, P) must agree with the molar rows (volumes: with a fresh stream in the same state), and 0-4 flows written per step on the mass / volumetric / molar basis through '
        'the indexer, a phase view, set_flow or the data array must land in the stream written to and in its flow-sharing partner only')
MIN_NONTRIVIAL = {'quick': 500, 'thorough': 20000}
ASSUMPTIONS = ['copy_flow(IDs=..., exclude=False) from another package: target chemicals the source package does not list are not judged (the library empties them; nothing selects or deselects them); '
               'MultiStream.copy_flow from a single-phase source with exclude=False empties the unselected cells of the target (undocumented): they are accepted as either kept or zero, never as something brought over',
               'class-changing conversions on one side of a link are excluded from sharing sequences (they replace the shared indexer by design; C12)',
               'copy_like target lists every chemical of the source',
               'in link histories the donors of copy_like / mix_from and all three streams have the same kind and phase set (a phase expansion replaces the shared rows by design; C12)',
               'link_with on a stream that is a proxy of (or has a proxy among) the other streams: the sharing of those third parties is not judged (no documented semantics); the linked pair itself is',
               'flows on every basis: volumetric readings are judged against a fresh stream built in the same state, and not at all when that stream cannot evaluate them (no molar volume model for a chemical in a phase); '
               'the class of a one-phase MultiStream after set_data / pickle is not judged; raw data vectors held from before an operation are not judged, only what the stream hands out afterwards']

PKGS = [('Water', 'Ethanol', 'Methanol', 'Octane', 'CO2'), ('CO2', 'Octane', 'Water', 'Methanol', 'Ethanol'), ('Ethanol', 'Water')]
PH = 'slgSL'


def required(tier):
    return ['copy-independent', 'copy_like', 'copy_like:multi-source', 'copy_like:one-phase-multi', 'copy_like:foreign', 'link', 'unlink', 'proxy', 'flow_proxy', 'pickle',
            'linkseq', 'linkseq:op/link', 'linkseq:op/unlink', 'linkseq:op/proxy', 'linkseq:op/flow_proxy', 'linkseq:op/copy', 'linkseq:op/mut', 'linkseq:unlink-original', 'linkseq:relink',
            'linkseq:mut/copy_like3', 'linkseq:mut/mix3', 'linkseq:mut/molset', 'linkseq:mut/scale', 'linkseq:mut/imass', 'linkseq:shared-mutation', 'linkseq:multi',
            'copy2', 'copy2:thermo', 'copy2:copy.copy', 'copy2:view', 'copy2:ID',
            'copy_flow', 'copy_flow:single-target', 'copy_flow:multi-target', 'copy_flow:multi-source', 'copy_flow:foreign', 'copy_flow:exclude', 'copy_thermal_condition', 'copy_phase',
            'linkkinds:cross-kind', 'linkkinds:phase-sets', 'linkkinds:packages',
            'linkkinds:refused-warranted', 'linkkinds:accepted/no-flow/other-package', 'linkkinds:accepted/no-flow/other-phases',
            'copy_flow:judged/single-target', 'copy_flow:judged/multi-target', 'copy_flow:unselected-judged', 'copy_flow:unselected-judged/emptied-or-kept', 'copy_flow:refused-warranted',
            'copy2:thermo-refused-warranted', 'copy_like2:view-target-refused-warranted', 'copy_phase:refused-warranted', 'linkseq:vol-view-judged', 'basis:vol-judged',
            'pickle2', 'pickle2:empty', 'pickle2:M1', 'pickle2:labels', 'pickle2:units', 'pickle2:proxy', 'pickle2:view', 'pickle2:linked-pair', 'pickle2:indexer', 'pickle2:isplit',
            'pickle2:SeriesReaction', 'pickle2:ReactionSystem', 'pickle2:ReactionItem', 'pickle2:X-edited', 'pickle2:Chemical-blank', 'pickle2:Chemical-user', 'pickle2:Chemical-Hf',
            'pickle2:Chemicals-alias', 'pickle2:Chemicals-group', 'pickle2:Thermo-custom', 'pickle2:IdealThermo', 'pickle2:handles',
            'copy_like2', 'copy_like2:self', 'copy_like2:linked', 'copy_like2:view-target', 'copy_like2:view-source', 'copy_like2:own-view',
            'basis', 'basis:xfer', 'basis:dup', 'basis:link', 'basis:op/copy_like', 'basis:op/set_data', 'basis:op/copy_flow', 'basis:op/imol.copy_like', 'basis:op/imass.copy_like',
            'basis:same-layout-cached-target', 'basis:ctor-units', 'basis:tail', 'basis:dup/copy', 'basis:dup/copy.copy', 'basis:dup/pickle', 'basis:dup/proxy', 'basis:dup/flow_proxy',
            'basis:link/mid-copy_like', 'basis:link/unlink', 'basis:warm/imass', 'basis:warm/ivol', 'basis:warm/show', 'basis:warm/get_flow', 'basis:warm/view-imass', 'basis:warm/view-ivol',
            'basis:write/mass-indexer', 'basis:write/mass-view', 'basis:write/mass-set_flow', 'basis:write/mass-data', 'basis:write/vol-indexer', 'basis:write/vol-view', 'basis:write/mol-indexer']


def snap(s):
    multi = isinstance(s, tmo.MultiStream)
    return {'cls': type(s).__name__, 'phases': tuple(s.phases) if multi else (s.phase,), 'flows': phase_ledger(s), 'T': s.T, 'P': s.P}


def same_snap(a, b, flows_only=False):
    if a['flows'] != b['flows']: return False
    if flows_only: return True
    return a['cls'] == b['cls'] and a['phases'] == b['phases'] and a['T'] == b['T'] and a['P'] == b['P']


def gflow(rng):
    return 0.0 if rng.random() < 0.3 else round(10 ** rng.uniform(-2, 3), 4)


def gen_stream(rng, pkg=0, kind=None, phases=None, empty=False):
    n = len(PKGS[pkg]); kind = kind or rng.choice('SM')
    T = round(rng.uniform(280, 380), 2); P = rng.choice([101325., 2e5, 5e4])
    if kind == 'S':
        return {'kind': 'S', 'pkg': pkg, 'phase': (phases or rng.choice(PH))[0], 'T': T, 'P': P, 'flows': [0.0] * n if empty else [gflow(rng) for _ in range(n)]}
    phs = phases or ''.join(rng.sample(list(PH), rng.randrange(2, 4)))
    return {'kind': 'M', 'pkg': pkg, 'phases': phs, 'T': T, 'P': P,
            'flows': {ph: ([0.0] * n if (empty or rng.random() < 0.25) else [gflow(rng) for _ in range(n)]) for ph in phs}}


def gen_mutations(rng, n):
    out = []
    for _ in range(n):
        m = rng.choice(['T', 'P', 'flow', 'flow', 'scale', 'empty', 'phase', 'mixself', 'imass'])
        side = rng.choice('ab')
        if m == 'T': out.append({'m': 'T', 'side': side, 'v': round(rng.uniform(285, 370), 2)})
        elif m == 'P': out.append({'m': 'P', 'side': side, 'v': rng.choice([5e4, 101325., 3e5])})
        elif m in ('flow', 'imass'): out.append({'m': m, 'side': side, 'i': rng.randrange(5), 'ph': rng.randrange(4), 'v': gflow(rng)})
        elif m == 'scale': out.append({'m': 'scale', 'side': side, 'v': rng.choice([0.5, 2.0, 3.0])})
        elif m == 'phase': out.append({'m': 'phase', 'side': side, 'v': rng.choice('lg')})
        else: out.append({'m': m, 'side': side})
    return out


def mutate(s, mu, donor=None):
    ids = s.chemicals.IDs
    m = mu['m']
    multi = isinstance(s, tmo.MultiStream)
    if m == 'T': s.T = mu['v']
    elif m == 'P': s.P = mu['v']
    elif m == 'flow':
        i = ids[mu['i'] % len(ids)]
        if multi: s.imol[s.phases[mu['ph'] % len(s.phases)], i] = mu['v']
        else: s.imol[i] = mu['v']
    elif m == 'imass':
        i = ids[mu['i'] % len(ids)]
        if multi: s.imass[s.phases[mu['ph'] % len(s.phases)], i] = mu['v']
        else: s.imass[i] = mu['v']
    elif m == 'scale': s.scale(mu['v'])
    elif m == 'empty': s.empty()
    elif m == 'phase':
        if not multi: s.phase = mu['v']     # class-preserving only
    elif m == 'mixself':
        s.mix_from([s, s], energy_balance=False)
    elif m == 'copy_like3': s.copy_like(donor)
    elif m == 'mix3': s.mix_from([s, donor], energy_balance=False)
    elif m == 'molset':
        vals = [float(v) for v in mu['vals']][:len(ids)]
        vals += [0.0] * (len(ids) - len(vals))
        if multi: s.imol[s.phases[mu['ph'] % len(s.phases)]] = np.array(vals)
        else: s.mol[:] = np.array(vals)


def run_copy(case, rec):
    a = build_stream(case['a'], PKGS)
    try:
        b = a.copy()
    except Exception as e:
        rec.exception('copy-independent', e, what=f'copy() raised {type(e).__name__}: {e}'); return
    rec.check(same_snap(snap(a), snap(b)) and b is not a, 'copy-independent', 'equal-state', f'copy differs from the original: {snap(a)} vs {snap(b)}')
    objs = {'a': a, 'b': b}
    for k, mu in enumerate(case['mut']):
        other = 'b' if mu['side'] == 'a' else 'a'
        before = snap(objs[other])
        try:
            mutate(objs[mu['side']], mu)
        except Exception as e:
            rec.exception('copy-independent', e, what=f'mutation {mu} on a copy raised {type(e).__name__}: {str(e)[:150]}'); return
        rec.check(same_snap(snap(objs[other]), before), 'copy-independent', f'visible/{mu["m"]}', f'mutation {mu} of one side of a copy changed the other: {before} -> {snap(objs[other])}')
        # mass view of the untouched side still equals mol*MW (no shared view cache)
        o = objs[other]
        rec.check(np.allclose(np.asarray(o.mass.to_array() if hasattr(o.mass, 'to_array') else o.mass, float), o.mol.to_array() * o.chemicals.MW, rtol=1e-12, atol=0),
                  'copy-independent', f'mass-view/{mu["m"]}', 'mass view of the untouched side no longer equals mol*MW')
    for s in (a, b):
        e = stream_invariant(s); rec.check(e is None, 'invariant', 'copy', f'sparse invariant: {e}')
    if len(snap(a)['flows']) + len(snap(b)['flows']) >= 2: rec.mark_nontrivial(case_hash(case))


def expected_after_copy_like(src_snap, tgt):
    """flows keyed by the label the target ends up using."""
    labels = set(tgt.phases) if isinstance(tgt, tmo.MultiStream) else {tgt.phase}
    out = {}
    for (ph, c), v in src_snap['flows'].items():
        lab = ph if ph in labels else (ph.lower() if ph.isupper() else ph.upper())
        out[(lab, c)] = out.get((lab, c), 0.0) + v
    return out


def run_copy_like(case, rec):
    s = build_stream(case['src'], PKGS); t = build_stream(case['tgt'], PKGS)
    ss = snap(s)
    foreign = s.chemicals is not t.chemicals
    one_phase_multi = isinstance(s, tmo.MultiStream) and len(s.phases) == 1
    tag = ('one-phase-multi' if one_phase_multi else ('multi' if isinstance(s, tmo.MultiStream) else 'single')) + '-source/' + \
          ('multi' if isinstance(t, tmo.MultiStream) else 'single') + '-target/' + ('foreign' if foreign else 'same') + '-package' + \
          ('/stale-target' if snap(t)['flows'] else '')
    try:
        t.copy_like(s)
    except Exception as e:
        rec.exception('copy_like', e, what=f'copy_like({tag}) raised {type(e).__name__}: {str(e)[:150]}'); return
    ts = snap(t)
    exp = expected_after_copy_like(ss, t)
    rec.check(ts['flows'] == exp, 'copy_like', f'flows/{tag}', f'copy_like: target flows {ts["flows"]} expected {exp}')
    rec.check(ts['T'] == ss['T'] and ts['P'] == ss['P'], 'copy_like', f'TP/{tag}', f'copy_like: target T,P = {ts["T"]},{ts["P"]} but source {ss["T"]},{ss["P"]}')
    # phases with content agree (a single-phase source gives its phase to a single-phase target)
    if not isinstance(s, tmo.MultiStream) and not isinstance(t, tmo.MultiStream):
        rec.check(t.phase == s.phase, 'copy_like', f'phase/{tag}', f'copy_like: target phase {t.phase} source phase {s.phase}')
    rec.check(same_snap(snap(s), ss), 'copy_like', f'source-changed/{tag}', 'copy_like changed its source')
    # independence afterwards
    before = snap(s)
    try:
        t.scale(2.0); t.T = t.T + 1.0
    except Exception as e:
        rec.exception('copy_like', e, what=f'mutating the target after copy_like raised {type(e).__name__}: {e}'); return
    rec.check(same_snap(snap(s), before), 'copy_like', f'not-independent/{tag}', 'mutating the target after copy_like changed the source')
    e = stream_invariant(t); rec.check(e is None, 'invariant', 'copy_like', f'sparse invariant: {e}')
    if isinstance(s, tmo.MultiStream): rec.hit('copy_like:multi-source')
    if one_phase_multi: rec.hit('copy_like:one-phase-multi')
    if foreign: rec.hit('copy_like:foreign')
    if len(ss['flows']) >= 2: rec.mark_nontrivial(case_hash(case))


def bycas(flows):
    out = {}
    for (ph, c), v in flows.items(): out[c] = out.get(c, 0.0) + v
    return out


def probe_sharing(a, b, rec, clause, expect, tag):
    """mutate a, observe b (and the reverse); expect = {'flow': bool, 'TP': bool, 'phase': bool}"""
    ids = a.chemicals.IDs
    multi = isinstance(a, tmo.MultiStream)
    for src, dst, d in ((a, b, 'ab'), (b, a, 'ba')):
        # flow
        before = snap(dst)
        v = (123.456 if d == 'ab' else 654.321) + sum(before['flows'].values())      # cannot coincide with a value the other side already holds
        if multi: src.imol[src.phases[0], ids[0]] = v
        else: src.imol[ids[0]] = v
        seen = bycas(snap(dst)['flows']) != bycas(before['flows'])
        rec.check(seen == expect['flow'], clause, f'flow-{"not-" if expect["flow"] else ""}shared/{tag}', f'flow write on one side {"not " if expect["flow"] else ""}visible on the other (expected shared={expect["flow"]})')
        if expect['flow']:
            rec.check(bycas(snap(dst)['flows']) == bycas(snap(src)['flows']) if not multi else snap(dst)['flows'] == snap(src)['flows'], clause, f'flow-differs/{tag}', 'flows differ although flow data is shared')
            # mass view consistent on both sides
            for x in (src, dst):
                mv = x.mass; mv = mv.to_array() if hasattr(mv, 'to_array') else np.asarray(mv)
                rec.check(np.allclose(mv, x.mol.to_array() * x.chemicals.MW, rtol=1e-12, atol=0), clause, f'mass-view/{tag}', 'mass view != mol*MW on a linked stream')
        # TP
        T0 = dst.T; newT = max(src.T, dst.T) + (3.25 if d == 'ab' else 1.75)      # differs from both current values: dst.T == newT iff T is shared
        src.T = newT
        rec.check((dst.T == newT) == expect['TP'], clause, f'T-{"not-" if expect["TP"] else ""}shared/{tag}', f'T write {"not " if expect["TP"] else ""}visible on the other side (expected shared={expect["TP"]})')
        P0 = dst.P; newP = max(src.P, dst.P) + (1000. if d == 'ab' else 500.)
        src.P = newP
        rec.check((dst.P == newP) == expect['TP'], clause, f'P-{"not-" if expect["TP"] else ""}shared/{tag}', f'P write {"not " if expect["TP"] else ""}visible on the other side')
        # phase (single-phase only)
        if not multi:
            newph = 'g' if src.phase != 'g' else 'l'
            dst_before = dst.phase
            src.phase = newph
            rec.check((dst.phase == newph and (dst_before != newph or expect['phase'])) == expect['phase'] or (dst_before == newph and not expect['phase']), clause,
                      f'phase-{"not-" if expect["phase"] else ""}shared/{tag}', f'phase write {"not " if expect["phase"] else ""}visible on the other side')


def run_link(case, rec):
    a = build_stream(case['a'], PKGS); b = build_stream(case['b'], PKGS)
    how = case['how']
    multi = isinstance(a, tmo.MultiStream)
    try:
        if how == 'proxy': b = a.proxy(); expect = {'flow': True, 'TP': True, 'phase': True}; clause = 'proxy'
        elif how == 'flow_proxy': b = a.flow_proxy(); expect = {'flow': True, 'TP': False, 'phase': False}; clause = 'flow_proxy'
        else:
            f = case['flags']
            b.link_with(a, flow=f[0], phase=f[1], TP=f[2])
            expect = {'flow': f[0], 'TP': f[2], 'phase': f[1]}; clause = 'link'
    except Exception as e:
        rec.exception(case['how'], e, what=f'{how} raised {type(e).__name__}: {str(e)[:150]}'); return
    tag = ('multi' if multi else 'single') + '/' + how + ('' if how != 'link' else '/' + ''.join('FPT'[i] if x else '-' for i, x in enumerate(case['flags'])))
    # values right after linking: linked parts equal
    sa, sb = snap(a), snap(b)
    if expect['flow']: rec.check(bycas(sa['flows']) == bycas(sb['flows']) if not multi else sa['flows'] == sb['flows'], clause, f'values/{tag}', 'flows differ right after linking')
    if expect['TP']: rec.check(sa['T'] == sb['T'] and sa['P'] == sb['P'], clause, f'values/{tag}', 'T,P differ right after linking')
    try:
        probe_sharing(a, b, rec, clause, expect, tag)
    except Exception as e:
        rec.exception(clause, e, what=f'probing sharing after {tag} raised {type(e).__name__}: {str(e)[:150]}'); return
    # unlink: values preserved, nothing shared any more. Only the phase views of a multi-phase stream document a refusal ('phase is locked'); neither stream
    # here is one, so every raise (that RuntimeError included) is judged
    before = snap(b)
    try:
        b.unlink()
    except Exception as e:
        rec.exception('unlink', e, what=f'unlink after {tag} raised {type(e).__name__}: {str(e)[:150]}'); return
    rec.check(same_snap(snap(b), before), 'unlink', f'values/{tag}', f'unlink changed the values: {before} -> {snap(b)}')
    try:
        probe_sharing(a, b, rec, 'unlink', {'flow': False, 'TP': False, 'phase': False}, 'after-' + tag)
        # each side's mass view reflects its own flows
        for x in (a, b):
            mv = x.mass; mv = mv.to_array() if hasattr(mv, 'to_array') else np.asarray(mv)
            rec.check(np.allclose(mv, x.mol.to_array() * x.chemicals.MW, rtol=1e-12, atol=0), 'unlink', f'mass-view/after-{how}', f'after unlink the mass view of a stream is not its own mol*MW: {mv.tolist()} vs {(x.mol.to_array() * x.chemicals.MW).tolist()}')
    except Exception as e:
        rec.exception('unlink', e, what=f'probing after unlink ({tag}) raised {type(e).__name__}: {str(e)[:150]}'); return
    if len(sa['flows']) >= 2: rec.mark_nontrivial(case_hash(case))


def run_pickle(case, rec):
    what = case['what']
    th = thermo_of(PKGS[0])
    try:
        if what in ('Stream', 'MultiStream'):
            d = case['s']
            cf = {'GWP': 1.5, 'FEC': 0.25}
            if what == 'Stream':
                s = tmo.Stream(None, phase=d['phase'], T=d['T'], P=d['P'], thermo=th, price=case['price'], characterization_factors=dict(cf),
                               **{i: v for i, v in zip(PKGS[0], d['flows']) if v})
            else:
                s = tmo.MultiStream(None, phases=tuple(d['phases']), T=d['T'], P=d['P'], thermo=th, price=case['price'], characterization_factors=dict(cf),
                                    **{ph: [(i, v) for i, v in zip(PKGS[0], row) if v] for ph, row in d['flows'].items() if any(row)})
            rec.check(s.price == case['price'], 'pickle', f'ctor-price/{what}', f'constructor dropped price: {s.price} != {case["price"]}')
            rec.check(s.characterization_factors == cf, 'pickle', f'ctor-CFs/{what}', f'constructor dropped characterization_factors: {s.characterization_factors} != {cf}')
            r = pickle.loads(pickle.dumps(s))
            rec.check(same_snap(snap(r), snap(s)), 'pickle', f'state/{what}', f'pickled {what} differs: {snap(s)} -> {snap(r)}')
            rec.check(r.price == case['price'], 'pickle', f'price/{what}', f'pickle lost price: {r.price} != {case["price"]}')
            rec.check(r.characterization_factors == cf, 'pickle', f'CFs/{what}', f'pickle lost characterization factors given at construction: {r.characterization_factors} != {cf}')
            rec.check(r.chemicals.IDs == s.chemicals.IDs, 'pickle', f'chemicals/{what}', 'pickle changed the chemicals')
            if len(snap(s)['flows']) >= 2: rec.mark_nontrivial(case_hash(case))
        elif what in ('Reaction', 'ParallelReaction'):
            r1 = tmo.Reaction('Ethanol + Water -> Methanol + CO2', reactant='Ethanol', X=case['X'], chemicals=th.chemicals, basis=case['basis'])
            r2 = tmo.Reaction({'Methanol': -1, 'Octane': 0.5}, reactant='Methanol', X=0.3, chemicals=th.chemicals, basis=case['basis'])
            obj = r1 if what == 'Reaction' else tmo.ParallelReaction([r1, r2])
            r = pickle.loads(pickle.dumps(obj))
            st0 = obj._stoichiometry; st1 = r._stoichiometry
            eq = (all(np.array_equal(x.to_array(), y.to_array()) for x, y in zip(st0, st1)) if isinstance(st0, list) else np.array_equal(st0.to_array(), st1.to_array()))
            rec.check(eq and np.array_equal(np.asarray(obj.X), np.asarray(r.X)) and r._basis == obj._basis and repr(r._reactant_index) == repr(obj._reactant_index) and r.chemicals.IDs == obj.chemicals.IDs,
                      'pickle', f'state/{what}', f'pickled {what} differs')
            rec.mark_nontrivial(case_hash(case))
        elif what == 'Chemical':
            c = tmo.Chemical(case['chem'], cache=False)
            r = pickle.loads(pickle.dumps(c))
            vals0 = (c.ID, c.CAS, c.MW, c.Tb, c.Tm, c.Hf, c.formula, c.phase_ref, c.H('l', 330., 101325.), c.Cn('g', 400.), c.V('l', 300., 101325.), c.Psat(330.))
            vals1 = (r.ID, r.CAS, r.MW, r.Tb, r.Tm, r.Hf, r.formula, r.phase_ref, r.H('l', 330., 101325.), r.Cn('g', 400.), r.V('l', 300., 101325.), r.Psat(330.))
            rec.check(vals0 == vals1, 'pickle', 'state/Chemical', f'pickled Chemical differs: {vals0} vs {vals1}')
            rec.mark_nontrivial(case_hash(case))
        else:
            obj = th.chemicals if what == 'Chemicals' else th
            r = pickle.loads(pickle.dumps(obj))
            ch = r if what == 'Chemicals' else r.chemicals
            rec.check(ch.IDs == th.chemicals.IDs and np.array_equal(ch.MW, th.chemicals.MW) and ch.index('CO2') == th.chemicals.index('CO2'), 'pickle', f'state/{what}', f'pickled {what} differs')
            if what == 'Thermo':
                s = tmo.Stream(None, Water=1, Ethanol=2, T=330, thermo=r); s0 = tmo.Stream(None, Water=1, Ethanol=2, T=330, thermo=th)
                rec.check(s.H == s0.H and s.rho == s0.rho, 'pickle', 'state/Thermo-properties', 'stream on a pickled Thermo has other H/rho')
            rec.mark_nontrivial(case_hash(case))
    except Exception as e:
        rec.exception('pickle', e, what=f'pickle round trip of {what} raised {type(e).__name__}: {str(e)[:150]}')


def gen_case(rng):
    t = rng.choices(['copy', 'copy_like', 'link', 'pickle'], [3, 4, 4, 1])[0]
    if t == 'copy':
        return {'t': 'copy', 'a': gen_stream(rng), 'mut': gen_mutations(rng, rng.randrange(3, 11))}
    if t == 'copy_like':
        sk = rng.choice(['S', 'M', 'M1'])
        spkg = rng.choice([0, 0, 1, 2])
        if sk == 'M1': src = gen_stream(rng, spkg, 'M', phases=rng.choice(PH))
        else: src = gen_stream(rng, spkg, sk)
        tk = rng.choice('SM')
        tpkg = rng.choice([0, 1])   # both list every chemical
        stale = rng.random() < 0.5
        sph = src['phases'] if src['kind'] == 'M' else src['phase']
        if rng.random() < 0.5:
            tph = sph if tk == 'M' and len(sph) >= 2 else (sph[0] if tk == 'S' else sph + rng.choice([p for p in PH if p not in sph]))
        else:
            tph = None
        tgt = gen_stream(rng, tpkg, tk, phases=tph, empty=not stale)
        return {'t': 'copy_like', 'src': src, 'tgt': tgt}
    if t == 'link':
        kind = rng.choice('SM')
        phs = ''.join(rng.sample(list(PH), rng.randrange(2, 4))) if kind == 'M' else None
        a = gen_stream(rng, 0, kind, phases=phs); b = gen_stream(rng, 0, kind, phases=phs)
        how = rng.choice(['proxy', 'flow_proxy', 'link', 'link', 'link'])
        return {'t': 'link', 'a': a, 'b': b, 'how': how, 'flags': [rng.random() < 0.6, rng.random() < 0.6, rng.random() < 0.6]}
    what = rng.choice(['Stream', 'MultiStream', 'Stream', 'MultiStream', 'Reaction', 'ParallelReaction', 'Chemical', 'Chemicals', 'Thermo'])
    c = {'t': 'pickle', 'what': what, 'price': round(rng.uniform(0.01, 5), 3), 'X': round(rng.random(), 3), 'basis': rng.choice(['mol', 'wt']), 'chem': rng.choice(['Water', 'Ethanol', 'Octane'])}
    if what == 'Stream': c['s'] = gen_stream(rng, 0, 'S', phases=rng.choice('lg'))
    if what == 'MultiStream': c['s'] = gen_stream(rng, 0, 'M', phases=rng.choice(['lg', 'lgs', 'Ll']))
    return c


# ======================================================================================================================
# second stream of cases (own generator gen_case2; the first stream above is left byte-identical)

PARTS = ('flow', 'TP', 'phase')


def pub_ledger(s):
    """non-zero flows read through the public indexer API: {(phase, CAS): value}."""
    ch = s.chemicals; out = {}
    if isinstance(s, tmo.MultiStream):
        for ph in s.phases:
            for ID, cas in zip(ch.IDs, ch.CASs):
                v = float(s.imol[ph, ID])
                if v: out[(ph, cas)] = v
    else:
        ph = s.phase
        for ID, cas in zip(ch.IDs, ch.CASs):
            v = float(s.imol[ID])
            if v: out[(ph, cas)] = v
    return out


def mass_view_ok(x):
    mv = x.mass; mv = mv.to_array() if hasattr(mv, 'to_array') else np.asarray(mv)
    return bool(np.allclose(np.asarray(mv, float), x.mol.to_array() * x.chemicals.MW, rtol=1e-12, atol=0))


def part_of(sn, p, multi):
    if p == 'flow': return sn['flows'] if multi else bycas(sn['flows'])
    if p == 'TP': return (sn['T'], sn['P'])
    return sn['phases']


class ShareModel:
    """which of (flow, TP, phase) each pair of the tracked streams shares: container ids per stream and part.
    A part of a stream is 'tainted' (relation to everybody not judged) when another member of its proxy group (streams made by proxy() share
    one indexer object) was re-linked: the library moves the whole group's flow / phase but only the caller's T,P, and documents neither."""

    def __init__(self, n, multi):
        self.multi = multi; self.k = 0
        self.cid = [None] * n; self.taint = [None] * n; self.pg = [None] * n
        for i in range(n): self.fresh(i)

    def new(self):
        self.k += 1; return self.k

    def fresh(self, i):
        self.cid[i] = {p: self.new() for p in PARTS}
        self.taint[i] = {p: False for p in PARTS}
        self.pg[i] = self.new()

    def shared(self, i, j, p):
        if p == 'phase' and self.multi: return None
        if self.taint[i][p] or self.taint[j][p]: return None
        return self.cid[i][p] == self.cid[j][p]

    def links(self, i):
        return any(self.cid[i][p] == self.cid[j][p] for j in range(len(self.cid)) if j != i for p in PARTS if not (p == 'phase' and self.multi))

    def apply(self, op):
        name = op['op']; x = op['x']; y = op.get('y')
        if name in ('copy', 'unlink'): self.fresh(x)
        elif name == 'proxy':
            self.cid[x] = dict(self.cid[y]); self.taint[x] = dict(self.taint[y]); self.pg[x] = self.pg[y]
        elif name == 'flow_proxy':
            self.fresh(x); self.cid[x]['flow'] = self.cid[y]['flow']; self.taint[x]['flow'] = self.taint[y]['flow']
        elif name == 'link':
            f = op['flags']; sel = {'flow': f[0], 'phase': f[1] and not self.multi, 'TP': f[2]}
            group = [q for q in range(len(self.cid)) if q != x and self.pg[q] == self.pg[x]]
            ambiguous = False
            for p in PARTS:
                if not sel[p]: continue
                same = self.cid[x][p] == self.cid[y][p] and not self.taint[x][p] and not self.taint[y][p]
                if not same and p != 'TP':
                    for q in group:
                        self.taint[q][p] = True; ambiguous = True
                self.cid[x][p] = self.cid[y][p]; self.taint[x][p] = self.taint[y][p]
            return ambiguous
        return False


def probe_all(ss, model, rec, where, kind):
    """every stream in turn writes a flow, T, P and (single-phase) the phase; every other stream must see it exactly when the model says the part is shared."""
    multi = model.multi; n = len(ss)
    ids = ss[0].chemicals.IDs
    for w in range(n):
        src = ss[w]
        key = (src.phases[0], ids[0]) if multi else ids[0]
        for p in PARTS:
            if p == 'phase' and multi: continue
            if p == 'flow':
                cur = [float(s.imol[key]) for s in ss]; v = max(cur) + 100.5 + w
                src.imol[key] = v
                got = [float(s.imol[key]) for s in ss]
            elif p == 'TP':
                cur = [(s.T, s.P) for s in ss]; v = (max(c[0] for c in cur) + 1.25 + w, max(c[1] for c in cur) + 500. + w)
                src.T = v[0]; src.P = v[1]
                got = [(s.T, s.P) for s in ss]
            else:
                cur = [s.phase for s in ss]; v = [q for q in 'lgsSL' if q not in cur][0]
                src.phase = v
                got = [s.phase for s in ss]
            for k in range(n):
                if k == w: continue
                rel = model.shared(w, k, p)
                if rel is None: continue
                if rel: rec.check(got[k] == v, 'linkseq', f'probe/{p}-write-not-visible/{where}/{kind}', f'{p} written on one stream is not seen by a stream that shares its {p} ({where}): wrote {v}, other reads {got[k]}')
                else: rec.check(got[k] == cur[k], 'linkseq', f'probe/{p}-write-leaked/{where}/{kind}', f'{p} written on one stream changed a stream that does not share its {p} ({where}): {cur[k]} -> {got[k]}')


def run_linkseq(case, rec):
    multi = case['kind'] == 'M'; kind = 'multi' if multi else 'single'
    ss = [build_stream(d, PKGS) for d in case['streams']]
    donor = build_stream(case['donor'], PKGS)
    model = ShareModel(len(ss), multi)
    n = len(ss)
    linker = [False] * n      # the stream made the link itself (link_with caller, proxy, flow proxy) since it was last independent
    if multi: rec.hit('linkseq:multi')
    if sum(len(snap(s)['flows']) for s in ss) >= 2: rec.mark_nontrivial(case_hash(case))
    for op in case['ops']:
        name = op['op']; x = op['x']; y = op.get('y')
        before = [snap(s) for s in ss]
        rel_before = {(k, p): model.shared(x, k, p) for k in range(n) for p in PARTS}
        linked_before = model.links(x)
        what = name if name != 'mut' else 'mut/' + op['mu']['m']
        try:
            if name == 'link': f = op['flags']; ss[x].link_with(ss[y], flow=f[0], phase=f[1], TP=f[2])
            elif name == 'proxy': ss[x] = ss[y].proxy()
            elif name == 'flow_proxy': ss[x] = ss[y].flow_proxy()
            elif name == 'copy': ss[x] = ss[y].copy()
            elif name == 'unlink': ss[x].unlink()
            else: mutate(ss[x], op['mu'], donor)
        except Exception as e:
            rec.exception('linkseq', e, what=f'{what} in a link history ({kind}) raised {type(e).__name__}: {str(e)[:150]}'); return
        rec.hit('linkseq:op/' + name)
        was_linker = linker[x]
        linker[x] = name in ('link', 'proxy', 'flow_proxy') or (name == 'mut' and linker[x])
        ambiguous = model.apply(op)
        if ambiguous: rec.refuse('link_with on a member of a proxy group: sharing of the other members not judged')
        try:
            after = [snap(s) for s in ss]
        except Exception as e:
            rec.exception('linkseq', e, what=f'reading the streams after {what} ({kind}) raised {type(e).__name__}: {str(e)[:150]}'); return
        if name == 'link':
            if linked_before: rec.hit('linkseq:relink')
            sel = {'flow': f[0], 'phase': f[1] and not multi, 'TP': f[2]}
            for p in PARTS:
                if p == 'phase' and multi: continue
                if sel[p]: rec.check(part_of(after[x], p, multi) == part_of(before[y], p, multi), 'linkseq', f'link/selected-{p}-not-taken/{kind}', f'link_with(selected {p}): the linking stream does not hold the {p} of the other: {part_of(after[x], p, multi)} vs {part_of(before[y], p, multi)}')
                else: rec.check(part_of(after[x], p, multi) == part_of(before[x], p, multi), 'linkseq', f'link/unselected-{p}-changed/{kind}', f'link_with(not selecting {p}) changed the {p} of the linking stream: {part_of(before[x], p, multi)} -> {part_of(after[x], p, multi)}')
            rec.check(same_snap(after[y], before[y]), 'linkseq', f'link/other-changed/{kind}', f'link_with changed the stream linked to: {before[y]} -> {after[y]}')
            for k in range(n):
                if k in (x, y): continue
                for p in PARTS:
                    if (p == 'phase' and multi) or model.taint[k][p]: continue
                    rec.check(part_of(after[k], p, multi) == part_of(before[k], p, multi), 'linkseq', f'link/third-party-{p}-changed/{kind}', f'link_with between two streams changed the {p} of a third: {part_of(before[k], p, multi)} -> {part_of(after[k], p, multi)}')
        elif name == 'unlink':
            if linked_before:
                rec.hit('linkseq:unlink-linked')
                if not was_linker: rec.hit('linkseq:unlink-original')     # other streams were linked to / made from this one
            for k in range(n):
                rec.check(same_snap(after[k], before[k]), 'linkseq', f'unlink/values-{"own" if k == x else "other"}/{kind}', f'unlink changed the values of {"the unlinked stream" if k == x else "another stream"}: {before[k]} -> {after[k]}')
        elif name in ('proxy', 'flow_proxy', 'copy'):
            rec.check(same_snap(after[x], before[y]), 'linkseq', f'{name}/state/{kind}', f'{name}() differs from its original: {before[y]} vs {after[x]}')
            for k in range(n):
                if k != x: rec.check(same_snap(after[k], before[k]), 'linkseq', f'{name}/other-changed/{kind}', f'{name}() changed an existing stream: {before[k]} -> {after[k]}')
            if name == 'proxy' and multi:
                # the flow data of a multi-phase proxy is also readable per phase
                try:
                    ph = ss[y].phases[0]
                    rec.check(bycas(phase_ledger(ss[x][ph])) == bycas(phase_ledger(ss[y][ph])), 'linkseq', 'proxy/phase-view/multi', 'phase view of a proxy shows other flows than the phase view of the original')
                except Exception as e:
                    rec.exception('linkseq', e, what=f'reading a phase of the proxy of a multi-phase stream raised {type(e).__name__}: {str(e)[:150]}')
        else:
            m = op['mu']['m']; rec.hit('linkseq:mut/' + m)
            for k in range(n):
                if k == x: continue
                for p in PARTS:
                    rel = rel_before[(k, p)]
                    if rel is None: continue
                    if rel:
                        rec.hit('linkseq:shared-mutation')
                        rec.check(part_of(after[k], p, multi) == part_of(after[x], p, multi), 'linkseq', f'mut/{m}/shared-{p}-differs/{kind}', f'after {m} on one stream a stream sharing its {p} holds another {p}: {part_of(after[x], p, multi)} vs {part_of(after[k], p, multi)}')
                    else:
                        rec.check(part_of(after[k], p, multi) == part_of(before[k], p, multi), 'linkseq', f'mut/{m}/unshared-{p}-changed/{kind}', f'{m} on one stream changed the {p} of a stream that does not share it: {part_of(before[k], p, multi)} -> {part_of(after[k], p, multi)}')
        for s in ss:
            rec.check(mass_view_ok(s), 'linkseq', f'mass-view/{kind}', f'after {what} in a link history the mass view of a stream is not its own mol*MW: {np.asarray(s.mass.to_array() if hasattr(s.mass, "to_array") else s.mass).tolist()} vs {(s.mol.to_array() * s.chemicals.MW).tolist()}')
            e = stream_invariant(s); rec.check(e is None, 'invariant', 'linkseq', f'sparse invariant: {e}')
        if name != 'mut':
            try:
                probe_all(ss, model, rec, 'after-' + name, kind)
            except Exception as e:
                rec.exception('linkseq', e, what=f'probing after {what} ({kind}) raised {type(e).__name__}: {str(e)[:150]}'); return
    # volumetric view of every stream is its own (an independent copy computes the same)
    for s in ss:
        try:
            ref = s.copy().vol.to_array()
        except Exception:
            continue
        try:
            got = s.vol.to_array()
        except Exception as e:
            rec.exception('linkseq', e, what=f'vol of a stream at the end of a link history raised {type(e).__name__}: {str(e)[:150]}'); return
        rec.hit('linkseq:vol-view-judged')
        rec.check(bool(np.allclose(got, ref, rtol=1e-9, atol=0)), 'linkseq', f'vol-view/{kind}', f'volumetric view of a stream at the end of a link history differs from that of its copy: {got.tolist()} vs {ref.tolist()}')
    rec.hit('linkseq')


# ---------------------------------------------------------------------------------------------------------------------
def indep_after(a, b, rec, clause, tag):
    """mutate b, then a: the other must not move."""
    sa = snap(a)
    b.scale(2.0); b.T = b.T + 1.0; b.P = b.P + 10.
    rec.check(same_snap(snap(a), sa), clause, f'not-independent/{tag}', f'mutating the result changed the source: {sa} -> {snap(a)}')
    sb = snap(b)
    a.scale(3.0); a.T = a.T + 2.0
    ids = a.chemicals.IDs
    if isinstance(a, tmo.MultiStream): a.imol[a.phases[0], ids[0]] = 77.125
    else: a.imol[ids[0]] = 77.125
    rec.check(same_snap(snap(b), sb), clause, f'not-independent-reverse/{tag}', f'mutating the source changed the result: {sb} -> {snap(b)}')


def run_copy2(case, rec):
    form = case['form']
    a = build_stream(case['a'], PKGS)
    multi = isinstance(a, tmo.MultiStream)
    tag = form + '/' + ('multi' if multi else 'single')
    if form == 'thermo':
        th = thermo_of(PKGS[case['pkg']])
        tag += '/' + ('same-package' if th is a.thermo else 'other-package')
        sa = snap(a)
        try:
            b = a.copy(thermo=th)
        except tmo.exceptions.UndefinedChemicalAlias as e:
            # documented refusal only when the requested package really lacks a chemical the stream holds (seen from the inputs, not from the exception)
            held = {c for (ph_, c) in sa['flows']}
            lacking = sorted(held - set(th.chemicals.CASs))
            if not lacking:
                rec.check(False, 'copy2', f'refused-unwarranted/{tag}', f'copy(thermo=) raised UndefinedChemicalAlias ({str(e)[:80]}) although the requested package lists every chemical the stream holds: {sorted(held)}'); return
            rec.refuse('copy(thermo=): the package lacks a chemical the stream holds'); rec.hit('copy2:thermo-refused-warranted')
            rec.check(same_snap(snap(a), sa), 'copy2', f'refused-but-changed/{tag}', f'a refused copy(thermo=) changed the original: {sa} -> {snap(a)}'); return
        except Exception as e:
            rec.exception('copy2', e, what=f'copy(thermo=other) raised {type(e).__name__}: {str(e)[:150]}'); return
        try:
            sb = snap(b); pb = pub_ledger(b)
        except Exception as e:
            rec.exception('copy2', e, what=f'reading copy(thermo=other) raised {type(e).__name__}: {str(e)[:150]}'); return
        rec.check(same_snap(sa, sb) and pb == sa['flows'], 'copy2', f'state/{tag}', f'copy(thermo=) differs from the original: {sa} vs {sb} (read through imol: {pb})')
        rec.check(b.thermo is th and b.chemicals is th.chemicals, 'copy2', f'package/{tag}', 'copy(thermo=) does not carry the requested package')
        rec.check(same_snap(snap(a), sa), 'copy2', f'source-changed/{tag}', 'copy(thermo=) changed the original')
        rec.check(mass_view_ok(b), 'copy2', f'mass-view/{tag}', 'mass view of copy(thermo=) is not mol*MW of the new package')
        indep_after(a, b, rec, 'copy2', tag)
        if len(sa['flows']) >= 2: rec.mark_nontrivial(case_hash(case))
    elif form == 'copy.copy':
        sa = snap(a)
        try:
            b = _copy.copy(a)
        except Exception as e:
            rec.exception('copy2', e, what=f'copy.copy(stream) raised {type(e).__name__}: {str(e)[:150]}'); return
        rec.check(b is not a and same_snap(sa, snap(b)), 'copy2', f'state/{tag}', f'copy.copy differs from the original: {sa} vs {snap(b)}')
        indep_after(a, b, rec, 'copy2', tag)
        if len(sa['flows']) >= 2: rec.mark_nontrivial(case_hash(case))
    elif form == 'view':
        ph = a.phases[case['ph'] % len(a.phases)]
        v = a[ph]
        sv = snap(v); sa = snap(a)
        try:
            b = v.copy()
        except Exception as e:
            rec.exception('copy2', e, what=f'copy() of a phase view raised {type(e).__name__}: {str(e)[:150]}'); return
        rec.check(same_snap(sv, snap(b)) and type(b) is tmo.Stream, 'copy2', f'state/{tag}', f'copy of a phase view differs from the view: {sv} vs {snap(b)}')
        # independent of the view and of the parent
        b.scale(2.0); b.T = b.T + 1.0; b.imol[b.chemicals.IDs[0]] = 55.5
        rec.check(same_snap(snap(a), sa), 'copy2', f'not-independent/{tag}', f'mutating the copy of a phase view changed the multi-phase parent: {sa} -> {snap(a)}')
        sb = snap(b)
        a.imol[ph, a.chemicals.IDs[1]] = 31.25; a.T = a.T + 3.0
        rec.check(same_snap(snap(b), sb), 'copy2', f'not-independent-reverse/{tag}', 'mutating the parent changed the copy of its phase view')
        if len(sv['flows']) >= 2: rec.mark_nontrivial(case_hash(case))
    else:   # ID
        th = thermo_of(PKGS[0]); d = case['a']
        try:
            if multi: s = tmo.MultiStream('c13_src', phases=tuple(d['phases']), T=d['T'], P=d['P'], thermo=th, price=1.5)
            else: s = tmo.Stream('c13_src', phase=d['phase'], T=d['T'], P=d['P'], thermo=th, price=1.5)
            s.copy_like(a)
            sa = snap(s)
            b = s.copy('c13_copy') if case['give_id'] else s.copy()
        except Exception as e:
            rec.exception('copy2', e, what=f'copy of a stream with an ID raised {type(e).__name__}: {str(e)[:150]}'); return
        rec.check(b is not s and same_snap(sa, snap(b)), 'copy2', f'state/{tag}', f'copy of an ID-carrying stream differs: {sa} vs {snap(b)}')
        rec.check(same_snap(snap(s), sa) and s.ID == 'c13_src', 'copy2', f'source-changed/{tag}', 'copy changed the ID-carrying original')
        indep_after(s, b, rec, 'copy2', tag)
        if len(sa['flows']) >= 2: rec.mark_nontrivial(case_hash(case))
    rec.hit('copy2:' + form)      # counted once the form has been judged (not on entry: a form that always raises must leave its required counter at zero)
    rec.hit('copy2')


# ---------------------------------------------------------------------------------------------------------------------
def totals(s):
    return bycas(phase_ledger(s))


def phase_row(ph, phases):
    """the label among `phases` that phase `ph` is filed under (the library's phase index falls back to the other case of the letter), or None."""
    if ph in phases: return ph
    alt = ph.lower() if ph.isupper() else ph.upper()
    return alt if alt in phases else None


def run_copyflow(case, rec):
    what = case['what']
    src = build_stream(case['src'], PKGS); dst = build_stream(case['dst'], PKGS)
    sm = isinstance(src, tmo.MultiStream); dm = isinstance(dst, tmo.MultiStream)
    foreign = src.chemicals is not dst.chemicals
    tag = ('multi' if sm else 'single') + '-source/' + ('multi' if dm else 'single') + '-target/' + ('foreign' if foreign else 'same') + '-package'
    if sm and dm and tuple(src.phases) != tuple(dst.phases): tag += '/different-phases'
    ss = snap(src)
    if what == 'copy_thermal_condition':
        rec.hit('copy_thermal_condition:' + tag)
        try:
            dst.copy_thermal_condition(src)
        except Exception as e:
            rec.exception('copy_thermal_condition', e, what=f'copy_thermal_condition({tag}) raised {type(e).__name__}: {str(e)[:150]}'); return
        rec.check(dst.T == src.T and dst.P == src.P, 'copy_thermal_condition', f'TP/{tag}', f'after copy_thermal_condition target T,P = {dst.T},{dst.P}, source {src.T},{src.P}')
        rec.check(same_snap(snap(src), ss), 'copy_thermal_condition', f'source-changed/{tag}', 'copy_thermal_condition changed its source')
        dst.T = dst.T + 1.5; dst.P = dst.P + 25.
        rec.check(same_snap(snap(src), ss), 'copy_thermal_condition', f'not-independent/{tag}', 'T,P written on the target after copy_thermal_condition changed the source')
        st = (dst.T, dst.P); src.T = src.T + 4.0; src.P = src.P + 7.
        rec.check((dst.T, dst.P) == st, 'copy_thermal_condition', f'not-independent-reverse/{tag}', 'T,P written on the source after copy_thermal_condition changed the target')
        if len(ss['flows']) >= 2: rec.mark_nontrivial(case_hash(case))
        return
    if what == 'copy_phase':
        rec.hit('copy_phase:' + ('multi' if sm else 'single') + '-source')
        try:
            dst.copy_phase(src)
        except ValueError as e:
            if 'multiple phases' in str(e):
                if not sm:      # documented for a multi-phase source only
                    rec.check(False, 'copy_phase', f'refused-unwarranted/{tag}', f'copy_phase from a single-phase stream raised ValueError: {str(e)[:100]}'); return
                rec.refuse('copy_phase from a multi-phase stream refused'); rec.hit('copy_phase:refused-warranted')
                rec.check(same_snap(snap(src), ss) and dst.phase == case['dst']['phase'], 'copy_phase', f'refused-but-changed/{tag}', 'a refused copy_phase changed a stream'); return
            rec.exception('copy_phase', e, what=f'copy_phase({tag}) raised ValueError: {str(e)[:150]}'); return
        except Exception as e:
            rec.exception('copy_phase', e, what=f'copy_phase({tag}) raised {type(e).__name__}: {str(e)[:150]}'); return
        rec.check(dst.phase == src.phase, 'copy_phase', f'phase/{tag}', f'after copy_phase the target is in phase {dst.phase}, the source in {src.phase}')
        rec.check(same_snap(snap(src), ss), 'copy_phase', f'source-changed/{tag}', 'copy_phase changed its source')
        dst.phase = 'g' if dst.phase != 'g' else 'l'
        rec.check(same_snap(snap(src), ss), 'copy_phase', f'not-independent/{tag}', 'changing the phase of the target after copy_phase changed the source')
        return
    # copy_flow(remove=False)
    form = case['form']; IDs = form.get('IDs'); exclude = form.get('exclude', False); phase = form.get('phase')
    ftag = ('exclude-' if exclude else '') + ('all' if IDs is None else ('str' if isinstance(IDs, str) else 'seq')) + ('/phase' if phase else '')
    kw = {}
    if exclude: kw['exclude'] = True
    ids_arg = IDs if (IDs is None or isinstance(IDs, str)) else tuple(IDs)
    rec.hit('copy_flow:' + ('multi' if dm else 'single') + '-target')
    if sm: rec.hit('copy_flow:multi-source')
    if foreign: rec.hit('copy_flow:foreign')
    if exclude: rec.hit('copy_flow:exclude')
    src_ids = src.chemicals.IDs; src_cas = src.chemicals.CASs
    listed = set() if IDs is None else ({IDs} if isinstance(IDs, str) else set(IDs))
    before = snap(dst)
    dphs = tuple(dst.phases) if dm else (dst.phase,)
    dst_cas = dst.chemicals.CASs
    src_row = None if sm else phase_row(src.phase, dphs)      # the row of the target a single-phase source goes to (label fall-back of the phase index: 'L' -> 'l')
    # the refusals copy_flow documents, decided from the INPUTS (not from the exception that came back):
    #  multi-phase target on a package with other chemical IDs (ValueError 'same chemicals'); a listed ID that the package doing the look-up does not have
    #  (UndefinedChemicalAlias: the target's package for a multi-phase target, the source's for a single-phase one unless exclude=True, which skips unknown IDs;
    #  or, across packages, a selected chemical the source holds and the target's package lacks); single-phase source in a phase the multi-phase target lacks (UndefinedPhase)
    w_chem = dm and src.chemicals.IDs != dst.chemicals.IDs
    if dm: w_alias = any(i not in dst.chemicals for i in listed)
    else:
        st_ = bycas(ss['flows'])
        chosen_cas = [c for i, c in zip(src_ids, src_cas) if (IDs is None or ((i in listed) != exclude))]
        w_alias = (not exclude and any(i not in src.chemicals for i in listed)) or (foreign and not (IDs is None and exclude) and any(st_.get(c) and c not in dst_cas for c in chosen_cas))
    w_phase = dm and not sm and src_row is None
    try:
        if dm:
            if phase is not None: kw['phase'] = phase
            if ids_arg is not None: kw['IDs'] = ids_arg
            dst.copy_flow(src, **kw)
        else:
            if ids_arg is not None: dst.copy_flow(src, ids_arg, **kw)
            else: dst.copy_flow(src, **kw)
    except (tmo.exceptions.UndefinedPhase, tmo.exceptions.UndefinedChemicalAlias, ValueError) as e:
        msg = str(e)
        if isinstance(e, tmo.exceptions.UndefinedPhase): kind_, ok_, why = 'UndefinedPhase', w_phase, 'copy_flow: the target lacks the phase of the source (UndefinedPhase)'
        elif isinstance(e, tmo.exceptions.UndefinedChemicalAlias): kind_, ok_, why = 'UndefinedChemical', w_alias, 'copy_flow: a listed chemical is not in a package (UndefinedChemical)'
        elif 'same chemicals' in msg: kind_, ok_, why = 'same-chemicals', w_chem, 'copy_flow onto a multi-phase stream with other chemicals refused'
        elif 'same phases' in msg: kind_, ok_, why = 'same-phases', tag.endswith('/different-phases'), 'copy_flow between multi-phase streams with different phase sets refused (ValueError: same phases)'
        elif 'shape mismatch' in msg: kind_, ok_, why = 'shape-mismatch', tag.endswith('/different-phases'), 'copy_flow between multi-phase streams with different phase sets: shape mismatch'
        else:
            rec.exception('copy_flow', e, what=f'copy_flow({ftag}; {tag}) raised ValueError: {msg[:150]}'); return
        if not ok_:
            # the exception type of a documented refusal, on inputs for which nothing is to be refused: judged, not counted
            rec.check(False, 'copy_flow', f'refused-unwarranted/{kind_}/{ftag}/{tag}', f'copy_flow({ftag}; {tag}) raised {type(e).__name__}: {msg[:120]} although the inputs give no ground for it '
                      f'(listed {sorted(listed)}, source package {list(src_ids)}, target package {list(dst.chemicals.IDs)}, source phases {ss["phases"]}, target phases {dphs})'); return
        rec.refuse(why); rec.hit('copy_flow:refused-warranted')
        # a refusal is not a copy: the source is as before. (The target of MultiStream.copy_flow may already have been emptied when UndefinedPhase comes back - recorded separately.)
        try:
            rec.check(same_snap(snap(src), ss), 'copy_flow', f'refused-but-source-changed/{kind_}/{tag}', f'a refused copy_flow changed its source: {ss} -> {snap(src)}')
            rec.check(same_snap(snap(dst), before), 'copy_flow', f'refused-but-target-changed/{kind_}/{tag}', f'a refused copy_flow ({type(e).__name__}: {msg[:60]}) changed its target: {before} -> {snap(dst)}')
        except Exception as e2:
            rec.exception('copy_flow', e2, what=f'reading the streams after a refused copy_flow ({tag}) raised {type(e2).__name__}: {str(e2)[:150]}')
        return
    except IndexError as e:
        if tag.endswith('/different-phases'):     # same row pairing as the wrong-flows form of this key
            rec.check(False, 'copy_flow', f'flows/{tag}', f'copy_flow({ftag}) between multi-phase streams with different phase sets raised IndexError: {str(e)[:120]}'); return
        rec.exception('copy_flow', e, what=f'copy_flow({ftag}; {tag}) raised IndexError: {str(e)[:150]}'); return
    except Exception as e:
        rec.exception('copy_flow', e, what=f'copy_flow({ftag}; {tag}) raised {type(e).__name__}: {str(e)[:150]}'); return
    # accepted although the inputs call for a refusal: the flows / unselected checks below judge what came out (nothing can be right when a listed chemical or the source's phase has no place in the target)
    if w_chem or w_alias or w_phase: rec.hit('copy_flow:accepted-where-refusal-documented')
    rec.check(same_snap(snap(src), ss), 'copy_flow', f'source-changed/{ftag}/{tag}', f'copy_flow(remove=False) changed its source: {ss} -> {snap(src)}')
    if IDs is None and exclude:
        pass        # nothing selected
    elif not dm:
        # per chemical totals of the selected chemicals agree
        sel = [c for i, c in zip(src_ids, src_cas) if (i in listed) != exclude] if IDs is not None else list(src_cas)
        st = bycas(ss['flows']); dt = totals(dst)
        bad = [(c, st.get(c, 0.0), dt.get(c, 0.0)) for c in sel if abs(st.get(c, 0.0) - dt.get(c, 0.0)) > 1e-12 * max(abs(st.get(c, 0.0)), abs(dt.get(c, 0.0)))]
        rec.check(not bad, 'copy_flow', f'flows/{ftag}/{tag}', f'after copy_flow the selected flows differ (CAS, source, target): {bad}')
    else:
        dl = phase_ledger(dst); sl = ss['flows']
        dphs = tuple(dst.phases)
        sphs = tuple(src.phases) if sm else (src.phase,)
        if not sm and phase is not None and phase != src_row and not exclude: sphs = ()      # the phase filter selects nothing of the source
        psel = set(dphs) if phase is None else {phase}
        bad = []
        for ph in sphs:
            tph = ph if sm else src_row       # a single-phase source in phase 'L' is filed under 'l' by a target that has no 'L' (and the reverse)
            if tph is None or tph not in dphs: continue
            if tph != ph: rec.hit('copy_flow:case-variant-row')
            for i, c in zip(src_ids, src_cas):
                if sm: chosen = ((ph in psel) and (IDs is None or i in listed)) != exclude
                elif exclude: chosen = not ((tph in psel) and i in listed)
                else: chosen = IDs is None or i in listed
                if chosen and sl.get((ph, c), 0.0) != dl.get((tph, c), 0.0): bad.append((ph, c, sl.get((ph, c), 0.0), dl.get((tph, c), 0.0)))
        # between different phase sets every call form goes through the same row pairing: one key
        rec.check(not bad, 'copy_flow', f'flows/{tag}' if tag.endswith('/different-phases') else f'flows/{ftag}/{tag}', f'after copy_flow({ftag}) the selected flows differ (phase, CAS, source, target): {bad}')
    # what the call did NOT select stays what the target held before (a copy that ignores IDs / exclude / phase and brings everything over fails here)
    try:
        da = phase_ledger(dst); b4 = before['flows']
        src_cas_set = set(src_cas)
        lcas = {c for i, c in zip(src_ids, src_cas) if i in listed} | {c for i, c in zip(dst.chemicals.IDs, dst_cas) if i in listed}
        keep = set(); keep_or_zero = set()
        if not dm:
            ph_ = dst.phase
            if IDs is None: U = set(dst_cas) if exclude else set()
            elif exclude: U = (lcas & set(dst_cas)) | (set(dst_cas) - src_cas_set)
            else: U = set(dst_cas) - lcas
            keep = {(ph_, c) for c in U}
            rec.check(dst.phase == before['phases'][0], 'copy_flow', f'phase-changed/{ftag}/{tag}', f'copy_flow changed the phase of its single-phase target: {before["phases"][0]} -> {dst.phase}')
        else:
            psel = set(dphs) if phase is None else {phase}
            L_ = set(dst_cas) if IDs is None else lcas
            cells = {(ph_, c) for ph_ in dphs for c in dst_cas}
            named = {(ph_, c) for ph_ in psel for c in L_}
            if exclude:
                keep = set(named)
                if not sm: keep |= {q for q in cells if q[0] != src_row}      # a single-phase source only reaches the row of its phase
            elif sm: keep = cells - named
            else:
                # single-phase source onto a multi-phase target, exclude=False: the library empties the target first (undocumented either way):
                # an unselected cell holds what it held, or nothing - never something brought over
                keep_or_zero = cells - ({q for q in named if q[0] == src_row})
            rec.check(tuple(dst.phases) == before['phases'], 'copy_flow', f'phases-changed/{ftag}/{tag}', f'copy_flow changed the phases of its target: {before["phases"]} -> {tuple(dst.phases)}')
        bad = [(q, b4.get(q, 0.0), da.get(q, 0.0)) for q in sorted(keep) if da.get(q, 0.0) != b4.get(q, 0.0)]
        bad += [(q, b4.get(q, 0.0), da.get(q, 0.0)) for q in sorted(keep_or_zero) if da.get(q, 0.0) not in (b4.get(q, 0.0), 0.0)]
        stray = [(q, v) for q, v in sorted(da.items()) if dm and q not in cells]
        rec.check(not bad and not stray, 'copy_flow', f'unselected-changed/{ftag}/{tag}', f'copy_flow({ftag}; {tag}) changed entries of the target it did not select (listed {sorted(listed)}, exclude={exclude}, phase={phase}; '
                  f'(phase, CAS), before, after): {bad[:6]}' + (f'; entries outside the phases x chemicals of the target: {stray[:4]}' if stray else ''))
        if any(b4.get(q) for q in keep): rec.hit('copy_flow:unselected-judged')
        if any(b4.get(q) for q in keep_or_zero): rec.hit('copy_flow:unselected-judged/emptied-or-kept')
        rec.check(dst.T == before['T'] and dst.P == before['P'], 'copy_flow', f'TP-changed/{ftag}/{tag}', f'copy_flow changed T, P of its target: {before["T"]}, {before["P"]} -> {dst.T}, {dst.P}')
    except Exception as e:
        rec.exception('copy_flow', e, what=f'reading the target after copy_flow({ftag}; {tag}) raised {type(e).__name__}: {str(e)[:150]}'); return
    e = stream_invariant(dst); rec.check(e is None, 'invariant', 'copy_flow', f'sparse invariant: {e}')
    try:
        indep_after(src, dst, rec, 'copy_flow', ftag + '/' + tag)
    except Exception as e:
        rec.exception('copy_flow', e, what=f'mutating after copy_flow({ftag}; {tag}) raised {type(e).__name__}: {str(e)[:150]}'); return
    rec.hit('copy_flow')
    rec.hit('copy_flow:judged/' + ('multi' if dm else 'single') + '-target')      # (the ':single-target' / ':multi-target' counters above count attempts)
    if len(ss['flows']) >= 2: rec.mark_nontrivial(case_hash(case))


# ---------------------------------------------------------------------------------------------------------------------
def run_linkkinds(case, rec):
    a = build_stream(case['a'], PKGS); b = build_stream(case['b'], PKGS)
    am = isinstance(a, tmo.MultiStream); bm = isinstance(b, tmo.MultiStream)
    f = case['flags']
    cross = am != bm
    foreign = a.chemicals is not b.chemicals
    diffph = am and bm and tuple(a.phases) != tuple(b.phases)
    tag = ('M' if bm else 'S') + '-with-' + ('M' if am else 'S') + ('/other-package' if foreign else '/same-package') + ('/different-phases' if diffph else '') + ('/flow-linked' if f[0] else '/flow-not-linked')
    if cross: rec.hit('linkkinds:cross-kind')
    elif diffph: rec.hit('linkkinds:phase-sets')
    if foreign and not cross: rec.hit('linkkinds:packages')
    sa, sb = snap(a), snap(b)
    # link_with documents a refusal for streams of different kinds, and - only when the flows are to be linked - for other chemical IDs or other phase sets:
    # decided here from the inputs, so that a refusal for any other configuration (flow=False between packages or phase sets) is judged, not counted
    other_ids = a.chemicals.IDs != b.chemicals.IDs
    warranted = cross or (bool(f[0]) and (other_ids or diffph))
    ltag = tag + '/' + ''.join('FPT'[i] if x else '-' for i, x in enumerate(f))
    try:
        b.link_with(a, flow=f[0], phase=f[1], TP=f[2])
    except RuntimeError as e:
        if 'cannot link' not in str(e):
            rec.exception('link', e, what=f'link_with({tag}) raised RuntimeError: {str(e)[:150]}'); return
        if not warranted:
            rec.check(False, 'link', f'refused-unwarranted/{ltag}', f'link_with(flow={f[0]}, phase={f[1]}, TP={f[2]}) between streams of the same kind was refused ({str(e)[:120]}) although '
                      + ('the flows are not to be linked' if not f[0] else 'both have the same chemical IDs and the same phases') + f': chemicals {a.chemicals.IDs} / {b.chemicals.IDs}, phases {sa["phases"]} / {sb["phases"]}')
        else:
            rec.refuse('link_with refused: ' + ('streams of different kinds' if cross else ('flows to be linked between other chemicals' if other_ids else 'flows to be linked between other phase sets')))
            rec.hit('linkkinds:refused-warranted')
        # a refusal leaves both untouched and nothing shared
        try:
            rec.check(same_snap(snap(a), sa) and same_snap(snap(b), sb), 'link', f'refused-but-changed/{tag}', f'a refused link_with changed a stream: {sa}, {sb} -> {snap(a)}, {snap(b)}')
            ida = a.chemicals.IDs
            if am: a.imol[a.phases[0], ida[0]] = 4321.5
            else: a.imol[ida[0]] = 4321.5
            a.T = a.T + 2.5; a.P = a.P + 50.
            rec.check(same_snap(snap(b), sb), 'link', f'refused-but-shared/{tag}', f'after a refused link_with a write on one stream changed the other: {sb} -> {snap(b)}')
            sa2 = snap(a)
            idb = b.chemicals.IDs
            if bm: b.imol[b.phases[0], idb[0]] = 1234.5
            else: b.imol[idb[0]] = 1234.5
            b.T = b.T + 1.5
            rec.check(same_snap(snap(a), sa2), 'link', f'refused-but-shared/{tag}', 'after a refused link_with a write on the refused stream changed the other')
        except Exception as e2:
            rec.exception('link', e2, what=f'reading the streams after a refused link_with ({tag}) raised {type(e2).__name__}: {str(e2)[:150]}')
        return
    except Exception as e:
        rec.exception('link', e, what=f'link_with({tag}) raised {type(e).__name__}: {str(e)[:150]}'); return
    if warranted: rec.hit('linkkinds:accepted-where-refusal-documented')
    elif foreign and not cross: rec.hit('linkkinds:accepted/no-flow/other-package')
    elif diffph: rec.hit('linkkinds:accepted/no-flow/other-phases')
    if f[0] and (foreign or diffph):
        # one container cannot serve two chemical orders / phase sets: an accepted link must still show the same flows on both sides, before and after a write
        eq = (lambda u, w: u == w) if (am and bm) else (lambda u, w: bycas(u) == bycas(w))
        try:
            pa, pb = pub_ledger(a), pub_ledger(b)
            ok = eq(pa, pb); detail = f'{pa} vs {pb}'
            if ok:
                ida = a.chemicals.IDs; v = 4321.5 + sum(pa.values())
                if am: a.imol[a.phases[0], ida[0]] = v
                else: a.imol[ida[0]] = v
                pa, pb = pub_ledger(a), pub_ledger(b)
                ok = eq(pa, pb) and mass_view_ok(a) and mass_view_ok(b); detail = f'after a write on one of them {pa} vs {pb}'
        except Exception as e:
            ok = False; detail = f'reading the linked streams raised {type(e).__name__}: {str(e)[:120]}'
        rec.check(ok, 'link', f'values/{tag}', f'link_with(flow=True) was accepted between streams with {"other chemicals" if foreign else "other phases"}, but the two do not show the same flows: {detail}')
        if len(sa['flows']) >= 2: rec.mark_nontrivial(case_hash(case))
        return
    # accepted: the selected parts are equal and shared, the rest is as before
    try:
        pa, pb = pub_ledger(a), pub_ledger(b)
        if f[0]:
            ok = (pa == pb) if (am and bm) else (bycas(pa) == bycas(pb))
            if not rec.check(ok, 'link', f'values/{tag}', f'link_with(flow=True) accepted, but the two streams show different flows: {pa} vs {pb}'): return
        else:
            rec.check(bycas(pb) == bycas(sb['flows']), 'link', f'unselected-flow-changed/{tag}', f'link_with(flow=False) changed the flows of the linking stream: {sb["flows"]} -> {pb}')
        if f[2]: rec.check(a.T == b.T and a.P == b.P, 'link', f'values-TP/{tag}', 'T,P differ right after link_with(TP=True)')
        else: rec.check(b.T == sb['T'] and b.P == sb['P'], 'link', f'unselected-TP-changed/{tag}', 'link_with(TP=False) changed T,P of the linking stream')
        if f[1] and not am and not bm: rec.check(a.phase == b.phase, 'link', f'values-phase/{tag}', 'phases differ right after link_with(phase=True)')
        rec.check(same_snap(snap(a), sa), 'link', f'other-changed/{tag}', f'link_with changed the stream linked to: {sa} -> {snap(a)}')
        # behaviour: write on a, read b
        ida = a.chemicals.IDs
        pb0 = pub_ledger(b)
        v = 4321.5 + sum(pa.values())
        if am: a.imol[a.phases[0], ida[0]] = v
        else: a.imol[ida[0]] = v
        pa1, pb1 = pub_ledger(a), pub_ledger(b)
        if f[0]: rec.check((pa1 == pb1) if (am and bm) else (bycas(pa1) == bycas(pb1)), 'link', f'flow-not-shared/{tag}', f'flows linked, but after a write the streams differ: {pa1} vs {pb1}')
        else: rec.check(pb1 == pb0, 'link', f'flow-shared/{tag}', 'flows not linked, but a write on one stream changed the other')
        T1 = max(a.T, b.T) + 2.5; a.T = T1
        rec.check((b.T == T1) == bool(f[2]), 'link', f'T-{"not-" if f[2] else ""}shared/{tag}', f'T write visible on the other side = {b.T == T1}, TP linked = {f[2]}')
        for x in (a, b): rec.check(mass_view_ok(x), 'link', f'mass-view/{tag}', 'mass view != mol*MW on a linked stream')
    except Exception as e:
        rec.exception('link', e, what=f'reading / probing the streams after an accepted link_with ({tag}) raised {type(e).__name__}: {str(e)[:150]}'); return
    if len(sa['flows']) >= 2: rec.mark_nontrivial(case_hash(case))


# ---------------------------------------------------------------------------------------------------------------------
def _user_chemical():
    return tmo.Chemical('Yeast', search_db=False, phase='s', formula='CH1.61O0.56N0.16', Hf=-130412.73, rho=1540., Cp=1.2, default=True)


def _rt(x):
    return pickle.loads(pickle.dumps(x))


def _ev(h, ph, args):
    try: return h(ph, *args)
    except Exception as e: return 'raises ' + type(e).__name__


def _rxn_state(r):
    st = r._stoichiometry
    sto = [x.to_array().tolist() for x in st] if isinstance(st, list) else np.asarray(st.to_array() if hasattr(st, 'to_array') else st).tolist()
    return (type(r).__name__, sto, np.asarray(r.X).tolist(), r._basis, repr(r._reactant_index), tuple(r.chemicals.IDs), getattr(r, 'phases', None))


def run_pickle2(case, rec):
    what = case['what']
    th = thermo_of(PKGS[0])
    try:
        if what in ('empty', 'M1', 'labels', 'units', 'proxy', 'view', 'linked-pair'):
            d = case.get('s')
            if what == 'units':
                fl = {i: v for i, v in zip(PKGS[0], case['flows']) if v}
                if not fl: fl = {'Water': 1.0}
                # every units form here is a documented constructor argument: a raise is judged (the enclosing handler), not counted as a refusal
                if case['multi']: s = tmo.MultiStream(None, l=list(fl.items()), g=[('Ethanol', 2.5)], units=case['units'], total_flow=case['total'], T=case['T'], thermo=th, price=case['price'])
                else: s = tmo.Stream(None, units=case['units'], total_flow=case['total'], T=case['T'], thermo=th, price=case['price'], **fl)
                rec.check(s.price == case['price'], 'pickle2', f'ctor-price/{"multi" if case["multi"] else "single"}', f'constructor dropped price: {s.price} != {case["price"]}')
                objs = [s]
            elif what == 'proxy':
                a = build_stream(d, PKGS); a.price = case['price']
                objs = [a.proxy() if case['full'] else a.flow_proxy()]
            elif what == 'view':
                a = build_stream(d, PKGS); objs = [a[a.phases[case['ph'] % len(a.phases)]]]
            elif what == 'linked-pair':
                a = build_stream(d, PKGS); b = build_stream(case['s2'], PKGS); f = case['flags']; b.link_with(a, flow=f[0], phase=f[1], TP=f[2])
                objs = [a, b]
            else:
                s = build_stream(d, PKGS); s.price = case['price']; objs = [s]
            rs = _rt(tuple(objs))
            tag = what + '/' + ('multi' if isinstance(objs[0], tmo.MultiStream) else 'single')
            for o, r in zip(objs, rs):
                so, sr = snap(o), snap(r)
                if what == 'M1' and so['cls'] == 'MultiStream' and sr['cls'] == 'Stream':
                    # restoring data always goes through `phases = ...`, and a one-phase phase set collapses a MultiStream to a Stream by the library's own rule:
                    # flows, phase, T and P are judged; the class of a one-phase multi-stream is not (recorded as an observation in DESIGN)
                    rec.hit('pickle2:one-phase-multistream-collapsed'); sr = dict(sr, cls='MultiStream')
                rec.check(same_snap(so, sr), 'pickle2', f'state/{tag}', f'pickled stream ({what}) differs: {so} -> {sr}')
                if what != 'view': rec.check(r.price == o.price, 'pickle2', f'price/{tag}', f'pickle lost the price: {o.price} -> {r.price}')
                rec.check(r.chemicals.IDs == o.chemicals.IDs, 'pickle2', f'chemicals/{tag}', 'pickle changed the chemicals')
                rec.check(mass_view_ok(r), 'pickle2', f'mass-view/{tag}', 'mass view of an unpickled stream is not mol*MW')
                if len(so['flows']) >= 2: rec.mark_nontrivial(case_hash(case))
        elif what == 'indexer':
            s = build_stream(case['s'], PKGS)
            multi = isinstance(s, tmo.MultiStream)
            for name in ('imol', 'imass'):
                ix = getattr(s, name); r = _rt(ix)
                tag = name + '/' + ('multi' if multi else 'single')
                same = type(r) is type(ix) and np.array_equal(np.asarray(r.data.to_array(), float), np.asarray(ix.data.to_array(), float)) and r.chemicals.IDs == ix.chemicals.IDs and \
                       ((tuple(r.phases) == tuple(ix.phases)) if multi else (r.phase == ix.phase))
                rec.check(same, 'pickle2', f'indexer/{tag}', f'pickled {name} indexer differs: {ix.data.to_array().tolist()} -> {r.data.to_array().tolist()}')
                key = (s.phases[0], PKGS[0][1]) if multi else PKGS[0][1]
                rec.check(float(r[key]) == float(ix[key]), 'pickle2', f'indexer-lookup/{tag}', 'lookup by ID on a pickled indexer differs')
            rec.mark_nontrivial(case_hash(case))
        elif what == 'isplit':
            sp = th.chemicals.isplit({i: v for i, v in zip(PKGS[0], case['split'])})
            r = _rt(sp)
            rec.check(type(r) is type(sp) and np.array_equal(r.data.to_array(), sp.data.to_array()) and r.chemicals.IDs == sp.chemicals.IDs and all(r[i] == sp[i] for i in PKGS[0]), 'pickle2', 'indexer/isplit',
                      f'pickled split indexer differs: {sp.data.to_array().tolist()} -> {r.data.to_array().tolist()}')
            ka = th.chemicals.kwarray({'Water': case['split'][0], 'CO2': 0.5}); rka = _rt(ka)
            rec.check(np.array_equal(np.asarray(ka), np.asarray(rka)), 'pickle2', 'indexer/kwarray', 'pickled kwarray differs')
            rec.mark_nontrivial(case_hash(case))
        elif what in ('SeriesReaction', 'ReactionSystem', 'ReactionItem', 'X-edited'):
            ch = th.chemicals
            r1 = tmo.Reaction('Ethanol + Water -> Methanol + CO2', reactant='Ethanol', X=case['X'], chemicals=ch, basis=case['basis'])
            r2 = tmo.Reaction({'Methanol': -1, 'Octane': 0.5}, reactant='Methanol', X=0.3, chemicals=ch, basis=case['basis'])
            if what == 'SeriesReaction': obj = tmo.SeriesReaction([r1, r2])
            elif what == 'ReactionItem': obj = (tmo.ParallelReaction([r1, r2]) if case['parallel'] else tmo.SeriesReaction([r1, r2]))[case['i']]
            elif what == 'X-edited':
                if case['parallel']: obj = tmo.ParallelReaction([r1, r2]); obj.X[case['i']] = case['X2']
                else: obj = r1; obj.X = case['X2']
            else: obj = tmo.ReactionSystem(r1, tmo.ParallelReaction([r1, r2]), tmo.SeriesReaction([r2, r1]))
            r = _rt(obj)
            if what == 'ReactionSystem':
                rec.check(type(r) is type(obj) and [_rxn_state(i) for i in r._reactions] == [_rxn_state(i) for i in obj._reactions], 'pickle2', 'state/ReactionSystem', 'pickled ReactionSystem differs')
            else:
                rec.check(_rxn_state(r) == _rxn_state(obj), 'pickle2', f'state/{what}', f'pickled {what} differs: {_rxn_state(obj)} -> {_rxn_state(r)}')
            # same effect on a stream
            s0 = tmo.Stream(None, Water=50., Ethanol=5., Methanol=2., thermo=th); s1 = s0.copy()
            obj(s0); r(s1)
            rec.check(phase_ledger(s0) == phase_ledger(s1), 'pickle2', f'effect/{what}', f'pickled {what} acts differently on a stream: {phase_ledger(s0)} vs {phase_ledger(s1)}')
            rec.mark_nontrivial(case_hash(case))
        elif what in ('Chemical-blank', 'Chemical-user', 'Chemical-Hf'):
            if what == 'Chemical-blank':
                c = tmo.Chemical.blank('MyChem', CAS='999-99-9', phase_ref='l', MW=case['MW'], Hf=case['Hf'], formula='C5H8O2')
                get = lambda x: (x.ID, x.CAS, x.MW, x.Hf, x.formula, x.phase_ref, x.atoms, tuple(sorted(x.aliases)))
            elif what == 'Chemical-user':
                c = _user_chemical()
                get = lambda x: (x.ID, x.CAS, x.MW, x.Hf, x.formula, x.phase_ref, x.locked_state, x.HHV, x.LHV, x.V(300., 101325.), x.Cn(310.), x.H(320., 101325.), x.S(320., 101325.), type(x.V).__name__, type(x.Cn).__name__)
            else:
                c = tmo.Chemical(case['chem'], cache=False); c.Hf = case['Hf']
                get = lambda x: (x.ID, x.CAS, x.MW, x.Hf, x.formula, x.Tb, x.H('l', 330., 101325.), x.H('g', 400., 101325.), x.S('l', 330., 101325.), x.Psat(330.), x.HHV, x.LHV)
            r = _rt(c)
            rec.check(get(r) == get(c), 'pickle2', f'state/{what}', f'pickled {what} differs: {get(c)} -> {get(r)}')
            rec.mark_nontrivial(case_hash(case))
        elif what in ('Chemicals-alias', 'Chemicals-group', 'Thermo-custom', 'IdealThermo'):
            chs = tmo.Chemicals(['Water', 'Ethanol', 'Octane', _user_chemical()], cache=True)
            chs.compile()
            if what == 'Chemicals-alias':
                chs.set_alias('Water', 'H2O_c13'); chs.set_alias('Yeast', 'Cells')
                r = _rt(chs)
                rec.check(r.IDs == chs.IDs and np.array_equal(r.MW, chs.MW) and np.array_equal(r.Hf, chs.Hf), 'pickle2', 'state/Chemicals', 'pickled Chemicals differs')
                try:
                    ok = r.index('H2O_c13') == chs.index('H2O_c13') and r.index('Cells') == chs.index('Cells') and r.H2O_c13.ID == 'Water'
                except Exception as e:
                    rec.exception('pickle2', e, what=f'alias lookup on pickled Chemicals raised {type(e).__name__}: {str(e)[:120]}'); return
                rec.check(ok, 'pickle2', 'alias/Chemicals', 'aliases set on Chemicals are lost or changed by pickling')
            elif what == 'Chemicals-group':
                chs.define_group('solvents_c13', ['Water', 'Ethanol'], composition=[0.3, 0.7], wt=case['wt'])
                obj = tmo.Thermo(chs) if case['via_thermo'] else chs
                r = _rt(obj); rc = r.chemicals if case['via_thermo'] else r
                tag = 'Thermo' if case['via_thermo'] else 'Chemicals'
                rec.check(rc.chemical_groups == chs.chemical_groups, 'pickle2', f'groups/{tag}', f'chemical groups defined on the chemicals are lost by pickling: {sorted(chs.chemical_groups)} -> {sorted(rc.chemical_groups)}')
                if rc.chemical_groups == chs.chemical_groups:
                    s0 = tmo.Stream(None, thermo=tmo.Thermo(chs)); s1 = tmo.Stream(None, thermo=(r if case['via_thermo'] else tmo.Thermo(rc)))
                    s0.imass['solvents_c13'] = 10.; s1.imass['solvents_c13'] = 10.
                    rec.check(phase_ledger(s0) == phase_ledger(s1), 'pickle2', f'group-write/{tag}', 'writing by group on unpickled chemicals gives other flows')
            else:
                base = tmo.Thermo(chs, Gamma=tmo.equilibrium.IdealActivityCoefficients) if what == 'Thermo-custom' else tmo.Thermo(chs)
                obj = base if what == 'Thermo-custom' else base.ideal()
                r = _rt(obj)
                rec.check(type(r) is type(obj) and r.Gamma is obj.Gamma and r.Phi is obj.Phi and r.PCF is obj.PCF and r.chemicals.IDs == obj.chemicals.IDs and type(r.mixture) is type(obj.mixture)
                          and r.mixture.include_excess_energies == obj.mixture.include_excess_energies, 'pickle2', f'state/{what}', f'pickled {what} differs')
                s0 = tmo.Stream(None, Water=1, Ethanol=2, Yeast=0.5, T=330, thermo=base); s1 = tmo.Stream(None, Water=1, Ethanol=2, Yeast=0.5, T=330, thermo=_rt(base))
                rec.check(s0.H == s1.H and s0.rho == s1.rho and s0.Cn == s1.Cn, 'pickle2', f'properties/{what}', 'stream on a pickled package has other H / rho / Cn')
            rec.mark_nontrivial(case_hash(case))
        elif what == 'handles':
            w = tmo.Chemical(case['chem'], cache=False)
            chs = tmo.Chemicals(['Water', 'Ethanol', _user_chemical()], cache=True); thx = tmo.Thermo(chs)
            seen = set()
            for name in ('V', 'Cn', 'H', 'S', 'mu', 'kappa'):
                h = getattr(w, name); r = _rt(h)
                seen.add(type(h).__name__)
                args = (320.,) if name == 'Cn' else (320., 101325.)
                rec.check(type(r) is type(h) and r.var == h.var and all(_ev(r, ph, args) == _ev(h, ph, args) for ph in 'slg'), 'pickle2', f'handle/{type(h).__name__}', f'pickled {type(h).__name__} ({name}) differs')
            for name in ('V', 'Cn', 'mu', 'kappa', 'H', 'S'):
                model = getattr(thx.mixture, name, None)
                for h in getattr(model, 'models', ()):
                    if type(h).__name__.startswith('Mock'):
                        r = _rt(h); seen.add(type(h).__name__)
                        args = (320.,) if type(h).__name__ == 'MockPhaseTHandle' else (320., 101325.)
                        rec.check(type(r) is type(h) and r.var == h.var and _ev(r, 's', args) == _ev(h, 's', args), 'pickle2', f'handle/{type(h).__name__}', f'pickled {type(h).__name__} ({name}) differs')
            for k in sorted(seen): rec.hit('pickle2:handle/' + k)
            rec.mark_nontrivial(case_hash(case))
    except Exception as e:
        rec.exception('pickle2', e, what=f'pickle round trip ({what}) raised {type(e).__name__}: {str(e)[:150]}'); return
    rec.hit('pickle2:' + what)      # counted once the object has been built, pickled and judged (not on entry)
    rec.hit('pickle2')


# ---------------------------------------------------------------------------------------------------------------------
def run_copy_like2(case, rec):
    form = case['form']
    if form == 'self':
        t = build_stream(case['tt'], PKGS)
        tag = 'self/' + ('multi' if isinstance(t, tmo.MultiStream) else 'single')
        st = snap(t)
        try:
            t.copy_like(t)
        except Exception as e:
            rec.exception('copy_like2', e, what=f't.copy_like(t) raised {type(e).__name__}: {str(e)[:150]}'); return
        rec.check(same_snap(snap(t), st), 'copy_like2', f'state/{tag}', f't.copy_like(t) changed t: {st} -> {snap(t)}')
        if len(st['flows']) >= 2: rec.mark_nontrivial(case_hash(case))
    elif form == 'linked':
        a = build_stream(case['a'], PKGS); b = build_stream(case['b'], PKGS)
        multi = isinstance(a, tmo.MultiStream)
        how = case['how']
        tag = 'linked/' + ('multi' if multi else 'single') + '/' + how + '/' + ('copy-to-linked' if case['dir'] == 'ba' else 'copy-to-original')
        try:
            if how == 'proxy': b = a.proxy()
            elif how == 'flow_proxy': b = a.flow_proxy(); mutate(b, {'m': 'T', 'v': case['T2']}); mutate(b, {'m': 'phase', 'v': case['ph2']})
            else:
                f = case['flags']; b.link_with(a, flow=f[0], phase=f[1], TP=f[2])
            s, t = (a, b) if case['dir'] == 'ba' else (b, a)
            ss = snap(s)
            t.copy_like(s)
        except Exception as e:
            rec.exception('copy_like2', e, what=f'copy_like between linked streams ({tag}) raised {type(e).__name__}: {str(e)[:150]}'); return
        ts = snap(t)
        rec.check(ts['flows'] == ss['flows'] and ts['T'] == ss['T'] and ts['P'] == ss['P'] and ts['phases'] == ss['phases'], 'copy_like2', f'state/{tag}', f'copy_like between linked streams: target {ts}, source was {ss}')
        rec.check(same_snap(snap(s), ss), 'copy_like2', f'source-changed/{tag}', f'copy_like between linked streams changed the source: {ss} -> {snap(s)}')
        for x in (s, t): rec.check(mass_view_ok(x), 'copy_like2', f'mass-view/{tag}', 'mass view != mol*MW after copy_like between linked streams')
        if len(ss['flows']) >= 2: rec.mark_nontrivial(case_hash(case))
    elif form == 'view-target':
        m = build_stream(case['m'], PKGS); s = build_stream(case['src'], PKGS)
        ph = m.phases[case['ph'] % len(m.phases)]
        v = m[ph]
        sm = isinstance(s, tmo.MultiStream)
        foreign = s.chemicals is not m.chemicals
        tag = 'view-target/' + ('one-phase-multi' if sm else 'single') + '-source/' + ('foreign' if foreign else 'same') + '-package'
        ss = snap(s)
        try:
            v.copy_like(s)
        except AttributeError as e:
            sph_ = s.phases[0] if sm else s.phase
            if 'phase is locked' in str(e):
                # documented only for a source in another phase than the view (the view cannot change its phase); seen from the inputs
                if sph_ == ph:
                    rec.check(False, 'copy_like2', f'refused-unwarranted/{tag}', f'copy_like onto the phase view of phase {ph!r} from a source in the same phase raised AttributeError: {str(e)[:100]}'); return
                rec.refuse('copy_like onto a phase view from a source in another phase: phase is locked'); rec.hit('copy_like2:view-target-refused-warranted'); return
            rec.exception('copy_like2', e, what=f'copy_like onto a phase view ({tag}) raised AttributeError: {str(e)[:150]}'); return
        except Exception as e:
            rec.exception('copy_like2', e, what=f'copy_like onto a phase view ({tag}) raised {type(e).__name__}: {str(e)[:150]}'); return
        vs = snap(v)
        rec.check(bycas(vs['flows']) == bycas(ss['flows']) and v.phase == ph, 'copy_like2', f'flows/{tag}', f'copy_like onto a phase view: view {vs["flows"]}, source {ss["flows"]}')
        rec.check(v.T == ss['T'] and v.P == ss['P'] and m.T == ss['T'] and m.P == ss['P'], 'copy_like2', f'TP/{tag}', 'copy_like onto a phase view: T,P of the view / its parent differ from the source')
        row = {k: x for k, x in phase_ledger(m).items() if k[0] == ph}
        rec.check(bycas(row) == bycas(ss['flows']), 'copy_like2', f'parent-row/{tag}', f'copy_like onto a phase view: the row of the parent holds {row}, source {ss["flows"]}')
        rec.check(same_snap(snap(s), ss), 'copy_like2', f'source-changed/{tag}', 'copy_like onto a phase view changed its source')
        v.imol[v.chemicals.IDs[0]] = 41.5
        rec.check(same_snap(snap(s), ss), 'copy_like2', f'not-independent/{tag}', 'writing the view after copy_like changed the source')
        if len(ss['flows']) >= 2: rec.mark_nontrivial(case_hash(case))
    elif form in ('view-source', 'own-view'):
        m = build_stream(case['m'], PKGS)
        ph = m.phases[case['ph'] % len(m.phases)]
        v = m[ph]
        t = m if form == 'own-view' else build_stream(case['tgt'], PKGS)
        tm_ = isinstance(t, tmo.MultiStream)
        foreign = t.chemicals is not m.chemicals
        tag = form + '/' + ('multi' if tm_ else 'single') + '-target/' + ('foreign' if foreign else 'same') + '-package'
        sv = snap(v); sm_ = snap(m)
        try:
            t.copy_like(v)
        except Exception as e:
            rec.exception('copy_like2', e, what=f'copy_like from a phase view ({tag}) raised {type(e).__name__}: {str(e)[:150]}'); return
        ts = snap(t)
        exp = expected_after_copy_like(sv, t)
        rec.check(ts['flows'] == exp, 'copy_like2', f'flows/{tag}', f'copy_like from a phase view: target flows {ts["flows"]} expected {exp}')
        rec.check(ts['T'] == sv['T'] and ts['P'] == sv['P'], 'copy_like2', f'TP/{tag}', 'copy_like from a phase view: T,P differ')
        if form == 'view-source':
            rec.check(same_snap(snap(m), sm_) and same_snap(snap(v), sv), 'copy_like2', f'source-changed/{tag}', f'copy_like from a phase view changed the view or its parent: {sm_} -> {snap(m)}')
            t.scale(2.0); t.T = t.T + 1.0
            rec.check(same_snap(snap(m), sm_), 'copy_like2', f'not-independent/{tag}', 'mutating the target after copy_like from a phase view changed the parent of the view')
        e = stream_invariant(t); rec.check(e is None, 'invariant', 'copy_like2', f'sparse invariant: {e}')
        if len(sv['flows']) >= 2: rec.mark_nontrivial(case_hash(case))
    rec.hit('copy_like2:' + form)      # counted once the form has been judged (not on entry)
    rec.hit('copy_like2')


# ---------------------------------------------------------------------------------------------------------------------
def gen_mut2(rng):
    m = rng.choice(['T', 'P', 'flow', 'flow', 'imass', 'scale', 'empty', 'phase', 'mixself', 'copy_like3', 'mix3', 'molset'])
    mu = {'m': m, 'i': rng.randrange(5), 'ph': rng.randrange(4)}
    if m == 'T': mu['v'] = round(rng.uniform(285, 370), 2)
    elif m == 'P': mu['v'] = rng.choice([5e4, 101325., 3e5])
    elif m in ('flow', 'imass'): mu['v'] = gflow(rng)
    elif m == 'scale': mu['v'] = rng.choice([0.5, 2.0, 3.0])
    elif m == 'phase': mu['v'] = rng.choice(PH)
    elif m == 'molset': mu['vals'] = [gflow(rng) for _ in range(5)]
    return mu


def gen_linkseq(rng):
    kind = rng.choice('SM')
    phs = ''.join(rng.sample(list(PH), rng.randrange(2, 4))) if kind == 'M' else None
    streams = [gen_stream(rng, 0, kind, phases=phs) for _ in range(3)]
    donor = gen_stream(rng, 0, kind, phases=phs)
    ops = []
    for _ in range(rng.randrange(4, 11)):
        o = rng.choice(['link', 'link', 'link', 'proxy', 'flow_proxy', 'unlink', 'unlink', 'copy', 'mut', 'mut', 'mut', 'mut'])
        x = rng.randrange(3); y = rng.choice([i for i in range(3) if i != x])
        if o == 'link': ops.append({'op': 'link', 'x': x, 'y': y, 'flags': [rng.random() < 0.6, rng.random() < 0.6, rng.random() < 0.6]})
        elif o in ('proxy', 'flow_proxy', 'copy'): ops.append({'op': o, 'x': x, 'y': y})
        elif o == 'unlink': ops.append({'op': 'unlink', 'x': x})
        else: ops.append({'op': 'mut', 'x': x, 'mu': gen_mut2(rng)})
    return {'t': 'linkseq', 'kind': kind, 'streams': streams, 'donor': donor, 'ops': ops}


def gen_copyflow_form(rng, src_ids, dst_multi, dst_phases):
    k = rng.choice(['all', 'str', 'seq', 'ex-str', 'ex-seq', 'ex-all', 'ex-absent'])
    form = {}
    pool = list(PKGS[0])
    if k == 'str': form['IDs'] = rng.choice(src_ids)
    elif k == 'seq': form['IDs'] = rng.sample(list(src_ids), rng.randrange(1, min(3, len(src_ids)) + 1))
    elif k == 'ex-str': form['IDs'] = rng.choice(src_ids); form['exclude'] = True
    elif k == 'ex-seq': form['IDs'] = rng.sample(list(src_ids), rng.randrange(1, min(3, len(src_ids)) + 1)); form['exclude'] = True
    elif k == 'ex-all': form['exclude'] = True
    elif k == 'ex-absent':
        absent = [i for i in pool if i not in src_ids]
        form['IDs'] = rng.choice(absent) if (absent and rng.random() < 0.5) else rng.choice(pool)
        form['exclude'] = True
    if dst_multi and rng.random() < 0.4: form['phase'] = rng.choice(dst_phases)
    return form


def gen_case2(rng):
    t = rng.choices(['linkseq', 'copy2', 'copyflow', 'linkkinds', 'pickle2', 'copy_like2'], [6, 2, 4, 2, 2, 3])[0]
    if t == 'linkseq': return gen_linkseq(rng)
    if t == 'copy2':
        form = rng.choice(['thermo', 'thermo', 'copy.copy', 'view', 'ID'])
        if form == 'thermo':
            apkg = rng.choice([0, 1, 2]); a = gen_stream(rng, apkg)
            return {'t': 'copy2', 'form': form, 'a': a, 'pkg': rng.choice([0, 1, 2])}
        if form == 'view': return {'t': 'copy2', 'form': form, 'a': gen_stream(rng, rng.choice([0, 1]), 'M'), 'ph': rng.randrange(3)}
        if form == 'ID': return {'t': 'copy2', 'form': form, 'a': gen_stream(rng, 0), 'give_id': rng.random() < 0.5}
        return {'t': 'copy2', 'form': form, 'a': gen_stream(rng, rng.choice([0, 1]))}
    if t == 'copyflow':
        what = rng.choice(['copy_flow'] * 6 + ['copy_thermal_condition', 'copy_phase'])
        spkg = rng.choice([0, 0, 1, 2]); dpkg = rng.choice([0, 0, 1])
        sk = rng.choice(['S', 'M', 'M1'])
        src = gen_stream(rng, spkg, 'M', phases=rng.choice(PH)) if sk == 'M1' else gen_stream(rng, spkg, sk)
        if what == 'copy_phase': return {'t': 'copyflow', 'what': what, 'src': src, 'dst': gen_stream(rng, dpkg, 'S')}
        if what == 'copy_thermal_condition': return {'t': 'copyflow', 'what': what, 'src': src, 'dst': gen_stream(rng, dpkg)}
        dk = rng.choice('SM')
        if dk == 'M':
            dpkg = spkg if rng.random() < 0.85 else dpkg
            sph = src['phases'] if src['kind'] == 'M' else src['phase']
            r = rng.random()
            if src['kind'] == 'M' and len(sph) >= 2 and r < 0.5: dph = sph
            elif r < 0.8: dph = ''.join(sorted(set(sph + rng.choice(PH)))) if len(sph) < 3 else sph
            else: dph = None
            if dph is not None and len(dph) < 2: dph = dph + rng.choice([p for p in PH if p not in dph])
            dst = gen_stream(rng, dpkg, 'M', phases=dph)
        else:
            dst = gen_stream(rng, dpkg, 'S')
        form = gen_copyflow_form(rng, PKGS[spkg], dk == 'M', dst.get('phases'))
        return {'t': 'copyflow', 'what': what, 'src': src, 'dst': dst, 'form': form}
    if t == 'linkkinds':
        mode = rng.choice(['kind', 'phases', 'pkg', 'pkg'])
        flags = [rng.random() < 0.7, rng.random() < 0.6, rng.random() < 0.6]
        if mode == 'kind':
            ka = rng.choice('SM'); kb = 'M' if ka == 'S' else 'S'
            return {'t': 'linkkinds', 'a': gen_stream(rng, rng.choice([0, 1]), ka), 'b': gen_stream(rng, rng.choice([0, 1]), kb), 'flags': flags}
        if mode == 'phases':
            pa = ''.join(rng.sample(list(PH), rng.randrange(2, 4)))
            while True:
                pb = ''.join(rng.sample(list(PH), rng.randrange(2, 4)))
                if set(pb) != set(pa): break
            return {'t': 'linkkinds', 'a': gen_stream(rng, 0, 'M', phases=pa), 'b': gen_stream(rng, 0, 'M', phases=pb), 'flags': flags}
        kind = rng.choice('SM'); phs = ''.join(rng.sample(list(PH), rng.randrange(2, 4))) if kind == 'M' else None
        pa, pb = rng.choice([(0, 1), (1, 0), (0, 2), (2, 0)])
        return {'t': 'linkkinds', 'a': gen_stream(rng, pa, kind, phases=phs), 'b': gen_stream(rng, pb, kind, phases=phs), 'flags': flags}
    if t == 'pickle2':
        what = rng.choice(['empty', 'M1', 'labels', 'units', 'proxy', 'view', 'linked-pair', 'indexer', 'isplit', 'SeriesReaction', 'ReactionSystem', 'ReactionItem', 'X-edited',
                           'Chemical-blank', 'Chemical-user', 'Chemical-Hf', 'Chemicals-alias', 'Chemicals-group', 'Thermo-custom', 'IdealThermo', 'handles'])
        c = {'t': 'pickle2', 'what': what, 'price': round(rng.uniform(0.01, 5), 3)}
        if what == 'empty': c['s'] = gen_stream(rng, 0, empty=True)
        elif what == 'M1': c['s'] = gen_stream(rng, rng.choice([0, 1]), 'M', phases=rng.choice(PH))
        elif what == 'labels':
            k = rng.choice('SM')
            c['s'] = gen_stream(rng, 0, 'S', phases=rng.choice('SLs')) if k == 'S' else gen_stream(rng, 0, 'M', phases=rng.choice(['SL', 'sS', 'lL', 'gLS', 'sSL']))
        elif what == 'units':
            c.update(units=rng.choice(['kg/hr', 'kmol/hr', 'lb/hr', 'm3/hr']), total=round(10 ** rng.uniform(0, 3), 3), T=round(rng.uniform(285, 340), 2), multi=rng.random() < 0.4, flows=[gflow(rng) for _ in range(5)])
        elif what == 'proxy': c.update(s=gen_stream(rng, 0), full=rng.random() < 0.5)
        elif what == 'view': c.update(s=gen_stream(rng, 0, 'M'), ph=rng.randrange(3))
        elif what == 'linked-pair':
            k = rng.choice('SM'); phs = ''.join(rng.sample(list(PH), rng.randrange(2, 4))) if k == 'M' else None
            c.update(s=gen_stream(rng, 0, k, phases=phs), s2=gen_stream(rng, 0, k, phases=phs), flags=[rng.random() < 0.6, rng.random() < 0.6, rng.random() < 0.6])
        elif what == 'indexer': c['s'] = gen_stream(rng, 0)
        elif what == 'isplit': c['split'] = [round(rng.random(), 3) for _ in range(5)]
        elif what in ('SeriesReaction', 'ReactionSystem', 'ReactionItem', 'X-edited'):
            c.update(X=round(rng.random(), 3), X2=round(rng.random(), 3), basis=rng.choice(['mol', 'wt']), parallel=rng.random() < 0.5, i=rng.randrange(2))
        elif what == 'Chemical-blank': c.update(MW=round(rng.uniform(20, 300), 2), Hf=-round(rng.uniform(1e4, 5e5), 1))
        elif what == 'Chemical-Hf': c.update(chem=rng.choice(['Water', 'Ethanol', 'Octane']), Hf=-round(rng.uniform(1e4, 5e5), 1))
        elif what == 'Chemicals-group': c.update(wt=rng.random() < 0.5, via_thermo=rng.random() < 0.5)
        elif what == 'handles': c['chem'] = rng.choice(['Water', 'Ethanol', 'Octane'])
        return c
    # copy_like2
    form = rng.choice(['self', 'linked', 'linked', 'view-target', 'view-target', 'view-source', 'view-source', 'own-view'])
    if form == 'self':
        k = rng.choice(['S', 'M', 'M1'])
        tt = gen_stream(rng, rng.choice([0, 1]), 'M', phases=rng.choice(PH)) if k == 'M1' else gen_stream(rng, rng.choice([0, 1]), k)
        return {'t': 'copy_like2', 'form': form, 'tt': tt}
    if form == 'linked':
        k = rng.choice('SM'); phs = ''.join(rng.sample(list(PH), rng.randrange(2, 4))) if k == 'M' else None
        return {'t': 'copy_like2', 'form': form, 'a': gen_stream(rng, 0, k, phases=phs), 'b': gen_stream(rng, 0, k, phases=phs), 'how': rng.choice(['proxy', 'flow_proxy', 'link', 'link']),
                'flags': [rng.random() < 0.6, rng.random() < 0.6, rng.random() < 0.6], 'dir': rng.choice(['ab', 'ba']), 'T2': round(rng.uniform(285, 370), 2), 'ph2': rng.choice(PH)}
    m = gen_stream(rng, 0, 'M'); phi = rng.randrange(3)
    if form == 'view-target':
        ph = ''.join(sorted(m['phases']))[phi % len(m['phases'])]
        sph = ph if rng.random() < 0.75 else rng.choice(PH)
        sk = rng.choice(['S', 'S', 'M1']); spkg = rng.choice([0, 0, 1, 2])
        src = gen_stream(rng, spkg, 'M' if sk == 'M1' else 'S', phases=sph)
        return {'t': 'copy_like2', 'form': form, 'm': m, 'ph': phi, 'src': src}
    if form == 'own-view': return {'t': 'copy_like2', 'form': form, 'm': m, 'ph': phi}
    tgt = gen_stream(rng, rng.choice([0, 0, 1]), rng.choice('SM'), empty=rng.random() < 0.5)
    return {'t': 'copy_like2', 'form': form, 'm': m, 'ph': phi, 'tgt': tgt}


# ======================================================================================================================
# third stream of cases (own generator gen_case3, drawn after the second; the first two streams are left identical):
# the flows of a stream on EVERY basis. The mass / volumetric indexers of a stream (imass, mass, ivol, vol, get_flow / set_flow in kg/hr or m3/hr, the
# constructor's units=, show(flow=...), and the same through the phase views ms['l']) are live views that the stream caches once made; copies, links and
# pickles must leave the flows read and written through them those of the stream itself.

UNITS = {'mol': 'kmol/hr', 'mass': 'kg/hr', 'vol': 'm3/hr'}
WARMS = ('imass', 'mass', 'ivol', 'vol', 'get_flow', 'show', 'F', 'view', 'view-imass', 'view-ivol')
CACHING = ('imass', 'mass', 'ivol', 'vol', 'get_flow', 'show')


def kind_of(x):
    if not isinstance(x, tmo.MultiStream): return 'S'
    return 'M' if len(x.phases) >= 2 else 'M1'


def build_b(d):
    """build_stream, or (d['units'] given) through the constructor with the flows in those units: the mass view exists from the start."""
    u = d.get('units')
    if not u: return build_stream(d, PKGS)
    th = thermo_of(PKGS[d['pkg']]); ids = th.chemicals.IDs
    if d['kind'] == 'S':
        return tmo.Stream(None, phase=d['phase'], T=d['T'], P=d['P'], thermo=th, units=u, **{i: v for i, v in zip(ids, d['flows']) if v})
    return tmo.MultiStream(None, phases=tuple(d['phases']), T=d['T'], P=d['P'], thermo=th, units=u,
                           **{ph: [(i, v) for i, v in zip(ids, row) if v] for ph, row in d['flows'].items() if any(row)})


def warm(x, forms, rec):
    """use the stream the way a user does before the operation under test: the views made here are cached by the stream."""
    multi = isinstance(x, tmo.MultiStream)
    for f in forms:
        try:
            if f == 'imass': x.imass
            elif f == 'mass': x.mass
            elif f == 'ivol': x.ivol
            elif f == 'vol': x.vol
            elif f == 'get_flow': x.get_flow('kg/hr')
            elif f == 'show':
                with contextlib.redirect_stdout(io.StringIO()): x.show(flow='kg/hr')
            elif f == 'F': x.F_mass; x.F_vol
            elif multi:
                for ph in x.phases:
                    v = x[ph]
                    if f == 'view-imass': v.imass
                    elif f == 'view-ivol': v.ivol
        except Exception:
            rec.hit('basis:warm-up-raised')      # e.g. no molar volume model for a chemical in this phase: nothing decided here
        rec.hit('basis:warm/' + f)


def ref_of(x):
    """a fresh stream in the state of x (raw molar rows, phases, T, P): what any basis must read."""
    ch = x.chemicals; ID = dict(zip(ch.CASs, ch.IDs))
    if isinstance(x, tmo.MultiStream):
        r = tmo.MultiStream(None, phases=tuple(x.phases), T=x.T, P=x.P, thermo=x.thermo)
        for (ph, c), v in phase_ledger(x).items(): r.imol[ph, ID[c]] = v
    else:
        r = tmo.Stream(None, phase=x.phase, T=x.T, P=x.P, thermo=x.thermo)
        for (ph, c), v in phase_ledger(x).items(): r.imol[ID[c]] = v
    return r


def unit_volume(x, ph, i):
    """m3 per kmol of chemical i in phase ph at the T, P of x, from a fresh single-phase stream."""
    r = tmo.Stream(None, phase=ph, T=x.T, P=x.P, thermo=x.thermo)
    r.imol[i] = 1.0
    return float(r.ivol[i])


def arr_close(got, exp, rel):
    if got.shape != exp.shape: return False
    return bool(((np.abs(got - exp) <= rel * np.maximum(np.abs(got), np.abs(exp))) | (np.isnan(got) & np.isnan(exp))).all())


def check_bases(x, rec, stage, tag, vol=True):
    """every public reading of the flows of x (molar, mass, volumetric; whole stream and phase views) agrees with its molar rows.
    Whole-array readings cover every (phase, chemical) cell; keyed readings cover the non-zero cells (at most 5) and one empty cell."""
    ch = x.chemicals; ids = ch.IDs; cas = ch.CASs; MW = np.asarray(ch.MW, float)
    multi = isinstance(x, tmo.MultiStream)
    phs = tuple(x.phases) if multi else (x.phase,)
    L = phase_ledger(x)
    col = {c: j for j, c in enumerate(cas)}; row = {ph: r for r, ph in enumerate(phs)}
    mol = np.zeros((len(phs), len(ids)))
    for (ph, c), v in L.items(): mol[row[ph], col[c]] = v
    mass = mol * MW
    cells = [(row[ph], col[c]) for (ph, c), v in sorted(L.items()) if v][:5]
    cells += [(r, j) for r in range(len(phs)) for j in range(len(ids)) if not mol[r, j]][:1]
    k = (lambda r, j: (phs[r], ids[j])) if multi else (lambda r, j: ids[j])
    where = f'{stage}; {tag}'
    arrays = []; keyed = []
    try:
        arrays.append(('imol-data', np.atleast_2d(np.asarray(x.imol.data.to_array(), float)), mol))
        im = x.imass
        arrays.append(('mass-data', np.atleast_2d(np.asarray(im.data.to_array(), float)), mass))
        keyed.append(('imol', [float(x.imol[k(r, j)]) for r, j in cells], mol))
        keyed.append(('imass', [float(im[k(r, j)]) for r, j in cells], mass))
        keyed.append(('get_flow', [float(x.get_flow('kg/hr', k(r, j))) for r, j in cells], mass))
        if multi:
            vs = [x[ph] for ph in phs]
            arrays.append(('view-mol', np.array([np.asarray(v.mol.to_array(), float) for v in vs]), mol))
            arrays.append(('view-mass', np.array([np.asarray(v.mass.to_array(), float) for v in vs]), mass))
            keyed.append(('view-imass', [float(vs[r].imass[ids[j]]) for r, j in cells], mass))
            tp = [(ph, v.T, v.P, v.phase) for ph, v in zip(phs, vs)]
        else:
            arrays.append(('mass', np.atleast_2d(np.asarray(x.mass.to_array(), float)), mass))
        Fm = float(x.F_mass)
    except Exception as e:
        rec.exception('basis', e, what=f'reading the flows of a stream ({where}) raised {type(e).__name__}: {str(e)[:150]}'); return
    # a phase view that does not even show the molar row of its phase (or the T, P of its stream) is bound to something else: that is reported once
    # (read-view-mol / read-view-TP); its mass and volumetric readings are consequences and are not reported on top
    skip = ()
    if multi:
        if not arr_close([g for f_, g, e_ in arrays if f_ == 'view-mol'][0], mol, 1e-12): skip = ('view-mass', 'view-imass', 'view-vol', 'view-ivol')
        elif [q for q in tp if q[1] != x.T or q[2] != x.P]: skip = ('view-vol', 'view-ivol')
    for form, got, exp in arrays:
        if form in skip: continue
        ok = arr_close(got, exp, 1e-12)
        rec.check(ok, 'basis', f'read-{form}/{tag}', f'{form} of a stream ({where}) does not show its own flows: read {got.tolist()}, its molar rows{" x MW" if exp is mass else ""} are {exp.tolist()} (phases {phs})')
    for form, got, exp in keyed:
        if form in skip: continue
        bad = [(k(r, j), g, float(exp[r, j])) for (r, j), g in zip(cells, got) if not close(g, float(exp[r, j]), 1e-12)]
        rec.check(not bad, 'basis', f'read-{form}/{tag}', f'{form} of a stream ({where}) does not show its own flows (key, read, molar row{" x MW" if exp is mass else ""}): {bad}')
    tot = float(mass.sum())
    rec.check(close(Fm, tot, 1e-9), 'basis', f'read-F_mass/{tag}', f'F_mass of a stream ({where}) is {Fm}, its molar rows give {tot}')
    if multi:
        bad = [q for q in tp if q[1] != x.T or q[2] != x.P or q[3] != q[0]]
        rec.check(not bad, 'basis', f'read-view-TP/{tag}', f'phase views of a multi-phase stream ({where}) at T, P = {x.T}, {x.P} show (phase, T, P, phase): {bad}')
    if not vol: return
    # volumetric readings against a fresh stream in the same state
    try:
        ref = ref_of(x)
        rv = np.atleast_2d(np.asarray(ref.ivol.data.to_array(), float))
        rF = float(ref.F_vol)
    except Exception:
        rec.hit('basis:vol-unavailable'); return     # no molar volume model for a chemical in a phase: volumetric flows are not defined for this state
    arrays = []; keyed = []
    try:
        iv = x.ivol
        arrays.append(('vol-data', np.atleast_2d(np.asarray(iv.data.to_array(), float))))
        keyed.append(('ivol', [float(iv[k(r, j)]) for r, j in cells]))
        keyed.append(('get_flow-m3', [float(x.get_flow('m3/hr', k(r, j))) for r, j in cells]))
        if multi:
            arrays.append(('view-vol', np.array([np.asarray(v.vol.to_array(), float) for v in vs])))
            keyed.append(('view-ivol', [float(vs[r].ivol[ids[j]]) for r, j in cells]))
        Fv = float(x.F_vol)
    except Exception as e:
        rec.exception('basis', e, what=f'reading the volumetric flows of a stream ({where}) raised {type(e).__name__}: {str(e)[:150]} (a fresh stream in the same state reads them)'); return
    for form, got in arrays:
        if form in skip: continue
        ok = arr_close(got, rv, 1e-9)
        rec.check(ok, 'basis', f'read-{form}/{tag}', f'{form} of a stream ({where}) differs from that of a fresh stream in the same state: {got.tolist()} vs {rv.tolist()} (phases {phs})')
    for form, got in keyed:
        if form in skip: continue
        bad = [(k(r, j), g, float(rv[r, j])) for (r, j), g in zip(cells, got) if not close(g, float(rv[r, j]), 1e-9)]
        rec.check(not bad, 'basis', f'read-{form}/{tag}', f'{form} of a stream ({where}) differs from that of a fresh stream in the same state (key, read, fresh): {bad}')
    rec.hit('basis:vol-judged')
    rec.check(close(Fv, rF, 1e-9), 'basis', f'read-F_vol/{tag}', f'F_vol of a stream ({where}) is {Fv}, a fresh stream in the same state has {rF}')


def flows_eq(sa, sb, multi):
    return sa['flows'] == sb['flows'] if multi else bycas(sa['flows']) == bycas(sb['flows'])


def apply_write(x, w, rec, tag):
    """write one flow of x on the given basis through the given public route; the molar rows of x must hold exactly that (nothing else moves).
    Returns the route tag, or None when the write raised."""
    ch = x.chemicals; ids = ch.IDs; cas = ch.CASs
    multi = isinstance(x, tmo.MultiStream)
    phs = tuple(x.phases) if multi else (x.phase,)
    r = w['ph'] % len(phs); ph = phs[r]; j = w['i'] % len(ids); i = ids[j]
    basis = w['basis']; via = w['via'] if (multi or w['via'] != 'view') else 'indexer'
    v = float(w['v'])
    if basis == 'vol':
        try: per = unit_volume(x, ph, i)
        except Exception: per = None
        if not per: basis = 'mass'       # no molar volume model for this chemical in this phase: write on the mass basis instead
    if via == 'view':
        Lx = phase_ledger(x)
        if any(float(x[p_].imol[q]) != Lx.get((p_, c), 0.0) for p_ in phs for q, c in zip(ids, cas)) or (basis == 'vol' and any(x[p_].T != x.T or x[p_].P != x.P for p_ in phs)):
            # the phase views of this stream are not views of its phases (reported by read-view-mol / read-view-TP): a write through one of them decides nothing more
            rec.hit('basis:write-through-unbound-view-not-judged'); via = 'indexer'
    wtag = f'{basis}-{via}'
    L0 = phase_ledger(x)
    key = (ph, i) if multi else i
    try:
        if via == 'indexer': getattr(x, 'i' + basis)[key] = v
        elif via == 'view': getattr(x[ph], 'i' + basis)[i] = v
        elif via == 'set_flow': x.set_flow(v, UNITS[basis], key)
        else:
            data = getattr(x, 'i' + basis).data
            if multi: data[r, j] = v
            else: data[j] = v
    except Exception as e:
        rec.exception('basis', e, what=f'writing a flow ({wtag}; {tag}) raised {type(e).__name__}: {str(e)[:150]}'); return None
    L1 = phase_ledger(x)
    exp = dict(L0)
    exp[(ph, cas[j])] = v if basis == 'mol' else (v / float(ch.MW[j]) if basis == 'mass' else v / per)
    rel = 0.0 if basis == 'mol' else (1e-12 if basis == 'mass' else 1e-9)
    bad = [(q, L1.get(q, 0.0), exp.get(q, 0.0)) for q in sorted(set(exp) | set(L1)) if not close(L1.get(q, 0.0), exp.get(q, 0.0), rel)]
    rec.check(not bad, 'basis', f'write-lost/{wtag}/{tag}', f'a flow written on the {basis} basis ({via}; {tag}) is not what the stream then holds (key, molar row, expected): {bad[:4]}')
    rec.hit('basis:write/' + wtag)
    return wtag


def write_round(objs, rel, writes, rec, tag, tp_shared=False):
    """objs = {'a': x, 'b': y}; rel = 'independent' | 'shared' (flows). Every write must land in its stream; the other stream moves exactly when the flows are shared."""
    for n, w in enumerate(writes):
        x = objs[w['on']]; y = objs['b' if w['on'] == 'a' else 'a']
        multi = isinstance(y, tmo.MultiStream)
        before = snap(y)
        wtag = apply_write(x, w, rec, tag)
        if wtag is None: return False
        check_bases(x, rec, 'after-write', tag)
        after = snap(y)
        if rel == 'shared':
            rec.check(flows_eq(after, snap(x), multi and isinstance(x, tmo.MultiStream)), 'basis', f'shared-write-not-seen/{wtag}/{tag}', f'a flow written on one stream ({wtag}) is not seen by the stream sharing its flows ({tag}): {snap(x)["flows"]} vs {after["flows"]}')
        else:
            same = flows_eq(after, before, multi) if tp_shared else same_snap(after, before)
            rec.check(same, 'basis', f'write-leaked/{wtag}/{tag}', f'a flow written on one stream ({wtag}) changed an independent stream ({tag}): {before} -> {after}')
        if rel == 'shared' or n == 0: check_bases(y, rec, 'other-after-write', tag, vol=(rel == 'shared'))
    return True


def unpickled_snap(so, sr):
    """a one-phase MultiStream comes back from set_data / pickle as a Stream by the library's own phases-setter rule: the class of a one-phase multi-stream is not judged."""
    if so['cls'] == 'MultiStream' and sr['cls'] == 'Stream' and len(so['phases']) == 1: return dict(sr, cls='MultiStream')
    return sr


def run_basis(case, rec):
    sc = case['sc']
    if sc == 'xfer':
        t = build_b(case['tgt']); srcs = [build_b(d) for d in case['srcs']]
        if case['tgt'].get('units') or any(d.get('units') for d in case['srcs']): rec.hit('basis:ctor-units')
        warm(t, case['warm_t'], rec)
        for s in srcs: warm(s, case['warm_s'], rec)
        cached = bool(case['tgt'].get('units')) or any(f in CACHING for f in case['warm_t'])
        labels = set(''.join(d.get('phases') or d.get('phase') for d in [case['tgt']] + case['srcs']))
        # both cases of one letter among the phase labels of the history ('s' and 'S', 'l' and 'L'): the label fall-back of the phase index is in play
        variant = '/case-variant-labels' if any(q.lower() in labels and q.upper() in labels for q in labels) else ''
        for n, rnd in enumerate(case['rounds']):
            s = srcs[rnd['src']]; op = rnd['op']
            ks, kt = kind_of(s), kind_of(t)
            same_pkg = s.chemicals is t.chemicals
            same_ph = ks != 'S' and kt != 'S' and tuple(s.phases) == tuple(t.phases)
            if op == 'copy_flow' and not (same_pkg and ((ks == 'S' and kt == 'S') or same_ph)): op = 'copy_like'
            if op == 'imol.copy_like' and kt == 'S' and ks != 'S': op = 'copy_like'
            if op == 'imass.copy_like' and not (same_pkg and ((ks == 'S' and kt == 'S') or same_ph)): op = 'set_data'
            tag = f'{op}/{ks}-to-{kt}/' + ('same' if same_pkg else 'foreign') + '-package' + ('/same-phases' if same_ph else '') + variant
            ss = snap(s)
            try:
                if op == 'copy_like': t.copy_like(s)
                elif op == 'set_data': t.set_data(s.get_data())
                elif op == 'copy_flow': t.copy_flow(s)
                elif op == 'imol.copy_like': t.imol.copy_like(s.imol)
                else: t.imass.copy_like(s.imass)
            except Exception as e:
                rec.exception('basis', e, what=f'{tag} raised {type(e).__name__}: {str(e)[:150]}'); return
            rec.hit('basis:op/' + op)
            if same_ph and same_pkg and ks == 'M' and (cached or n): rec.hit('basis:same-layout-cached-target')
            try:
                ts = snap(t)
            except Exception as e:
                rec.exception('basis', e, what=f'reading the target after {tag} raised {type(e).__name__}: {str(e)[:150]}'); return
            if op == 'copy_flow':
                exp = ss['flows'] if kt != 'S' else None
                ok = ts['flows'] == exp if kt != 'S' else bycas(ts['flows']) == bycas(ss['flows'])
            else:
                exp = ss['flows'] if op == 'set_data' else expected_after_copy_like(ss, t)
                rel = 1e-12 if op == 'imass.copy_like' else 0.0
                ok = all(close(ts['flows'].get(q, 0.0), exp.get(q, 0.0), rel) for q in sorted(set(exp) | set(ts['flows'])))
            rec.check(ok, 'basis', f'flows/{tag}', f'{tag}: the target holds {ts["flows"]}, the source {ss["flows"]}')
            if op in ('copy_like', 'set_data'):
                rec.check(ts['T'] == ss['T'] and ts['P'] == ss['P'], 'basis', f'TP/{tag}', f'{tag}: target T, P = {ts["T"]}, {ts["P"]}, source {ss["T"]}, {ss["P"]}')
            if op == 'set_data':
                rec.check(ts['phases'] == ss['phases'], 'basis', f'phases/{tag}', f'{tag}: target phases {ts["phases"]}, source {ss["phases"]}')
            rec.check(same_snap(snap(s), ss), 'basis', f'source-changed/{tag}', f'{tag} changed its source: {ss} -> {snap(s)}')
            check_bases(t, rec, 'after-op', tag)
            if n == 0: check_bases(s, rec, 'source-after-op', tag, vol=False)
            if not write_round({'a': t, 'b': s}, 'independent', rnd['writes'], rec, tag): return
            warm(t, rnd['rewarm'], rec)
            e = stream_invariant(t); rec.check(e is None, 'invariant', 'basis', f'sparse invariant: {e}')
            if len(ss['flows']) >= 2: rec.mark_nontrivial(case_hash(case))
        tail = case.get('tail')
        if tail:
            rec.hit('basis:tail')
            st = snap(t)
            try:
                b = t.copy() if tail == 'copy' else _rt(t)
            except Exception as e:
                rec.exception('basis', e, what=f'{tail} of the target of a transfer raised {type(e).__name__}: {str(e)[:150]}'); return
            tag = f'{tail}-after-transfer/{kind_of(t)}' + variant
            rec.check(same_snap(st, unpickled_snap(st, snap(b))), 'basis', f'state/{tag}', f'{tail} differs from its original: {st} vs {snap(b)}')
            check_bases(b, rec, 'after-op', tag)
            write_round({'a': b, 'b': t}, 'independent', case['tail_writes'], rec, tag)
    elif sc == 'dup':
        a = build_b(case['a'])
        if case['a'].get('units'): rec.hit('basis:ctor-units')
        warm(a, case['warm_a'], rec)
        op = case['op']; ka = kind_of(a)
        tag = f'{op}/{ka}'
        sa = snap(a)
        try:
            if op == 'copy': b = a.copy()
            elif op == 'copy.copy': b = _copy.copy(a)
            elif op == 'pickle': b = _rt(a)
            elif op == 'proxy': b = a.proxy()
            else: b = a.flow_proxy()
        except Exception as e:
            rec.exception('basis', e, what=f'{tag} raised {type(e).__name__}: {str(e)[:150]}'); return
        rec.hit('basis:dup/' + op)
        rec.check(b is not a and same_snap(sa, unpickled_snap(sa, snap(b))), 'basis', f'state/{tag}', f'{op} differs from its original: {sa} vs {snap(b)}')
        rec.check(same_snap(snap(a), sa), 'basis', f'source-changed/{tag}', f'{op} changed its original')
        warm(b, case['warm_b'], rec)
        check_bases(a, rec, 'source-after-op', tag)
        check_bases(b, rec, 'after-op', tag)
        rel = 'shared' if op in ('proxy', 'flow_proxy') else 'independent'
        write_round({'a': a, 'b': b}, rel, case['writes'], rec, tag, tp_shared=(op == 'proxy'))
        if len(sa['flows']) >= 2: rec.mark_nontrivial(case_hash(case))
    else:   # link
        a = build_b(case['a']); b = build_b(case['b']); d = build_b(case['d'])
        multi = isinstance(a, tmo.MultiStream)
        warm(a, case['warm_a'], rec); warm(b, case['warm_b'], rec)
        f = case['flags']
        tag = 'link/' + ('M' if multi else 'S') + '/' + ''.join('FPT'[i] if x else '-' for i, x in enumerate(f))
        sa = snap(a)
        try:
            b.link_with(a, flow=f[0], phase=f[1], TP=f[2])
        except Exception as e:
            rec.exception('basis', e, what=f'{tag} raised {type(e).__name__}: {str(e)[:150]}'); return
        rel = 'shared' if f[0] else 'independent'
        if f[0]: rec.check(flows_eq(snap(b), sa, multi), 'basis', f'flows/{tag}', f'link_with(flow=True): the linking stream holds {snap(b)["flows"]}, the other {sa["flows"]}')
        rec.check(same_snap(snap(a), sa), 'basis', f'source-changed/{tag}', 'link_with changed the stream linked to')
        check_bases(a, rec, 'source-after-op', tag)
        check_bases(b, rec, 'after-op', tag)
        objs = {'a': a, 'b': b}
        if not write_round(objs, rel, case['writes'], rec, tag, tp_shared=True): return
        mid = case.get('mid')
        if mid:
            # conditions of a third stream copied onto one side of the link
            x = objs[mid]; y = objs['b' if mid == 'a' else 'a']
            mtag = 'copy_like-onto-linked/' + tag[5:]
            by = snap(y); sd = snap(d)
            try:
                x.copy_like(d)
            except Exception as e:
                rec.exception('basis', e, what=f'{mtag} raised {type(e).__name__}: {str(e)[:150]}'); return
            rec.hit('basis:link/mid-copy_like')
            rec.check(flows_eq(snap(x), sd, multi), 'basis', f'flows/{mtag}', f'copy_like onto a linked stream: target {snap(x)["flows"]}, source {sd["flows"]}')
            if f[0]: rec.check(flows_eq(snap(y), sd, multi), 'basis', f'shared-write-not-seen/copy_like/{mtag}', 'copy_like onto one side of a flow link is not seen by the other side')
            else: rec.check(flows_eq(snap(y), by, multi), 'basis', f'write-leaked/copy_like/{mtag}', 'copy_like onto one side of a link that does not share flows changed the flows of the other side')
            check_bases(x, rec, 'after-op', mtag); check_bases(y, rec, 'other-after-op', mtag)
        who = case['unlink']
        utag = 'unlink/' + tag[5:] + ('/linking-side' if who == 'b' else '/linked-to-side')
        before = {q: snap(objs[q]) for q in 'ab'}
        try:
            objs[who].unlink()
        except Exception as e:
            rec.exception('basis', e, what=f'{utag} raised {type(e).__name__}: {str(e)[:150]}'); return
        rec.hit('basis:link/unlink')
        for q in 'ab':
            rec.check(same_snap(snap(objs[q]), before[q]), 'basis', f'state/{utag}', f'unlink changed the values of a stream: {before[q]} -> {snap(objs[q])}')
            check_bases(objs[q], rec, 'after-op', utag)
        # after unlink of either side nothing is shared any more
        write_round(objs, 'independent', case['writes2'], rec, utag)
        if len(sa['flows']) >= 2: rec.mark_nontrivial(case_hash(case))
    rec.hit('basis:' + sc)      # counted once the scenario ran to its end and was judged (not on entry)
    rec.hit('basis')


def gen_warm(rng, p_none=0.2):
    if rng.random() < p_none: return []
    return rng.sample(WARMS, rng.randrange(1, 4))


def gen_write(rng, on=None):
    return {'on': on or rng.choice('ab'), 'basis': rng.choice(['mass', 'mass', 'mass', 'vol', 'vol', 'mol']), 'via': rng.choice(['indexer', 'indexer', 'view', 'set_flow', 'data']),
            'i': rng.randrange(5), 'ph': rng.randrange(4), 'v': 0.0 if rng.random() < 0.12 else round(10 ** rng.uniform(-2, 3), 4)}


def with_units(rng, d, p=0.25):
    if rng.random() < p: d['units'] = 'kg/hr'
    return d


def gen_case3(rng):
    sc = rng.choices(['xfer', 'dup', 'link'], [6, 2, 3])[0]
    if sc == 'xfer':
        sk = rng.choice(['S', 'M', 'M', 'M1']); spkg = rng.choice([0, 0, 0, 1, 2])
        src = gen_stream(rng, spkg, 'M', phases=rng.choice(PH)) if sk == 'M1' else gen_stream(rng, spkg, sk)
        sph = src['phases'] if src['kind'] == 'M' else src['phase']
        src2 = gen_stream(rng, spkg, src['kind'], phases=sph if rng.random() < 0.6 else (rng.choice(PH) if sk != 'M' else None))
        tk = rng.choice('SMM'); tpkg = spkg if (spkg != 2 and rng.random() < 0.7) else rng.choice([0, 1])
        r = rng.random()
        if tk == 'S': tph = sph[0] if r < 0.6 else None
        elif len(sph) >= 2 and r < 0.6: tph = sph
        elif r < 0.8: tph = (sph + ''.join(p for p in rng.sample(list(PH), 2) if p not in sph))[:max(2, len(sph) + 1)]
        else: tph = None
        tgt = gen_stream(rng, tpkg, tk, phases=tph, empty=rng.random() < 0.2)
        rounds = []
        for _ in range(rng.randrange(1, 4)):
            rounds.append({'op': rng.choice(['copy_like'] * 4 + ['set_data'] * 2 + ['copy_flow', 'imol.copy_like', 'imass.copy_like']), 'src': rng.randrange(2),
                           'writes': [gen_write(rng, rng.choice('aaab')) for _ in range(rng.randrange(0, 3))], 'rewarm': gen_warm(rng, 0.6)})
        tail = rng.choice([None, None, None, 'copy', 'copy', 'pickle'])
        return {'t': 'basis', 'sc': sc, 'tgt': with_units(rng, tgt), 'srcs': [with_units(rng, src, 0.15), src2], 'warm_t': gen_warm(rng), 'warm_s': gen_warm(rng, 0.5), 'rounds': rounds,
                'tail': tail, 'tail_writes': [gen_write(rng) for _ in range(rng.randrange(1, 3))] if tail else []}
    if sc == 'dup':
        k = rng.choice(['S', 'M', 'M', 'M1'])
        a = gen_stream(rng, rng.choice([0, 0, 1]), 'M', phases=rng.choice(PH)) if k == 'M1' else gen_stream(rng, rng.choice([0, 0, 1]), k)
        return {'t': 'basis', 'sc': sc, 'a': with_units(rng, a), 'warm_a': gen_warm(rng, 0.1), 'op': rng.choice(['copy', 'copy', 'copy.copy', 'pickle', 'pickle', 'proxy', 'flow_proxy']),
                'warm_b': gen_warm(rng, 0.4), 'writes': [gen_write(rng) for _ in range(rng.randrange(1, 5))]}
    k = rng.choice('SMM'); phs = ''.join(rng.sample(list(PH), rng.randrange(2, 4))) if k == 'M' else None
    return {'t': 'basis', 'sc': sc, 'a': with_units(rng, gen_stream(rng, 0, k, phases=phs)), 'b': with_units(rng, gen_stream(rng, 0, k, phases=phs)), 'd': gen_stream(rng, 0, k, phases=phs),
            'warm_a': gen_warm(rng), 'warm_b': gen_warm(rng, 0.1), 'flags': [rng.random() < 0.7, rng.random() < 0.6, rng.random() < 0.6],
            'writes': [gen_write(rng) for _ in range(rng.randrange(0, 3))], 'mid': rng.choice([None, 'a', 'b']), 'unlink': rng.choice('ab'),
            'writes2': [gen_write(rng) for _ in range(rng.randrange(1, 3))]}


RUNNERS = {'copy': run_copy, 'copy_like': run_copy_like, 'link': run_link, 'pickle': run_pickle,
           'linkseq': run_linkseq, 'copy2': run_copy2, 'copyflow': run_copyflow, 'linkkinds': run_linkkinds, 'pickle2': run_pickle2, 'copy_like2': run_copy_like2, 'basis': run_basis}


def run_case(case, rec):
    rec.begin_case(case)
    try:
        RUNNERS[case['t']](case, rec)
    except Exception as e:
        rec.exception('harness', e, what=f'harness error in {case["t"]}: {type(e).__name__}: {e}')


def replay(case, rec):
    run_case(case, rec)


def run(rec, rng, tier, shard, nshards):
    n = 4000 if tier == 'quick' else 40000
    for i in range(n):
        case = gen_case(rng)
        run_case(case, rec)
        if i % 301 == 0: rec.sample(case)
    # second stream of cases: drawn after the first so that the first stays identical
    n2 = 1800 if tier == 'quick' else 18000
    # every unpickled property package stays in the library's class-level caches (~0.6 MB each): the number of pickle2 cases per shard is bounded
    # (the case is still drawn, so the stream of the other cases does not depend on the bound)
    pk = 0; pk_max = 700
    for i in range(n2):
        case = gen_case2(rng)
        if case['t'] == 'pickle2':
            pk += 1
            if pk > pk_max: continue
        run_case(case, rec)
    # third stream of cases (flows on every basis), drawn after the second
    n3 = 800 if tier == 'quick' else 8000
    pk = 0; pk_max = 250      # same bound on unpickled property packages as above (the case is still drawn)
    for i in range(n3):
        case = gen_case3(rng)
        if case.get('op') == 'pickle' or case.get('tail') == 'pickle':
            pk += 1
            if pk > pk_max: continue
        run_case(case, rec)
        if i % 401 == 0: rec.sample(case)
