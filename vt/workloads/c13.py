"""C13 — copies are independent, links share what they advertise, pickles round-trip.

Monitor (StructureLedger): dense snapshots (class, phases, per-(phase,CAS) flows, T, P, price, CFs) of both objects are
taken after every step of copy / copy_like / link / unlink / proxy / mutate histories on real streams; sharing is decided
behaviourally (mutate one side, observe the other).
"""
import pickle
import numpy as np
import thermosteam as tmo
from vt.core import case_hash
from vt.common import thermo_of, build_stream, phase_ledger, stream_invariant

PID = 'C13'
RULE = ('(1) copy(): equal state, then 3-10 random mutations of either side leave the other snapshot bit-identical; (2) copy_like over the matrix source {Stream, MultiStream, MultiStream holding one phase} x '
        'target {Stream, MultiStream} x {same, other property package} x {target has / lacks the source phases, empty / stale target}; (3) proxy / flow_proxy / link_with(all flag subsets) / unlink sharing graph decided by '
        'mutating one side; (4) pickle round trips of Stream, MultiStream, Reaction, ParallelReaction, Chemical, Chemicals, Thermo incl. price and characterization factors. '
        'non-trivial = source holds >=2 non-zero flows; distinct = hash of the case')
MIN_NONTRIVIAL = {'quick': 500, 'thorough': 20000}
ASSUMPTIONS = ['class-changing conversions on one side of a link are excluded from sharing sequences (they replace the shared indexer by design; C12)',
               'copy_like target lists every chemical of the source']

PKGS = [('Water', 'Ethanol', 'Methanol', 'Octane', 'CO2'), ('CO2', 'Octane', 'Water', 'Methanol', 'Ethanol'), ('Ethanol', 'Water')]
PH = 'slgSL'


def required(tier):
    return ['copy-independent', 'copy_like', 'copy_like:multi-source', 'copy_like:one-phase-multi', 'copy_like:foreign', 'link', 'unlink', 'proxy', 'flow_proxy', 'pickle']


def snap(s):
    multi = isinstance(s, tmo.MultiStream)
    return {'cls': type(s).__name__, 'phases': tuple(s.phases) if multi else (s.phase,), 'flows': phase_ledger(s), 'T': s.T, 'P': s.P}


def same_snap(a, b, flows_only=False):
    if a['flows'] != b['flows']: return False
    if flows_only: return True
    return a['cls'] == b['cls'] and a['phases'] == b['phases'] and a['T'] == b['T'] and a['P'] == b['P']


def gflow(rng):
    return 0.0 if rng.random() < 0.3 else round(10 ** rng.uniform(-2, 3), 4)


def gen_stream(rng, pkg=0, kind=None, phases=None, empty=False):
    n = len(PKGS[pkg]); kind = kind or rng.choice('SM')
    T = round(rng.uniform(280, 380), 2); P = rng.choice([101325., 2e5, 5e4])
    if kind == 'S':
        return {'kind': 'S', 'pkg': pkg, 'phase': (phases or rng.choice(PH))[0], 'T': T, 'P': P, 'flows': [0.0] * n if empty else [gflow(rng) for _ in range(n)]}
    phs = phases or ''.join(rng.sample(list(PH), rng.randrange(2, 4)))
    return {'kind': 'M', 'pkg': pkg, 'phases': phs, 'T': T, 'P': P,
            'flows': {ph: ([0.0] * n if (empty or rng.random() < 0.25) else [gflow(rng) for _ in range(n)]) for ph in phs}}


def gen_mutations(rng, n):
    out = []
    for _ in range(n):
        m = rng.choice(['T', 'P', 'flow', 'flow', 'scale', 'empty', 'phase', 'mixself', 'imass'])
        side = rng.choice('ab')
        if m == 'T': out.append({'m': 'T', 'side': side, 'v': round(rng.uniform(285, 370), 2)})
        elif m == 'P': out.append({'m': 'P', 'side': side, 'v': rng.choice([5e4, 101325., 3e5])})
        elif m in ('flow', 'imass'): out.append({'m': m, 'side': side, 'i': rng.randrange(5), 'ph': rng.randrange(4), 'v': gflow(rng)})
        elif m == 'scale': out.append({'m': 'scale', 'side': side, 'v': rng.choice([0.5, 2.0, 3.0])})
        elif m == 'phase': out.append({'m': 'phase', 'side': side, 'v': rng.choice('lg')})
        else: out.append({'m': m, 'side': side})
    return out


def mutate(s, mu):
    ids = s.chemicals.IDs
    m = mu['m']
    multi = isinstance(s, tmo.MultiStream)
    if m == 'T': s.T = mu['v']
    elif m == 'P': s.P = mu['v']
    elif m == 'flow':
        i = ids[mu['i'] % len(ids)]
        if multi: s.imol[s.phases[mu['ph'] % len(s.phases)], i] = mu['v']
        else: s.imol[i] = mu['v']
    elif m == 'imass':
        i = ids[mu['i'] % len(ids)]
        if multi: s.imass[s.phases[mu['ph'] % len(s.phases)], i] = mu['v']
        else: s.imass[i] = mu['v']
    elif m == 'scale': s.scale(mu['v'])
    elif m == 'empty': s.empty()
    elif m == 'phase':
        if not multi: s.phase = mu['v']     # class-preserving only
    elif m == 'mixself':
        s.mix_from([s, s], energy_balance=False)


def run_copy(case, rec):
    a = build_stream(case['a'], PKGS)
    try:
        b = a.copy()
    except Exception as e:
        rec.exception('copy-independent', e, what=f'copy() raised {type(e).__name__}: {e}'); return
    rec.check(same_snap(snap(a), snap(b)) and b is not a, 'copy-independent', 'equal-state', f'copy differs from the original: {snap(a)} vs {snap(b)}')
    objs = {'a': a, 'b': b}
    for k, mu in enumerate(case['mut']):
        other = 'b' if mu['side'] == 'a' else 'a'
        before = snap(objs[other])
        try:
            mutate(objs[mu['side']], mu)
        except Exception as e:
            rec.exception('copy-independent', e, what=f'mutation {mu} on a copy raised {type(e).__name__}: {str(e)[:150]}'); return
        rec.check(same_snap(snap(objs[other]), before), 'copy-independent', f'visible/{mu["m"]}', f'mutation {mu} of one side of a copy changed the other: {before} -> {snap(objs[other])}')
        # mass view of the untouched side still equals mol*MW (no shared view cache)
        o = objs[other]
        rec.check(np.allclose(np.asarray(o.mass.to_array() if hasattr(o.mass, 'to_array') else o.mass, float), o.mol.to_array() * o.chemicals.MW, rtol=1e-12, atol=0),
                  'copy-independent', f'mass-view/{mu["m"]}', 'mass view of the untouched side no longer equals mol*MW')
    for s in (a, b):
        e = stream_invariant(s); rec.check(e is None, 'invariant', 'copy', f'sparse invariant: {e}')
    if len(snap(a)['flows']) + len(snap(b)['flows']) >= 2: rec.mark_nontrivial(case_hash(case))


def expected_after_copy_like(src_snap, tgt):
    """flows keyed by the label the target ends up using."""
    labels = set(tgt.phases) if isinstance(tgt, tmo.MultiStream) else {tgt.phase}
    out = {}
    for (ph, c), v in src_snap['flows'].items():
        lab = ph if ph in labels else (ph.lower() if ph.isupper() else ph.upper())
        out[(lab, c)] = out.get((lab, c), 0.0) + v
    return out


def run_copy_like(case, rec):
    s = build_stream(case['src'], PKGS); t = build_stream(case['tgt'], PKGS)
    ss = snap(s)
    foreign = s.chemicals is not t.chemicals
    one_phase_multi = isinstance(s, tmo.MultiStream) and len(s.phases) == 1
    tag = ('one-phase-multi' if one_phase_multi else ('multi' if isinstance(s, tmo.MultiStream) else 'single')) + '-source/' + \
          ('multi' if isinstance(t, tmo.MultiStream) else 'single') + '-target/' + ('foreign' if foreign else 'same') + '-package' + \
          ('/stale-target' if snap(t)['flows'] else '')
    try:
        t.copy_like(s)
    except Exception as e:
        rec.exception('copy_like', e, what=f'copy_like({tag}) raised {type(e).__name__}: {str(e)[:150]}'); return
    ts = snap(t)
    exp = expected_after_copy_like(ss, t)
    rec.check(ts['flows'] == exp, 'copy_like', f'flows/{tag}', f'copy_like: target flows {ts["flows"]} expected {exp}')
    rec.check(ts['T'] == ss['T'] and ts['P'] == ss['P'], 'copy_like', f'TP/{tag}', f'copy_like: target T,P = {ts["T"]},{ts["P"]} but source {ss["T"]},{ss["P"]}')
    # phases with content agree (a single-phase source gives its phase to a single-phase target)
    if not isinstance(s, tmo.MultiStream) and not isinstance(t, tmo.MultiStream):
        rec.check(t.phase == s.phase, 'copy_like', f'phase/{tag}', f'copy_like: target phase {t.phase} source phase {s.phase}')
    rec.check(same_snap(snap(s), ss), 'copy_like', f'source-changed/{tag}', 'copy_like changed its source')
    # independence afterwards
    before = snap(s)
    try:
        t.scale(2.0); t.T = t.T + 1.0
    except Exception as e:
        rec.exception('copy_like', e, what=f'mutating the target after copy_like raised {type(e).__name__}: {e}'); return
    rec.check(same_snap(snap(s), before), 'copy_like', f'not-independent/{tag}', 'mutating the target after copy_like changed the source')
    e = stream_invariant(t); rec.check(e is None, 'invariant', 'copy_like', f'sparse invariant: {e}')
    if isinstance(s, tmo.MultiStream): rec.hit('copy_like:multi-source')
    if one_phase_multi: rec.hit('copy_like:one-phase-multi')
    if foreign: rec.hit('copy_like:foreign')
    if len(ss['flows']) >= 2: rec.mark_nontrivial(case_hash(case))


def bycas(flows):
    out = {}
    for (ph, c), v in flows.items(): out[c] = out.get(c, 0.0) + v
    return out


def probe_sharing(a, b, rec, clause, expect, tag):
    """mutate a, observe b (and the reverse); expect = {'flow': bool, 'TP': bool, 'phase': bool}"""
    ids = a.chemicals.IDs
    multi = isinstance(a, tmo.MultiStream)
    for src, dst, d in ((a, b, 'ab'), (b, a, 'ba')):
        # flow
        before = snap(dst)
        v = (123.456 if d == 'ab' else 654.321) + sum(before['flows'].values())      # cannot coincide with a value the other side already holds
        if multi: src.imol[src.phases[0], ids[0]] = v
        else: src.imol[ids[0]] = v
        seen = bycas(snap(dst)['flows']) != bycas(before['flows'])
        rec.check(seen == expect['flow'], clause, f'flow-{"not-" if expect["flow"] else ""}shared/{tag}', f'flow write on one side {"not " if expect["flow"] else ""}visible on the other (expected shared={expect["flow"]})')
        if expect['flow']:
            rec.check(bycas(snap(dst)['flows']) == bycas(snap(src)['flows']) if not multi else snap(dst)['flows'] == snap(src)['flows'], clause, f'flow-differs/{tag}', 'flows differ although flow data is shared')
            # mass view consistent on both sides
            for x in (src, dst):
                mv = x.mass; mv = mv.to_array() if hasattr(mv, 'to_array') else np.asarray(mv)
                rec.check(np.allclose(mv, x.mol.to_array() * x.chemicals.MW, rtol=1e-12, atol=0), clause, f'mass-view/{tag}', 'mass view != mol*MW on a linked stream')
        # TP
        T0 = dst.T; newT = max(src.T, dst.T) + (3.25 if d == 'ab' else 1.75)      # differs from both current values: dst.T == newT iff T is shared
        src.T = newT
        rec.check((dst.T == newT) == expect['TP'], clause, f'T-{"not-" if expect["TP"] else ""}shared/{tag}', f'T write {"not " if expect["TP"] else ""}visible on the other side (expected shared={expect["TP"]})')
        P0 = dst.P; newP = max(src.P, dst.P) + (1000. if d == 'ab' else 500.)
        src.P = newP
        rec.check((dst.P == newP) == expect['TP'], clause, f'P-{"not-" if expect["TP"] else ""}shared/{tag}', f'P write {"not " if expect["TP"] else ""}visible on the other side')
        # phase (single-phase only)
        if not multi:
            newph = 'g' if src.phase != 'g' else 'l'
            dst_before = dst.phase
            src.phase = newph
            rec.check((dst.phase == newph and (dst_before != newph or expect['phase'])) == expect['phase'] or (dst_before == newph and not expect['phase']), clause,
                      f'phase-{"not-" if expect["phase"] else ""}shared/{tag}', f'phase write {"not " if expect["phase"] else ""}visible on the other side')


def run_link(case, rec):
    a = build_stream(case['a'], PKGS); b = build_stream(case['b'], PKGS)
    how = case['how']
    multi = isinstance(a, tmo.MultiStream)
    try:
        if how == 'proxy': b = a.proxy(); expect = {'flow': True, 'TP': True, 'phase': True}; clause = 'proxy'
        elif how == 'flow_proxy': b = a.flow_proxy(); expect = {'flow': True, 'TP': False, 'phase': False}; clause = 'flow_proxy'
        else:
            f = case['flags']
            b.link_with(a, flow=f[0], phase=f[1], TP=f[2])
            expect = {'flow': f[0], 'TP': f[2], 'phase': f[1]}; clause = 'link'
    except Exception as e:
        rec.exception(case['how'], e, what=f'{how} raised {type(e).__name__}: {str(e)[:150]}'); return
    tag = ('multi' if multi else 'single') + '/' + how + ('' if how != 'link' else '/' + ''.join('FPT'[i] if x else '-' for i, x in enumerate(case['flags'])))
    # values right after linking: linked parts equal
    sa, sb = snap(a), snap(b)
    if expect['flow']: rec.check(bycas(sa['flows']) == bycas(sb['flows']) if not multi else sa['flows'] == sb['flows'], clause, f'values/{tag}', 'flows differ right after linking')
    if expect['TP']: rec.check(sa['T'] == sb['T'] and sa['P'] == sb['P'], clause, f'values/{tag}', 'T,P differ right after linking')
    try:
        probe_sharing(a, b, rec, clause, expect, tag)
    except Exception as e:
        rec.exception(clause, e, what=f'probing sharing after {tag} raised {type(e).__name__}: {str(e)[:150]}'); return
    # unlink: values preserved, nothing shared any more (locked phases refuse)
    before = snap(b)
    try:
        b.unlink()
    except RuntimeError as e:
        if 'locked' in str(e): rec.refuse('unlink refused: locked phase'); return
        rec.exception('unlink', e, what=f'unlink raised {e}'); return
    except Exception as e:
        rec.exception('unlink', e, what=f'unlink after {tag} raised {type(e).__name__}: {str(e)[:150]}'); return
    rec.check(same_snap(snap(b), before), 'unlink', f'values/{tag}', f'unlink changed the values: {before} -> {snap(b)}')
    try:
        probe_sharing(a, b, rec, 'unlink', {'flow': False, 'TP': False, 'phase': False}, 'after-' + tag)
        # each side's mass view reflects its own flows
        for x in (a, b):
            mv = x.mass; mv = mv.to_array() if hasattr(mv, 'to_array') else np.asarray(mv)
            rec.check(np.allclose(mv, x.mol.to_array() * x.chemicals.MW, rtol=1e-12, atol=0), 'unlink', f'mass-view/after-{how}', f'after unlink the mass view of a stream is not its own mol*MW: {mv.tolist()} vs {(x.mol.to_array() * x.chemicals.MW).tolist()}')
    except Exception as e:
        rec.exception('unlink', e, what=f'probing after unlink ({tag}) raised {type(e).__name__}: {str(e)[:150]}'); return
    if len(sa['flows']) >= 2: rec.mark_nontrivial(case_hash(case))


def run_pickle(case, rec):
    what = case['what']
    th = thermo_of(PKGS[0])
    try:
        if what in ('Stream', 'MultiStream'):
            d = case['s']
            cf = {'GWP': 1.5, 'FEC': 0.25}
            if what == 'Stream':
                s = tmo.Stream(None, phase=d['phase'], T=d['T'], P=d['P'], thermo=th, price=case['price'], characterization_factors=dict(cf),
                               **{i: v for i, v in zip(PKGS[0], d['flows']) if v})
            else:
                s = tmo.MultiStream(None, phases=tuple(d['phases']), T=d['T'], P=d['P'], thermo=th, price=case['price'], characterization_factors=dict(cf),
                                    **{ph: [(i, v) for i, v in zip(PKGS[0], row) if v] for ph, row in d['flows'].items() if any(row)})
            rec.check(s.price == case['price'], 'pickle', f'ctor-price/{what}', f'constructor dropped price: {s.price} != {case["price"]}')
            rec.check(s.characterization_factors == cf, 'pickle', f'ctor-CFs/{what}', f'constructor dropped characterization_factors: {s.characterization_factors} != {cf}')
            r = pickle.loads(pickle.dumps(s))
            rec.check(same_snap(snap(r), snap(s)), 'pickle', f'state/{what}', f'pickled {what} differs: {snap(s)} -> {snap(r)}')
            rec.check(r.price == case['price'], 'pickle', f'price/{what}', f'pickle lost price: {r.price} != {case["price"]}')
            rec.check(r.characterization_factors == cf, 'pickle', f'CFs/{what}', f'pickle lost characterization factors given at construction: {r.characterization_factors} != {cf}')
            rec.check(r.chemicals.IDs == s.chemicals.IDs, 'pickle', f'chemicals/{what}', 'pickle changed the chemicals')
            if len(snap(s)['flows']) >= 2: rec.mark_nontrivial(case_hash(case))
        elif what in ('Reaction', 'ParallelReaction'):
            r1 = tmo.Reaction('Ethanol + Water -> Methanol + CO2', reactant='Ethanol', X=case['X'], chemicals=th.chemicals, basis=case['basis'])
            r2 = tmo.Reaction({'Methanol': -1, 'Octane': 0.5}, reactant='Methanol', X=0.3, chemicals=th.chemicals, basis=case['basis'])
            obj = r1 if what == 'Reaction' else tmo.ParallelReaction([r1, r2])
            r = pickle.loads(pickle.dumps(obj))
            st0 = obj._stoichiometry; st1 = r._stoichiometry
            eq = (all(np.array_equal(x.to_array(), y.to_array()) for x, y in zip(st0, st1)) if isinstance(st0, list) else np.array_equal(st0.to_array(), st1.to_array()))
            rec.check(eq and np.array_equal(np.asarray(obj.X), np.asarray(r.X)) and r._basis == obj._basis and repr(r._reactant_index) == repr(obj._reactant_index) and r.chemicals.IDs == obj.chemicals.IDs,
                      'pickle', f'state/{what}', f'pickled {what} differs')
            rec.mark_nontrivial(case_hash(case))
        elif what == 'Chemical':
            c = tmo.Chemical(case['chem'], cache=False)
            r = pickle.loads(pickle.dumps(c))
            vals0 = (c.ID, c.CAS, c.MW, c.Tb, c.Tm, c.Hf, c.formula, c.phase_ref, c.H('l', 330., 101325.), c.Cn('g', 400.), c.V('l', 300., 101325.), c.Psat(330.))
            vals1 = (r.ID, r.CAS, r.MW, r.Tb, r.Tm, r.Hf, r.formula, r.phase_ref, r.H('l', 330., 101325.), r.Cn('g', 400.), r.V('l', 300., 101325.), r.Psat(330.))
            rec.check(vals0 == vals1, 'pickle', 'state/Chemical', f'pickled Chemical differs: {vals0} vs {vals1}')
            rec.mark_nontrivial(case_hash(case))
        else:
            obj = th.chemicals if what == 'Chemicals' else th
            r = pickle.loads(pickle.dumps(obj))
            ch = r if what == 'Chemicals' else r.chemicals
            rec.check(ch.IDs == th.chemicals.IDs and np.array_equal(ch.MW, th.chemicals.MW) and ch.index('CO2') == th.chemicals.index('CO2'), 'pickle', f'state/{what}', f'pickled {what} differs')
            if what == 'Thermo':
                s = tmo.Stream(None, Water=1, Ethanol=2, T=330, thermo=r); s0 = tmo.Stream(None, Water=1, Ethanol=2, T=330, thermo=th)
                rec.check(s.H == s0.H and s.rho == s0.rho, 'pickle', 'state/Thermo-properties', 'stream on a pickled Thermo has other H/rho')
            rec.mark_nontrivial(case_hash(case))
    except Exception as e:
        rec.exception('pickle', e, what=f'pickle round trip of {what} raised {type(e).__name__}: {str(e)[:150]}')


def gen_case(rng):
    t = rng.choices(['copy', 'copy_like', 'link', 'pickle'], [3, 4, 4, 1])[0]
    if t == 'copy':
        return {'t': 'copy', 'a': gen_stream(rng), 'mut': gen_mutations(rng, rng.randrange(3, 11))}
    if t == 'copy_like':
        sk = rng.choice(['S', 'M', 'M1'])
        spkg = rng.choice([0, 0, 1, 2])
        if sk == 'M1': src = gen_stream(rng, spkg, 'M', phases=rng.choice(PH))
        else: src = gen_stream(rng, spkg, sk)
        tk = rng.choice('SM')
        tpkg = rng.choice([0, 1])   # both list every chemical
        stale = rng.random() < 0.5
        sph = src['phases'] if src['kind'] == 'M' else src['phase']
        if rng.random() < 0.5:
            tph = sph if tk == 'M' and len(sph) >= 2 else (sph[0] if tk == 'S' else sph + rng.choice([p for p in PH if p not in sph]))
        else:
            tph = None
        tgt = gen_stream(rng, tpkg, tk, phases=tph, empty=not stale)
        return {'t': 'copy_like', 'src': src, 'tgt': tgt}
    if t == 'link':
        kind = rng.choice('SM')
        phs = ''.join(rng.sample(list(PH), rng.randrange(2, 4))) if kind == 'M' else None
        a = gen_stream(rng, 0, kind, phases=phs); b = gen_stream(rng, 0, kind, phases=phs)
        how = rng.choice(['proxy', 'flow_proxy', 'link', 'link', 'link'])
        return {'t': 'link', 'a': a, 'b': b, 'how': how, 'flags': [rng.random() < 0.6, rng.random() < 0.6, rng.random() < 0.6]}
    what = rng.choice(['Stream', 'MultiStream', 'Stream', 'MultiStream', 'Reaction', 'ParallelReaction', 'Chemical', 'Chemicals', 'Thermo'])
    c = {'t': 'pickle', 'what': what, 'price': round(rng.uniform(0.01, 5), 3), 'X': round(rng.random(), 3), 'basis': rng.choice(['mol', 'wt']), 'chem': rng.choice(['Water', 'Ethanol', 'Octane'])}
    if what == 'Stream': c['s'] = gen_stream(rng, 0, 'S', phases=rng.choice('lg'))
    if what == 'MultiStream': c['s'] = gen_stream(rng, 0, 'M', phases=rng.choice(['lg', 'lgs', 'Ll']))
    return c


RUNNERS = {'copy': run_copy, 'copy_like': run_copy_like, 'link': run_link, 'pickle': run_pickle}


def run_case(case, rec):
    rec.begin_case(case)
    try:
        RUNNERS[case['t']](case, rec)
    except Exception as e:
        rec.exception('harness', e, what=f'harness error in {case["t"]}: {type(e).__name__}: {e}')


def replay(case, rec):
    run_case(case, rec)


def run(rec, rng, tier, shard, nshards):
    n = 4000 if tier == 'quick' else 40000
    for i in range(n):
        case = gen_case(rng)
        run_case(case, rec)
        if i % 301 == 0: rec.sample(case)
