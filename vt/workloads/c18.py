"""C18 — flowsheet connections stay mutually consistent under every rewiring operation.

Monitor: after every rewiring operation on real AbstractUnit / AbstractStream objects the full port relation is
walked and the PortGraph invariant asserted, plus the operation's own postcondition.  Workloads: bounded exhaustive
enumeration of operation sequences over a 3-unit / 5-stream universe and seeded random histories over larger ones.
"""
import itertools, warnings
import thermosteam as tmo
from thermosteam.network import AbstractStream, AbstractMissingStream, AbstractUnit
from vt.core import case_hash

PID = 'C18'
RULE = ('(1) bounded exhaustive: every sequence of enabled concrete operations (operation x unit x side x index x stream, preconditions of the property filtered on the live state) '
        'up to depth 2 (quick) / 3 (thorough, sharded) over the universe {A: 2->1 fixed, B: 1->2 variable outs, C: 2->2 variable ins} with five streams; '
        '(2) random histories of <=50 operations over 3-8 units with mixed fixed/variable port counts incl. construction with ins/outs, slices, extend, replace, pipes, '
        'unit.disconnect/insert/take_place_of/replace_with, Connection.reconnect, placeholders. non-trivial = at least one real stream docked at two units during the history and '
        '>=2 effective operations; distinct = hash of the operation sequence')
MIN_NONTRIVIAL = {'quick': 1000, 'thorough': 100000}
ASSUMPTIONS = ['operations are used within the preconditions listed in the property (checked by the harness on the live state before each call)',
               'AbstractUnit subclasses with no _run are sufficient: only the connection graph is exercised']


def required(tier):
    return ['op:set', 'op:set-move', 'op:slice', 'op:append', 'op:insert', 'op:extend', 'op:pop', 'op:remove', 'op:replace', 'op:clear', 'op:empty',
            'op:disconnect_source', 'op:disconnect_sink', 'op:unit.disconnect', 'op:unit.disconnect-join', 'op:unit.insert', 'op:take_place_of', 'op:replace_with',
            'op:reconnect', 'op:pipe-in', 'op:pipe-out', 'op:unit-unit', 'op:streams-unit', 'op:construct', 'op:placeholder', 'exhaustive']


_classes = {}


def unit_class(nin, nout, fin, fout):
    key = (nin, nout, fin, fout)
    c = _classes.get(key)
    if c is None:
        c = type(f'U{nin}{nout}{"f" if fin else "v"}{"f" if fout else "v"}', (AbstractUnit,),
                 dict(_N_ins=nin, _N_outs=nout, _ins_size_is_fixed=fin, _outs_size_is_fixed=fout))
        _classes[key] = c
    return c


class Universe:
    def __init__(self, configs, nstreams):
        self.units = [unit_class(*c)(None) for c in configs]
        for k, u in enumerate(self.units): u._ID = f'u{k}'
        self.streams = []
        for k in range(nstreams):
            s = AbstractStream(None); s._ID = f's{k}'
            self.streams.append(s)
        self.connections = []
        self.seen_double = False

    def seq(self, u, side):
        unit = self.units[u]
        return unit.ins if side == 'in' else unit.outs

    def attr(self, side):
        return '_sink' if side == 'in' else '_source'

    def resolve(self, ref):
        if ref is None: return None
        if ref[0] == 's': return self.streams[ref[1]]
        if ref[0] == 'p':
            seq = self.seq(ref[1], ref[2])
            return seq[ref[3]] if ref[3] < len(seq) else None
        raise ValueError(ref)


def is_real(s): return isinstance(s, AbstractStream)


def check(U):
    """PortGraph invariant over the whole universe; returns list of error strings."""
    errs = []
    everything = set(U.streams)
    for u in U.units:
        for side, seq, attr, other in (('ins', u.ins, '_sink', '_source'), ('outs', u.outs, '_source', '_sink')):
            items = list(seq)
            real = [s for s in items if is_real(s)]
            everything |= set(real)
            if len(set(map(id, real))) != len(real): errs.append(f'{u.ID}.{side} lists a stream twice')
            for s in real:
                if getattr(s, attr) is not u: errs.append(f'{u.ID}.{side} lists {s.ID} but its {attr[1:]} is {getattr(getattr(s, attr), "ID", None)}')
            if seq._fixed_size and len(items) != seq._size: errs.append(f'{u.ID}.{side} fixed size {seq._size} but holds {len(items)}')
            for s in items:
                if not is_real(s):
                    if not isinstance(s, AbstractMissingStream): errs.append(f'{u.ID}.{side} holds a {type(s).__name__}')
                    elif bool(s): errs.append(f'{u.ID}.{side} placeholder is truthy')
                    elif getattr(s, attr) is not u: errs.append(f'{u.ID}.{side} placeholder points at {getattr(getattr(s, attr), "ID", None)}')
    for s in everything:
        if s._sink is not None and not any(x is s for x in s._sink.ins): errs.append(f'{s.ID} has sink {s._sink.ID} but is not among its inlets')
        if s._source is not None and not any(x is s for x in s._source.outs): errs.append(f'{s.ID} has source {s._source.ID} but is not among its outlets')
        if s._sink is not None and s._source is not None: U.seen_double = True
    # no real stream at two ports of the same side
    for attr, side in (('_sink', 'ins'), ('_source', 'outs')):
        seen = {}
        for u in U.units:
            for s in getattr(u, side):
                if is_real(s):
                    if id(s) in seen and seen[id(s)] is not u: errs.append(f'{s.ID} occupies {side} ports of {seen[id(s)].ID} and {u.ID}')
                    seen[id(s)] = u
    return errs

# ---------------------------------------------------------------------------
# operations: precondition(U, op) on the live state, execute(U, op) -> postcondition error or None

def docked(s, side):
    return getattr(s, '_sink' if side == 'in' else '_source') is not None


def pre(U, op):
    o = op['op']
    nu = len(U.units)
    if ('u' in op and op['u'] >= nu) or ('v' in op and op['v'] >= nu): return False
    for k in ('s',):
        if k in op and op[k] is not None and op[k][0] == 'p' and op[k][1] >= nu: return False
    for k in ('ss', 'ins', 'outs'):
        if k in op and any(r is not None and r[0] == 'p' and r[1] >= nu for r in op[k]): return False
    return _pre(U, op)


def _pre(U, op):
    o = op['op']
    if o == 'set':
        seq = U.seq(op['u'], op['side']); s = U.resolve(op['s'])
        if op['i'] > len(seq) or (op['i'] == len(seq) and seq._fixed_size): return False
        if s is not None and any(x is s for x in seq): return False
        if s is not None and not is_real(s): return False
        return True
    if o == 'slice':
        seq = U.seq(op['u'], op['side']); ss = [U.resolve(r) for r in op['ss']]
        if any(x is not None and any(y is x for y in seq) for x in ss): return False
        real = [x for x in ss if x is not None]
        if len(set(map(id, real))) != len(real) or not all(is_real(x) for x in real): return False
        n = len(seq); a, b = op['a'], op['b']
        a = 0 if a is None else min(a, n); b = n if b is None else min(b, n)
        if b < a: return False
        if seq._fixed_size and n - (b - a) + len(ss) > seq._size: return False
        return True
    if o in ('append', 'insert'):
        seq = U.seq(op['u'], op['side']); s = U.resolve(op['s'])
        return (not seq._fixed_size) and s is not None and is_real(s) and not docked(s, op['side']) and (o == 'append' or op['i'] <= len(seq))
    if o == 'extend':
        seq = U.seq(op['u'], op['side']); ss = [U.resolve(r) for r in op['ss']]
        return (not seq._fixed_size) and all(s is not None and is_real(s) and not docked(s, op['side']) for s in ss) and len(set(map(id, ss))) == len(ss)
    if o == 'pop':
        return op['i'] < len(U.seq(op['u'], op['side']))
    if o == 'remove':
        seq = U.seq(op['u'], op['side']); return op['i'] < len(seq)
    if o == 'replace':
        seq = U.seq(op['u'], op['side']); s = U.resolve(op['s'])
        return op['i'] < len(seq) and s is not None and is_real(s) and not any(x is s for x in seq)
    if o in ('clear', 'empty'): return True
    if o in ('disconnect_source', 'disconnect_sink', 'disconnect'):
        return U.resolve(op['s']) is not None
    if o == 'unit.disconnect':
        u = U.units[op['u']]
        if op.get('join'):
            ins = [i for i in u.ins if i]; outs = [x for x in u.outs if x]
            if len(ins) != len(outs): return False
            # joining replaces the outlet in its sink's inlets by the inlet: the inlet must not already be there
            for i, x in zip(ins, outs):
                if x.sink and any(y is i for y in x.sink.ins): return False
                if x.sink is u: return False
        return True
    if o == 'unit.insert':
        u = U.units[op['u']]; s = U.resolve(op['s'])
        if s is None or not is_real(s) or not s.source or not s.sink or s.source is u or s.sink is u: return False
        if op.get('explicit'):
            if op['inlet'] >= len(u.ins) or op['outlet'] >= len(u.outs): return False
            i, x = u.ins[op['inlet']], u.outs[op['outlet']]
            if (is_real(i) and i.source is not None) or any(y is i for y in s.source.outs): return False
            if (is_real(x) and x.sink is not None) or any(y is x for y in s.sink.ins): return False
            if i is x: return False
            return True
        if (u._N_ins == 1 and len(u.ins) < 1) or (u._N_outs == 1 and u._outs_size_is_fixed and len(u.outs) < 1): return False
        if u._outs_size_is_fixed:
            if u._N_outs != 1: return False
            x = u.outs[0]
            if (is_real(x) and x.sink is not None) or any(y is x for y in s.sink.ins): return False
            if u._ins_size_is_fixed:
                if u._N_ins != 1: return False
                i = u.ins[0]
                if (is_real(i) and i.source is not None) or any(y is i for y in s.source.outs): return False
            return True
        else:
            if u._N_ins != 1: return False
            i = u.ins[0]
            if (is_real(i) and i.source is not None) or any(y is i for y in s.source.outs): return False
            return True
    if o in ('take_place_of', 'replace_with'):
        a, b = U.units[op['u']], U.units[op['v']]
        if a is b: return False
        dst, src = (a, b) if o == 'take_place_of' else (b, a)
        for side in ('ins', 'outs'):
            d, s = getattr(dst, side), getattr(src, side)
            if d._fixed_size and len(s) > d._size: return False
            if any(is_real(x) and any(y is x for y in d) for x in s): return False
        return True
    if o == 'replace_with_none':
        u = U.units[op['u']]
        for i, x in zip(tuple(u.ins), tuple(u.outs)):
            if not is_real(i) and not is_real(x): continue
            src = i.source if is_real(i) or isinstance(i, AbstractMissingStream) else None
            if src:
                if is_real(x) and any(y is x for y in src.outs): return False
                if src is u: return False
            else:
                snk = x.sink
                if snk:
                    if is_real(i) and any(y is i for y in snk.ins): return False
                    if snk is u: return False
        return True
    if o == 'reconnect':
        return op['k'] < len(U.connections)
    if o == 'record':
        s = U.resolve(op['s']); return s is not None and is_real(s)
    if o == 'pipe-in' or o == 'pipe-out':
        side = 'in' if o == 'pipe-in' else 'out'
        seq = U.seq(op['u'], side); s = U.resolve(op['s'])
        if s is None or not is_real(s) or any(x is s for x in seq): return False
        return op['i'] < len(seq) or (op['i'] == len(seq) and not seq._fixed_size)
    if o == 'unit-unit':
        a, b = U.units[op['u']], U.units[op['v']]
        if a is b: return False
        if b.ins._fixed_size and len(a.outs) > b.ins._size: return False
        return not any(is_real(x) and any(y is x for y in b.ins) for x in a.outs)
    if o == 'streams-unit':
        u = U.units[op['u']]; ss = [U.resolve(r) for r in op['ss']]
        side = op['side']; seq = U.seq(op['u'], side)
        if any(s is None or not is_real(s) for s in ss) or len(set(map(id, ss))) != len(ss): return False
        if seq._fixed_size and len(ss) > seq._size: return False
        return not any(any(y is x for y in seq) for x in ss)
    if o == 'construct':
        ins = [U.resolve(r) for r in op['ins']]; outs = [U.resolve(r) for r in op['outs']]
        nin, nout, fin, fout = op['cfg']
        real = [x for x in ins + outs if x is not None]
        if not all(is_real(x) for x in real): return False
        if len(set(map(id, [x for x in ins if x is not None]))) != len([x for x in ins if x is not None]): return False
        if len(set(map(id, [x for x in outs if x is not None]))) != len([x for x in outs if x is not None]): return False
        if fin and len(ins) > nin: return False
        if fout and len(outs) > nout: return False
        if fin and any(x is None for x in ins): return False      # fixed-size construction takes streams, not None
        if fout and any(x is None for x in outs): return False
        return True
    raise ValueError(o)


def execute(U, op):
    """runs the real operation; returns an operation-specific postcondition error string or None."""
    o = op['op']
    if o == 'set':
        seq = U.seq(op['u'], op['side']); s = U.resolve(op['s']); i = op['i']
        old = seq[i] if i < len(seq) else None
        seq[i] = s
        if s is not None and seq[i] is not s: return 'assigned stream is not at the port'
        if s is None and bool(seq[i]): return 'assigning None did not leave a placeholder'
        if is_real(old) and old is not s and docked(old, op['side']) and getattr(old, U.attr(op['side'])) is U.units[op['u']]: return 'replaced stream still docked at this unit'
        return None
    if o == 'slice':
        seq = U.seq(op['u'], op['side']); ss = [U.resolve(r) for r in op['ss']]
        seq[slice(op['a'], op['b'])] = ss
        for s in ss:
            if s is not None and not any(x is s for x in seq): return 'slice-assigned stream missing from the list'
        return None
    if o == 'append':
        seq = U.seq(op['u'], op['side']); s = U.resolve(op['s']); seq.append(s)
        return None if seq[len(seq) - 1] is s else 'appended stream is not last'
    if o == 'insert':
        seq = U.seq(op['u'], op['side']); s = U.resolve(op['s']); seq.insert(op['i'], s)
        return None if seq[op['i']] is s else 'inserted stream is not at the index'
    if o == 'extend':
        seq = U.seq(op['u'], op['side']); ss = [U.resolve(r) for r in op['ss']]; seq.extend(ss)
        return None if all(any(x is s for x in seq) for s in ss) else 'extended stream missing'
    if o == 'pop':
        seq = U.seq(op['u'], op['side']); expect = seq[op['i']]; n = len(seq)
        got = seq.pop(op['i'])
        if got is not expect: return 'pop returned another stream'
        if any(x is got for x in seq) and is_real(got): return 'popped stream still listed'
        if seq._fixed_size and len(seq) != n: return 'fixed-size list changed length on pop'
        if not seq._fixed_size and len(seq) != n - 1: return 'variable-size list did not shrink on pop'
        return None
    if o == 'remove':
        seq = U.seq(op['u'], op['side']); s = seq[op['i']]
        seq.remove(s)
        return 'removed stream still listed' if any(x is s for x in seq) else None
    if o == 'replace':
        seq = U.seq(op['u'], op['side']); old = seq[op['i']]; s = U.resolve(op['s'])
        seq.replace(old, s)
        return None if seq[op['i']] is s else 'replace did not put the new stream at the old position'
    if o == 'clear':
        seq = U.seq(op['u'], op['side']); old = [x for x in seq if is_real(x)]
        seq.clear()
        if any(is_real(x) for x in seq): return 'clear left real streams'
        return None
    if o == 'empty':
        seq = U.seq(op['u'], op['side']); seq.empty()
        return 'empty left real streams' if any(is_real(x) for x in seq) else None
    if o in ('disconnect_source', 'disconnect_sink', 'disconnect'):
        s = U.resolve(op['s'])
        getattr(s, o)()
        if is_real(s):
            if o in ('disconnect_source', 'disconnect') and s._source is not None: return 'stream still has a source after disconnect_source'
            if o in ('disconnect_sink', 'disconnect') and s._sink is not None: return 'stream still has a sink after disconnect_sink'
        return None
    if o == 'unit.disconnect':
        u = U.units[op['u']]
        kw = {}
        if op.get('join'): kw['join_ends'] = True
        if op.get('inlets') is not None:
            kw['inlets'] = [i for i in op['inlets'] if i < len(u.ins)]; kw['outlets'] = [i for i in op.get('outlets', []) if i < len(u.outs)]
            if op.get('as_streams'):
                kw['inlets'] = [u.ins[i] for i in kw['inlets'] if is_real(u.ins[i])]; kw['outlets'] = [u.outs[i] for i in kw['outlets'] if is_real(u.outs[i])]
            chosen_in = [u.ins[i] if isinstance(i, int) else i for i in kw['inlets']]
            chosen_out = [u.outs[i] if isinstance(i, int) else i for i in kw['outlets']]
        u.disconnect(**kw)
        if op.get('inlets') is not None:
            for x in chosen_in:
                if is_real(x) and any(y is x for y in u.ins): return 'unit.disconnect(inlets=...) left a chosen inlet docked'
            for x in chosen_out:
                if is_real(x) and any(y is x for y in u.outs): return 'unit.disconnect(outlets=...) left a chosen outlet docked'
        if 'inlets' not in kw and (any(is_real(x) for x in u.ins) or any(is_real(x) for x in u.outs)): return 'unit.disconnect left real streams docked'
        return None
    if o == 'unit.insert':
        u = U.units[op['u']]; s = U.resolve(op['s'])
        src, snk = s.source, s.sink
        if op.get('explicit'): u.insert(s, inlet=op['inlet'], outlet=op['outlet'])
        else: u.insert(s)
        # the unit now sits in the line: src -> u -> snk
        if not any(x.source is src for x in u.ins): return 'after insert no inlet of the unit comes from the old source'
        if not any(x.sink is snk for x in u.outs): return 'after insert no outlet of the unit goes to the old sink'
        return None
    if o == 'take_place_of':
        U.units[op['u']].take_place_of(U.units[op['v']]); return None
    if o == 'replace_with':
        U.units[op['u']].replace_with(U.units[op['v']]); return None
    if o == 'replace_with_none':
        U.units[op['u']].replace_with(); return None
    if o == 'record':
        U.connections.append(U.resolve(op['s']).get_connection()); return None
    if o == 'reconnect':
        c = U.connections[op['k']]
        # precondition (b) for the two assignments reconnect performs
        if c.source and c.source_index is not None and c.source_index >= 0:
            if c.source_index >= len(c.source.outs) and c.source.outs._fixed_size: return None
            if any(x is c.stream for j, x in enumerate(c.source.outs) if j != c.source_index): return None
        if c.sink and c.sink_index is not None and c.sink_index >= 0:
            if c.sink_index >= len(c.sink.ins) and c.sink.ins._fixed_size: return None
            if any(x is c.stream for j, x in enumerate(c.sink.ins) if j != c.sink_index): return None
        if (c.source and (c.source_index is None or c.source_index < 0)) or (c.sink and (c.sink_index is None or c.sink_index < 0)): return None
        if c.source and c.source_index > len(c.source.outs): return None
        if c.sink and c.sink_index > len(c.sink.ins): return None
        if c.source and c.source_index < len(c.source.outs) and c.source.outs[c.source_index] is c.stream: pass
        c.reconnect()
        s = c.stream
        if s.source is not c.source or s.sink is not c.sink: return 'reconnect did not restore source/sink'
        return None
    if o == 'pipe-in':
        u = U.units[op['u']]; s = U.resolve(op['s'])
        r = s - op['i'] - u
        return None if (r is u and u.ins[op['i']] is s) else 'inlet pipe did not connect'
    if o == 'pipe-out':
        u = U.units[op['u']]; s = U.resolve(op['s'])
        r = u ** op['i'] ** s
        return None if u.outs[op['i']] is s else 'outlet pipe did not connect'
    if o == 'unit-unit':
        a, b = U.units[op['u']], U.units[op['v']]
        a - b
        return None
    if o == 'streams-unit':
        u = U.units[op['u']]; ss = [U.resolve(r) for r in op['ss']]
        if op['side'] == 'in': tuple(ss) - u
        else: u - tuple(ss)
        return None if all(any(x is s for x in U.seq(op['u'], op['side'])) for s in ss) else 'piped streams missing'
    if o == 'construct':
        ins = [U.resolve(r) for r in op['ins']]; outs = [U.resolve(r) for r in op['outs']]
        cls = unit_class(*op['cfg'])
        u = cls(None, ins=ins if ins else None, outs=outs if outs else ())
        u._ID = f'u{len(U.units)}'
        U.units.append(u)
        for s in [x for x in ins if x is not None]:
            if not any(y is s for y in u.ins): return 'constructed unit does not list a given inlet'
        for s in [x for x in outs if x is not None]:
            if not any(y is s for y in u.outs): return 'constructed unit does not list a given outlet'
        return None
    raise ValueError(o)


def mech(op):
    o = op['op']
    if o in ('set', 'slice', 'append', 'insert', 'extend', 'pop', 'remove', 'replace', 'clear', 'empty'):
        return o
    return o


def run_sequence(U, ops, rec, clause, case):
    """executes ops on the live universe, checking after each; returns number of effective operations."""
    n_eff = 0
    for k, op in enumerate(ops):
        if not pre(U, op):
            continue
        o = op['op']
        seq = U.seq(op['u'], op['side']) if 'side' in op and 'u' in op else None
        variant = ''
        if seq is not None: variant = '/fixed' if seq._fixed_size else '/variable'
        if o == 'unit.insert':
            u = U.units[op['u']]; variant = '/variable-outs' if not u._outs_size_is_fixed else ('/explicit' if op.get('explicit') else '/fixed')
        if o == 'unit.disconnect': variant = '/join' if op.get('join') else ('/partial' if op.get('inlets') is not None else '')
        try:
            with warnings.catch_warnings():
                warnings.simplefilter('ignore')
                post = execute(U, op)
        except Exception as e:
            rec.exception(f'{clause}', e, case=case, what=f'step {k} {op} raised {type(e).__name__}: {str(e)[:150]}')
            rec.violations  # noqa
            return n_eff, False
        n_eff += 1
        name = 'op:' + o
        rec.hit(name)
        if o == 'set':
            s = U.resolve(op['s'])
        if o == 'unit.disconnect' and op.get('join'): rec.hit('op:unit.disconnect-join')
        if op.get('moves'): rec.hit('op:set-move')
        if op.get('placeholder'): rec.hit('op:placeholder')
        errs = check(U)
        if post: errs = [post] + errs
        if errs:
            rec.violation(f'C18/{clause}/{o}{variant}', f'after step {k} {op}: {errs[:3]}', detail={'errors': errs[:8], 'step': k}, case=case)
            return n_eff, False
        rec.ok(clause)
    return n_eff, True

# ---------------------------------------------------------------------------
# bounded exhaustive part

EXH_CONFIGS = [(2, 1, True, True), (1, 2, True, False), (2, 2, False, True)]


def enabled_ops(U):
    ops = []
    nu = len(U.units); ns = len(U.streams)
    srefs = [('s', k) for k in range(ns)]
    for u in range(nu):
        for side in ('in', 'out'):
            seq = U.seq(u, side)
            n = len(seq)
            for i in range(n):
                for r in srefs + [None]:
                    ops.append({'op': 'set', 'u': u, 'side': side, 'i': i, 's': r})
                ops.append({'op': 'pop', 'u': u, 'side': side, 'i': i})
                if is_real(seq[i]): ops.append({'op': 'remove', 'u': u, 'side': side, 'i': i})
            if not seq._fixed_size:
                for r in srefs:
                    ops.append({'op': 'append', 'u': u, 'side': side, 's': r})
                    ops.append({'op': 'insert', 'u': u, 'side': side, 'i': 0, 's': r})
            ops.append({'op': 'clear', 'u': u, 'side': side})
            ops.append({'op': 'empty', 'u': u, 'side': side})
        ops.append({'op': 'unit.disconnect', 'u': u})
        ops.append({'op': 'unit.disconnect', 'u': u, 'join': True})
        ops.append({'op': 'replace_with_none', 'u': u})
        for v in range(nu):
            if v != u:
                ops.append({'op': 'take_place_of', 'u': u, 'v': v})
                ops.append({'op': 'replace_with', 'u': u, 'v': v})
                ops.append({'op': 'unit-unit', 'u': u, 'v': v})
        for r in srefs:
            ops.append({'op': 'unit.insert', 'u': u, 's': r})
    for r in srefs:
        ops.append({'op': 'disconnect_source', 's': r})
        ops.append({'op': 'disconnect_sink', 's': r})
    return [op for op in ops if pre(U, op)]


def fresh_universe():
    return Universe(EXH_CONFIGS, 5)


def replay_prefix(ops):
    U = fresh_universe()
    with warnings.catch_warnings():
        warnings.simplefilter('ignore')
        for op in ops:
            execute(U, op)
    return U


def exhaustive(rec, depth, shard, nshards):
    """all sequences of enabled operations up to `depth`; the first-level operations are split over the shards."""
    U0 = fresh_universe()
    level1 = enabled_ops(U0)
    count = 0
    for idx, op1 in enumerate(level1):
        if idx % nshards != shard: continue
        stack = [[op1]]
        while stack:
            seqops = stack.pop()
            U = fresh_universe()
            case = {'t': 'exh', 'ops': seqops}
            rec.begin_case(case)
            n_eff, ok = run_sequence(U, seqops, rec, 'exhaustive', case)
            count += 1
            if ok and U.seen_double or (ok and len(seqops) >= 2): rec.mark_nontrivial(case_hash(seqops))
            if ok and len(seqops) < depth:
                for op in enabled_ops(U):
                    stack.append(seqops + [op])
    rec.hit('exhaustive', count)
    return count

# ---------------------------------------------------------------------------
# random histories

def gen_history(rng):
    nu = rng.randrange(3, 9)
    configs = []
    for _ in range(nu):
        configs.append((rng.randrange(1, 4), rng.randrange(1, 4), rng.random() < 0.6, rng.random() < 0.6))
    ns = rng.randrange(4, 9)
    n_units = nu
    ops = []
    def sref():
        r = rng.random()
        if r < 0.7: return ('s', rng.randrange(ns))
        return ('p', rng.randrange(n_units), rng.choice(['in', 'out']), rng.randrange(3))
    for _ in range(rng.randrange(5, 51)):
        o = rng.choices(['set', 'set', 'set', 'slice', 'append', 'insert', 'extend', 'pop', 'remove', 'replace', 'clear', 'empty', 'disconnect_source', 'disconnect_sink',
                         'disconnect', 'unit.disconnect', 'unit.insert', 'take_place_of', 'replace_with', 'replace_with_none', 'record', 'reconnect', 'pipe-in', 'pipe-out',
                         'unit-unit', 'streams-unit', 'construct'],
                        [8, 8, 8, 4, 4, 3, 2, 3, 3, 3, 2, 2, 2, 2, 1, 2, 4, 2, 2, 1, 2, 2, 3, 3, 2, 2, 1])[0]
        u = rng.randrange(n_units); side = rng.choice(['in', 'out'])
        if o == 'set':
            r = sref() if rng.random() < 0.9 else None
            ops.append({'op': 'set', 'u': u, 'side': side, 'i': rng.randrange(4), 's': r, 'moves': True, 'placeholder': r is not None and r[0] == 'p'})
        elif o == 'slice':
            a = rng.choice([None, 0, 1]); b = rng.choice([None, 1, 2, 3])
            ops.append({'op': 'slice', 'u': u, 'side': side, 'a': a, 'b': b, 'ss': [sref() if rng.random() < 0.85 else None for _ in range(rng.randrange(0, 4))]})
        elif o == 'append': ops.append({'op': 'append', 'u': u, 'side': side, 's': sref()})
        elif o == 'insert': ops.append({'op': 'insert', 'u': u, 'side': side, 'i': rng.randrange(3), 's': sref()})
        elif o == 'extend': ops.append({'op': 'extend', 'u': u, 'side': side, 'ss': [sref() for _ in range(rng.randrange(1, 3))]})
        elif o in ('pop', 'remove'): ops.append({'op': o, 'u': u, 'side': side, 'i': rng.randrange(3)})
        elif o == 'replace': ops.append({'op': 'replace', 'u': u, 'side': side, 'i': rng.randrange(3), 's': sref()})
        elif o in ('clear', 'empty'): ops.append({'op': o, 'u': u, 'side': side})
        elif o in ('disconnect_source', 'disconnect_sink', 'disconnect'):
            r = sref(); ops.append({'op': o, 's': r, 'placeholder': r[0] == 'p'})
        elif o == 'unit.disconnect':
            r = rng.random()
            if r < 0.4: ops.append({'op': o, 'u': u})
            elif r < 0.8: ops.append({'op': o, 'u': u, 'join': True})
            else: ops.append({'op': o, 'u': u, 'inlets': [rng.randrange(2)] if rng.random() < 0.6 else [], 'outlets': [rng.randrange(2)] if rng.random() < 0.6 else [], 'as_streams': rng.random() < 0.5})
        elif o == 'unit.insert':
            if rng.random() < 0.3: ops.append({'op': o, 'u': u, 's': sref(), 'explicit': True, 'inlet': rng.randrange(2), 'outlet': rng.randrange(2)})
            else: ops.append({'op': o, 'u': u, 's': sref()})
        elif o in ('take_place_of', 'replace_with', 'unit-unit'): ops.append({'op': o, 'u': u, 'v': rng.randrange(n_units)})
        elif o == 'replace_with_none': ops.append({'op': o, 'u': u})
        elif o == 'record': ops.append({'op': 'record', 's': sref()})
        elif o == 'reconnect': ops.append({'op': 'reconnect', 'k': rng.randrange(4)})
        elif o == 'pipe-in': ops.append({'op': 'pipe-in', 'u': u, 'i': rng.randrange(3), 's': sref(), 'minus': rng.random() < 0.5})
        elif o == 'pipe-out': ops.append({'op': 'pipe-out', 'u': u, 'i': rng.randrange(3), 's': sref(), 'pow': rng.random() < 0.5})
        elif o == 'streams-unit': ops.append({'op': o, 'u': u, 'side': side, 'ss': [sref() for _ in range(rng.randrange(1, 3))]})
        elif o == 'construct':
            cfg = (rng.randrange(1, 3), rng.randrange(1, 3), rng.random() < 0.5, rng.random() < 0.5)
            ops.append({'op': o, 'cfg': list(cfg), 'ins': [sref() for _ in range(rng.randrange(0, cfg[0] + 1))], 'outs': [sref() for _ in range(rng.randrange(0, cfg[1] + 1))]})
            n_units += 1
    return {'t': 'hist', 'configs': [list(c) for c in configs], 'ns': ns, 'ops': ops}


def norm(op):
    op = dict(op)
    for k in ('s',):
        if k in op and isinstance(op[k], list): op[k] = tuple(op[k])
    for k in ('ss', 'ins', 'outs'):
        if k in op: op[k] = [tuple(r) if isinstance(r, list) else r for r in op[k]]
    if 'cfg' in op: op['cfg'] = tuple(op['cfg'])
    return op


def run_history(case, rec):
    rec.begin_case(case)
    U = Universe([tuple(c) for c in case['configs']], case['ns'])
    ops = [norm(o) for o in case['ops']]
    n_eff, ok = run_sequence(U, ops, rec, 'history', case)
    if ok and n_eff >= 2 and U.seen_double: rec.mark_nontrivial(case_hash(case))


def replay(case, rec):
    tmo.settings.set_thermo(['Water'], cache=True)
    if case['t'] == 'exh':
        U = fresh_universe(); rec.begin_case(case)
        run_sequence(U, [norm(o) for o in case['ops']], rec, 'exhaustive', case)
    else:
        run_history(case, rec)


def run(rec, rng, tier, shard, nshards):
    tmo.settings.set_thermo(['Water'], cache=True)
    quick = tier == 'quick'
    depth = 2 if quick else 3
    n = exhaustive(rec, depth, shard, nshards)
    rec.notes['exhaustive'] = False
    rec.notes['exhaustive_subspace'] = f'all operation sequences of the bounded universe up to depth {depth} are executed (first-level operations partitioned over the shards)'
    nh = 3000 if quick else 60000
    for i in range(nh):
        case = gen_history(rng)
        try:
            run_history(case, rec)
        except Exception as e:
            rec.exception('harness', e, what=f'harness error: {type(e).__name__}: {e}')
        if i % 501 == 0: rec.sample({'t': 'hist', 'configs': case['configs'], 'ns': case['ns'], 'ops': case['ops'][:8], 'n_ops': len(case['ops'])})
