"""C18 — flowsheet connections stay mutually consistent under every rewiring operation.

Monitor: after every rewiring operation on real AbstractUnit / AbstractStream objects the full port relation is
walked and the PortGraph invariant asserted, plus the operation's own postcondition.  Workloads: bounded exhaustive
enumeration of operation sequences over a 3-unit / 5-stream universe and seeded random histories over larger ones.
"""
import itertools, warnings
import numpy as np
import thermosteam as tmo
from thermosteam import network as _net
from thermosteam.network import (AbstractStream, AbstractMissingStream, AbstractUnit, StreamPorts, InletPort, OutletPort,
                                 temporary_connection, TemporaryUnit)
from vt.core import case_hash

PID = 'C18'
RULE = ('(1) bounded exhaustive: every sequence of enabled concrete operations (operation x unit x side x index x stream, preconditions of the property filtered on the live state) '
        'up to depth 2 (quick) / 3 (thorough, sharded) over the universe {A: 2->1 fixed, B: 1->2 variable outs, C: 2->2 variable ins} with five streams; '
        '(2) random histories of <=50 operations over 3-8 units with mixed fixed/variable port counts incl. construction with ins/outs, slices, extend, replace, pipes, '
        'unit.disconnect/insert/take_place_of/replace_with, Connection.reconnect, placeholders. non-trivial = at least one real stream docked at two units during the history and '
        '>=2 effective operations; distinct = hash of the operation sequence. '
        'Added: both pipe spellings (s-i-u, (s**i)**u, u**i**s, u-(i-s), mixed), bare s-u / u-s, list and ndarray operands, unit**unit, operands read with u-i / i-u; '
        'placeholder objects (also of another unit) as operands of set/slice/replace/append/insert/extend/streams-unit/ports/construct(single); negative indices and slice bounds, stepped slices; '
        'unit.insert with inlet/outlet given as stream objects / only one of them / a foreign stream (documented ValueError = refusal); unit.disconnect with partial lists, join_ends on partial lists, '
        'inlets without outlets; construction forms (single, str, list of str, ins=() auto-create, mixed tuple, None in a fixed list, more streams than N on a variable list, too many on a fixed list = refusal); '
        'StreamPorts.from_inlets/from_outlets item and slice assignment and In/OutletPort.set_stream; StreamSequence.reverse; temporary_connection (temporary units are part of the checked graph); '
        'every real stream ever seen in a port stays under observation after it is evicted; the exhaustive alphabet also holds slice/replace/extend/pipe/streams-unit/insert at i>0/set at i==len/'
        'negative index/partial disconnect/explicit insert/construct/ports/temp-conn/reverse shapes over a 2-stream + 2-port-reference sub-universe. '
        'Oracles: fixed size / port count are judged (and the preconditions filtered) against the (nin, nout, fin, fout) the harness asked for at construction, kept per unit identity '
        '(temporary units: their documented shapes), never against the flags of the list under test; the public sink/source must say what the slots say; the operations that return '
        'nothing are judged against a snapshot (identities, in order) taken before the call: take_place_of / replace_with (the receiving unit lists the replaced unit\'s real streams at '
        'the same positions and no others, the replaced unit lists placeholders only), replace_with() (the unit is empty, each real inlet/outlet pair is bridged at the neighbour\'s port), '
        'unit-unit (inlets of the downstream unit are the outlets of the upstream unit, which keeps them), reverse (same objects, reversed order), temporary_connection (first outlet -> '
        'temporary source, temporary sink -> first inlet, a stream between the two, former sink fed at the same port); get_connection records are compared with the live lists when taken, '
        'reconnect is counted only when called and must put the stream at the recorded ports; StreamPorts targets (unit, index) are located by the harness before the call and judged on the '
        'unit\'s own list; a refusal is granted only when the harness sees its cause on the inputs (otherwise .../refused-although-*), a call accepted where the refusal is documented is '
        '.../accepted-where-documented-refusal (unit.insert, StreamPorts), and the graph a refused call leaves behind is judged (.../refused/<reason>/left-inconsistent-graph)')
MIN_NONTRIVIAL = {'quick': 1000, 'thorough': 100000}
ASSUMPTIONS = ['operations are used within the preconditions listed in the property (checked by the harness on the live state before each call)',
               'AbstractUnit subclasses with no _run are sufficient: only the connection graph is exercised',
               'pipe operators are written with the grouping Python needs to reach the pipe objects: (s**i)**u and u-(i-s) (s**i**u / u-i-s parse as index reads followed by stream**stream)',
               'a placeholder object has no pipe operators: `placeholder - unit` is answered by the documented ValueError (counted as a refusal), `unit - placeholder` and placeholders inside '
               'construction lists are not generated; `ndarray - unit` is applied by numpy element by element (each element replaces the inlet list), so only the graph invariant is judged there',
               'calls answered by a documented error (ValueError of unit.insert / unit.disconnect(join_ends) / StreamPorts.from_*, IndexError of a StreamPorts slice of another length, RuntimeError '
               'of a construction with more streams than a fixed list holds) are counted as refusals only when the harness sees the documented cause on the inputs; the raise is not judged, '
               'the graph the refused call leaves behind is (it must satisfy the invariant: the quick and 10x baselines leave none inconsistent)',
               'take_place_of / replace_with / unit-unit / reverse / temporary_connection / replace_with() are judged against their documented effect (see RULE) in addition to the invariant, '
               'so that a call that does nothing is not counted as an effective rewiring; temporary_connection on one stream that is both the first outlet and the first inlet is judged by the invariant only',
               'Connection.reconnect is called only for records that can be replayed within precondition (b) on the live state; the others are skipped (counter reconnect:skipped), not counted as operations',
               'temporary_connection is called on units whose first outlet / first inlet hold real streams (its use in process specifications)']


def required(tier):
    return ['op:set', 'op:set-move', 'op:slice', 'op:append', 'op:insert', 'op:extend', 'op:pop', 'op:remove', 'op:replace', 'op:clear', 'op:empty',
            'op:disconnect_source', 'op:disconnect_sink', 'op:unit.disconnect', 'op:unit.disconnect-join', 'op:unit.insert', 'op:take_place_of', 'op:replace_with',
            'op:reconnect', 'op:pipe-in', 'op:pipe-out', 'op:unit-unit', 'op:streams-unit', 'op:construct', 'op:placeholder', 'exhaustive',
            # pipe spellings and operand kinds
            'pipe-in:s-i-u', 'pipe-in:(s**i)**u', 'pipe-in:mixed', 'pipe-out:u**i**s', 'pipe-out:u-(i-s)', 'pipe-out:mixed', 'pipe:operand-by-index-read',
            'streams-unit:bare/in', 'streams-unit:bare/out', 'streams-unit:list/in', 'streams-unit:list/out', 'streams-unit:ndarray/in', 'streams-unit:ndarray/out', 'unit-unit:pow',
            # placeholder objects as operands
            'op:placeholder-operand', 'op:placeholder-operand/set', 'op:placeholder-operand/slice', 'op:placeholder-operand/replace', 'op:placeholder-operand/append',
            'op:placeholder-operand/insert', 'op:placeholder-operand/of-another-unit',
            # evicted streams stay observed
            'ever-seen:auto-created-stream-evicted',
            # exhaustive alphabet
            'exh:slice', 'exh:replace', 'exh:extend', 'exh:pipe-in', 'exh:pipe-out', 'exh:insert-at-i>0', 'exh:set-at-len', 'exh:unit.disconnect-partial', 'exh:unit.insert-explicit',
            'exh:streams-unit', 'exh:port-ref-operand', 'exh:construct', 'exh:temp-conn',
            # negative indices, insert/disconnect call forms
            'neg-index:set', 'neg-index:pop', 'neg-index:insert', 'neg-index:slice', 'slice:step',
            'unit.insert:stream-objects', 'unit.insert:inlet-only', 'unit.insert:outlet-only', 'unit.insert:foreign-refused',
            'unit.disconnect:partial-join', 'unit.disconnect:inlets-only', 'unit.disconnect:outlets-only',
            # construction forms
            'construct:single', 'construct:str', 'construct:strs', 'construct:auto', 'construct:mixed', 'construct:over-variable', 'construct:none-in-fixed',
            # system ports, temporary connection
            'op:ports', 'ports:item', 'ports:slice', 'ports:set_stream', 'op:temp-conn', 'temp-conn:units-checked',
            # postconditions of the operations that return nothing (judged against a snapshot taken before the call), records checked against the live lists
            'post:take_place_of:real-moved', 'post:replace_with:real-moved', 'post:replace_with_none:bridged-outs', 'post:replace_with_none:bridged-ins', 'post:unit-unit:real-piped',
            'post:reverse:real-moved', 'post:temp-conn:both-ends', 'post:record:index-checked', 'post:reconnect:port-checked', 'post:ports:judged-on-unit-list',
            # refusals: seen due by the harness on the inputs, graph judged afterwards
            'refused:graph-judged', 'refused:ports', 'refused:unit.insert', 'refused:unit.disconnect', 'refused:construct', 'refused:streams-unit']


_classes = {}


def unit_class(nin, nout, fin, fout):
    key = (nin, nout, fin, fout)
    c = _classes.get(key)
    if c is None:
        c = type(f'U{nin}{nout}{"f" if fin else "v"}{"f" if fout else "v"}', (AbstractUnit,),
                 dict(_N_ins=nin, _N_outs=nout, _ins_size_is_fixed=fin, _outs_size_is_fixed=fout))
        _classes[key] = c
    return c


class Universe:
    def __init__(self, configs, nstreams):
        self.units = [unit_class(*c)(None) for c in configs]
        for k, u in enumerate(self.units): u._ID = f'u{k}'
        # the port counts / fixed flags the harness ASKED for (nin, nout, fin, fout), by unit identity: the reference for 'fixed-size lists keep their size' and for the
        # preconditions (never read back from the list object under test)
        self.spec = {id(u): tuple(c) for u, c in zip(self.units, configs)}
        self.streams = []
        for k in range(nstreams):
            s = AbstractStream(None); s._ID = f's{k}'
            self.streams.append(s)
        self.connections = []
        self.seen_double = False
        self.temps = []            # TemporarySource / TemporarySink units made by temporary_connection: part of the checked graph
        self.ever = []             # every real stream ever observed in a port (and the universe streams), in order of first observation
        self._ever_ids = set()
        self.evicted_auto = False  # an observed stream that is not one of the universe streams is no longer in any port
        self.notes = []            # reach counters of the postcondition branches the last executed operation was judged in (flushed by run_sequence)
        for s in self.streams: self.remember(s)

    def remember(self, s):
        if id(s) not in self._ever_ids:
            self._ever_ids.add(id(s)); self.ever.append(s)      # kept alive here, so id() stays unique

    def seq(self, u, side):
        unit = self.units[u]
        return unit.ins if side == 'in' else unit.outs

    def note(self, name): self.notes.append(name)

    def add_unit(self, unit, cfg):
        self.units.append(unit); self.spec[id(unit)] = tuple(cfg)

    def add_temp(self, tu):
        self.temps.append(tu); self.spec[id(tu)] = TEMP_SPEC[type(tu).__name__]

    def spec_of(self, unit):
        """(nin, nout, fin, fout) of a unit of the universe (also of a temporary unit), from the harness table."""
        return self.spec[id(unit)]

    def fixed_of(self, unit, side):
        sp = self.spec[id(unit)]
        return sp[2] if side in ('in', 'ins') else sp[3]

    def size_of(self, unit, side):
        sp = self.spec[id(unit)]
        return sp[0] if side in ('in', 'ins') else sp[1]

    def fixed(self, u, side): return self.fixed_of(self.units[u], side)

    def size(self, u, side): return self.size_of(self.units[u], side)

    def attr(self, side):
        return '_sink' if side == 'in' else '_source'

    def resolve(self, ref):
        if ref is None: return None
        if ref[0] == 's': return self.streams[ref[1]]
        if ref[0] == 'p':
            seq = self.seq(ref[1], ref[2])
            return seq[ref[3]] if ref[3] < len(seq) else None
        raise ValueError(ref)

    def read_by_pipe(self, ref):
        """the operand of a port reference read with the pipe index notation: unit - j (outlet j) / j - unit (inlet j)."""
        unit = self.units[ref[1]]
        return (unit - ref[3]) if ref[2] == 'out' else (ref[3] - unit)


# temporary units are made by the library (temporary_connection); their documented shapes: TemporarySource 1 fixed inlet -> variable outlets, TemporarySink variable inlets -> 1 fixed outlet
TEMP_SPEC = {'TemporarySource': (1, 2, True, False), 'TemporarySink': (2, 1, False, True)}


def is_real(s): return isinstance(s, AbstractStream)


def is_ph(s): return isinstance(s, AbstractMissingStream)


def nm(x):
    return getattr(x, 'ID', None) or '<unnamed>'


def check(U):
    """PortGraph invariant over the whole universe; returns list of error strings."""
    errs = []
    units = list(U.units) + list(getattr(U, 'temps', ()))
    found = []
    spec = getattr(U, 'spec', None)
    for u in units:
        sp = spec.get(id(u)) if spec is not None else None
        if spec is not None and sp is None: errs.append(f'{u.ID} is not in the table of port counts of the harness')
        for side, seq, attr, other in (('ins', u.ins, '_sink', '_source'), ('outs', u.outs, '_source', '_sink')):
            items = list(seq)
            real = [s for s in items if is_real(s)]
            found.extend(real)
            if len(set(map(id, real))) != len(real): errs.append(f'{u.ID}.{side} lists a stream twice')
            for s in real:
                if getattr(s, attr) is not u: errs.append(f'{u.ID}.{side} lists {nm(s)} but its {attr[1:]} is {getattr(getattr(s, attr), "ID", None)}')
                # the statement names the public sink / source: they must say what the slots say
                if getattr(s, attr[1:]) is not u: errs.append(f'{u.ID}.{side} lists {nm(s)} but its public {attr[1:]} is {getattr(getattr(s, attr[1:]), "ID", None)}')
            if sp is not None:
                # fixed size and port count as the harness asked for them at construction (not the flags of the list object under test)
                fixed, size = (sp[2], sp[0]) if side == 'ins' else (sp[3], sp[1])
                if fixed and len(items) != size: errs.append(f'{u.ID}.{side} fixed size {size} but holds {len(items)}')
                if fixed and len(seq) != size: errs.append(f'{u.ID}.{side} fixed size {size} but reports len {len(seq)}')
            elif seq._fixed_size and len(items) != seq._size: errs.append(f'{u.ID}.{side} fixed size {seq._size} but holds {len(items)}')
            for s in items:
                if not is_real(s):
                    if not isinstance(s, AbstractMissingStream): errs.append(f'{u.ID}.{side} holds a {type(s).__name__}')
                    elif bool(s): errs.append(f'{u.ID}.{side} placeholder is truthy')
                    elif getattr(s, attr) is not u: errs.append(f'{u.ID}.{side} placeholder points at {getattr(getattr(s, attr), "ID", None)}')
                    elif getattr(s, attr[1:]) is not u: errs.append(f'{u.ID}.{side} placeholder: public {attr[1:]} is {getattr(getattr(s, attr[1:]), "ID", None)}')
    if hasattr(U, 'remember'):
        # streams once seen in a port (auto-created outlets, streams made from IDs, streams of temporary connections) stay observed after eviction
        for s in found: U.remember(s)
        everything = U.ever
        in_port = set(map(id, found))
        if not U.evicted_auto and len(U.ever) > len(U.streams) and any(id(s) not in in_port for s in U.ever[len(U.streams):]): U.evicted_auto = True
    else:
        everything = []; seen_ids = set()
        for s in list(U.streams) + found:
            if id(s) not in seen_ids: seen_ids.add(id(s)); everything.append(s)
    for s in everything:
        if s.sink is not s._sink or s.source is not s._source: errs.append(f'{nm(s)}: public sink/source differ from the slots')
        if s._sink is not None and not any(x is s for x in s._sink.ins): errs.append(f'{nm(s)} has sink {s._sink.ID} but is not among its inlets')
        if s._source is not None and not any(x is s for x in s._source.outs): errs.append(f'{nm(s)} has source {s._source.ID} but is not among its outlets')
        if s._sink is not None and s._source is not None: U.seen_double = True
    # no real stream at two ports of the same side
    for attr, side in (('_sink', 'ins'), ('_source', 'outs')):
        seen = {}
        for u in units:
            for s in getattr(u, side):
                if is_real(s):
                    if id(s) in seen and seen[id(s)] is not u: errs.append(f'{nm(s)} occupies {side} ports of {seen[id(s)].ID} and {u.ID}')
                    seen[id(s)] = u
    return errs

# ---------------------------------------------------------------------------
# operations: precondition(U, op) on the live state, execute(U, op) -> postcondition error or None

def docked(s, side):
    return getattr(s, '_sink' if side == 'in' else '_source') is not None


REF_KEYS_1 = ('s', 'foreign_in', 'foreign_out')
REF_KEYS_N = ('ss', 'ins', 'outs', 'of')


class Refused:
    """the library answered the call with a documented error AND the harness itself saw on the inputs that this error is due: counted; the graph left behind is judged."""
    def __init__(self, reason, slug): self.reason = reason; self.slug = slug


class Err(str):
    """a postcondition error that carries its own key suffix (mechanism), e.g. 'accepted-where-documented-refusal'."""
    suffix = ''
    def __new__(cls, msg, suffix=''):
        e = str.__new__(cls, msg); e.suffix = suffix
        return e


class Skip:
    """the operation was not called (its precondition on the live state could only be seen inside execute): not counted as effective."""
    def __init__(self, reason): self.reason = reason


def took_over(U, dst, src, former, what):
    """dst.<side>[:] = src.<side> (take_place_of / replace_with): every real stream `src` listed is now listed by `dst` at the same position, `dst` lists no other real
    stream, `src` lists placeholders only.  `former` = {'ins': [...], 'outs': [...]} of src, taken (by identity, in order) before the call."""
    for side in ('ins', 'outs'):
        now = list(getattr(dst, side)); was = former[side]
        if len(now) < len(was): return f'{what}: the {side} of the receiving unit hold {len(now)} items, the list taken over held {len(was)}'
        for j, x in enumerate(was):
            if is_real(x):
                if now[j] is not x: return f'{what}: {side}[{j}] of the receiving unit is not the stream {nm(x)} the replaced unit held there'
            elif is_real(now[j]): return f'{what}: {side}[{j}] of the receiving unit holds a real stream where the replaced unit held a placeholder'
        if any(is_real(y) for y in now[len(was):]): return f'{what}: the receiving unit kept real streams of its own beyond the list taken over ({side})'
        if any(is_real(y) for y in getattr(src, side)): return f'{what}: the replaced unit still lists real streams ({side})'
    return None


def pre(U, op):
    o = op['op']
    nu = len(U.units)
    if ('u' in op and op['u'] >= nu) or ('v' in op and op['v'] >= nu): return False
    for k in REF_KEYS_1:
        r = op.get(k)
        if r is not None and r[0] == 'p' and r[1] >= nu: return False
    for k in REF_KEYS_N:
        if k in op and any(r is not None and r[0] == 'p' and r[1] >= nu for r in op[k]): return False
    return _pre(U, op)


def is_streamlike(s): return is_real(s) or is_ph(s)


def in_range(i, n, upto=0):
    """index i addresses an existing item of a list of length n (negative indices count from the end); upto=1 also allows i == n."""
    return -n <= i < n + upto


def slice_plan(seq, op):
    """(number of items the slice removes, is extended slice) under Python's list slice semantics, or None when outside the preconditions."""
    n = len(seq); a, b, st = op['a'], op['b'], op.get('st')
    if st is None and (a is None or a >= 0) and (b is None or b >= 0):
        a = 0 if a is None else min(a, n); b = n if b is None else min(b, n)
        if b < a: return None
        return b - a, False
    start, stop, step = slice(a, b, st).indices(n)
    if step == 1:
        if stop < start: return None
        return stop - start, False
    return len(range(start, stop, step)), True


def insert_plan(U, op):
    """unit.insert(stream, inlet=, outlet=) in its general call form: the objects passed, the ports involved and the documented refusal expected (if any).
    returns None when the call is outside the preconditions of the assignments it performs."""
    u = U.units[op['u']]; s = U.resolve(op['s'])
    if s is None or not is_real(s) or not s.source or not s.sink or s.source is u or s.sink is u: return None
    src, snk = s.source, s.sink
    nin, nout, fin, fout = U.spec_of(u)
    kw = {}; expect = None; X = I = None; added_unit = False
    # --- outlet
    if op.get('foreign_out') is not None:
        X = U.resolve(op['foreign_out'])
        if X is None or not is_real(X): return None
        kw['outlet'] = X
        if X.source is not u: return kw, 'source of given outlet must be this object', None, None, False
    elif op.get('outlet') is not None:
        j = op['outlet']
        if not in_range(j, len(u.outs)): return None
        X = u.outs[j]
        kw['outlet'] = X if (op.get('obj_out') and is_real(X)) else j
    else:
        if fout:
            if nout != 1: return kw, 'undefined outlet', None, None, False
            if len(u.outs) < 1: return None
            X = u.outs[0]
        else:
            added_unit = True
    if X is not None:
        if any(y is X for y in snk.ins): return None          # assigned to a port of the old sink: must not already be there
    # --- inlet
    if op.get('foreign_in') is not None:
        I = U.resolve(op['foreign_in'])
        if I is None or not is_real(I): return None
        kw['inlet'] = I
        if I.sink is not u: expect = 'sink of given inlet must be this object'
    elif op.get('inlet') is not None:
        j = op['inlet']
        if not in_range(j, len(u.ins)): return None
        I = u.ins[j]
        kw['inlet'] = I if (op.get('obj_in') and is_real(I)) else j
    else:
        if fin or added_unit:
            if nin != 1: expect = 'undefined inlet'
            else:
                if len(u.ins) < 1: return None
                I = u.ins[0]
        # else: the stream itself is appended to the (variable) inlets after it was replaced at its old sink -> not docked on that side
    if expect is None and I is not None:
        if I is X: return None
        if any(y is I for y in src.outs): return None         # assigned to a port of the old source: must not already be there
    return kw, expect, X, I, added_unit


def disconnect_plan(U, op):
    """unit.disconnect(inlets=, outlets=, join_ends=) in its general call form; None when outside the preconditions."""
    u = U.units[op['u']]
    sel = {}
    for key, seq in (('inlets', u.ins), ('outlets', u.outs)):
        idx = op.get(key)
        if idx is None: sel[key] = None; continue
        n = len(seq)
        if not all(in_range(i, n) for i in idx): return None
        pos = [i % n for i in idx]
        if len(set(pos)) != len(pos): return None
        sel[key] = idx
    kw = {}; chosen = {}
    for key, seq in (('inlets', u.ins), ('outlets', u.outs)):
        idx = sel[key]
        if idx is None:
            chosen[key] = [x for x in seq if x]
            continue
        if op.get('join') and op.get('as_streams'): idx = [i for i in idx if is_real(seq[i])]       # joining needs the stream objects
        chosen[key] = [seq[i] for i in idx]
        kw[key] = [seq[i] if (op.get('as_streams') and is_real(seq[i])) else i for i in idx]
    expect = None
    if op.get('join'):
        kw['join_ends'] = True
        if len(chosen['inlets']) != len(chosen['outlets']): expect = 'number of inlets must match number of outlets'
        else:
            for i, x in zip(chosen['inlets'], chosen['outlets']):
                if getattr(x, '_sink', None) is u: return None                      # self-loop (also through a placeholder): the inlet is docked here again by design
                if not is_real(x) or not is_real(i): continue
                if x.sink is u: return None
                if x.sink and any(y is i for y in x.sink.ins): return None
            for i in chosen['inlets']:
                if is_real(i) and any(i is x for x in chosen['outlets']): return None
    return kw, expect, chosen


def build_ports(U, op):
    streams = [U.resolve(r) for r in op['of']]
    make = StreamPorts.from_inlets if op['side'] == 'in' else StreamPorts.from_outlets
    return make(streams, sort=bool(op.get('sort')))


def port_target(port, side):
    return (port.sink.ins, port.index) if side == 'in' else (port.source.outs, port.index)


def ports_plan(U, op):
    """the (unit, index) each stream of `of` is docked at on the given side, located by the harness on the live port lists (identity), in the order StreamPorts documents
    (as given, or sorted by unit ID and index).  ('undocked', None) when a stream has no unit on that side: the library's documented ValueError is then due;
    ('outside', None) when a stream names a unit that does not list it (placeholders that were moved): not generated."""
    side = op['side']; attr = '_sink' if side == 'in' else '_source'
    of = [U.resolve(r) for r in op['of']]
    if any(getattr(x, attr) is None for x in of): return 'undocked', None
    targets = []
    for x in of:
        unit = getattr(x, attr)
        pos = [k for k, y in enumerate(unit.ins if side == 'in' else unit.outs) if y is x]
        if len(pos) != 1: return 'outside', None
        targets.append((unit, pos[0]))
    if op.get('sort'):
        if side == 'in': targets.sort(key=lambda t: (t[0].ID[1:], t[0].ID, t[1]))
        else: targets.sort(key=lambda t: (t[0].ID[1:], t[0].ID[0], t[1]))
    return 'ok', targets


def construct_args(U, op):
    """the ins / outs arguments of a construction in the requested call form, and the given stream objects that must end up listed."""
    form = op.get('form') or 'list'
    tag = op.get('tag', 0)
    out = []
    for side, key in (('i', 'ins'), ('o', 'outs')):
        refs = op[key]; objs = [U.resolve(r) for r in refs]
        if form == 'single': arg = objs[0] if objs else (None if key == 'ins' else ())
        elif form == 'str': arg = f'x{tag}{side}'
        elif form == 'strs': arg = [f'x{tag}{side}{k}' for k in range(len(refs))]
        elif form == 'auto': arg = ()
        elif form == 'mixed': arg = tuple(f'x{tag}{side}{k}' if k % 2 else x for k, x in enumerate(objs))
        else: arg = (objs if objs else None) if key == 'ins' else (objs if objs else ())
        if form == 'single': given = objs[:1]
        elif form in ('str', 'strs', 'auto'): given = []
        elif form == 'mixed': given = [x for k, x in enumerate(objs) if k % 2 == 0]
        else: given = objs
        out.append((arg, given))
    return out


def _pre(U, op):
    o = op['op']
    if o == 'set':
        seq = U.seq(op['u'], op['side']); s = U.resolve(op['s'])
        if op['i'] < 0 and not in_range(op['i'], len(seq)): return False
        if op['i'] > len(seq) or (op['i'] == len(seq) and U.fixed(op['u'], op['side'])): return False
        if s is not None and any(x is s for x in seq): return False
        if s is not None and not is_streamlike(s): return False
        return True
    if o == 'slice':
        seq = U.seq(op['u'], op['side']); ss = [U.resolve(r) for r in op['ss']]
        if any(x is not None and any(y is x for y in seq) for x in ss): return False
        real = [x for x in ss if x is not None]
        if len(set(map(id, real))) != len(real) or not all(is_streamlike(x) for x in real): return False
        plan = slice_plan(seq, op)
        if plan is None: return False
        removed, extended = plan
        if extended and len(ss) != removed: return False      # Python's own rule for extended slices
        if U.fixed(op['u'], op['side']) and len(seq) - removed + len(ss) > U.size(op['u'], op['side']): return False
        return True
    if o in ('append', 'insert'):
        seq = U.seq(op['u'], op['side']); s = U.resolve(op['s'])
        return (not U.fixed(op['u'], op['side'])) and s is not None and is_streamlike(s) and not docked(s, op['side']) and (o == 'append' or in_range(op['i'], len(seq), 1))
    if o == 'extend':
        seq = U.seq(op['u'], op['side']); ss = [U.resolve(r) for r in op['ss']]
        return (not U.fixed(op['u'], op['side'])) and all(s is not None and is_streamlike(s) and not docked(s, op['side']) for s in ss) and len(set(map(id, ss))) == len(ss)
    if o == 'pop':
        return in_range(op['i'], len(U.seq(op['u'], op['side'])))
    if o == 'remove':
        seq = U.seq(op['u'], op['side']); return in_range(op['i'], len(seq))
    if o == 'replace':
        seq = U.seq(op['u'], op['side']); s = U.resolve(op['s'])
        return in_range(op['i'], len(seq)) and s is not None and is_streamlike(s) and not any(x is s for x in seq)
    if o in ('clear', 'empty', 'reverse'): return True
    if o in ('disconnect_source', 'disconnect_sink', 'disconnect'):
        return U.resolve(op['s']) is not None
    if o == 'unit.disconnect':
        u = U.units[op['u']]
        if op.get('mode') == 'v2': return disconnect_plan(U, op) is not None
        if op.get('join'):
            ins = [i for i in u.ins if i]; outs = [x for x in u.outs if x]
            if len(ins) != len(outs): return False
            # joining replaces the outlet in its sink's inlets by the inlet: the inlet must not already be there
            for i, x in zip(ins, outs):
                if x.sink and any(y is i for y in x.sink.ins): return False
                if x.sink is u: return False
        return True
    if o == 'unit.insert':
        u = U.units[op['u']]; s = U.resolve(op['s'])
        if op.get('mode') == 'v2': return insert_plan(U, op) is not None
        if s is None or not is_real(s) or not s.source or not s.sink or s.source is u or s.sink is u: return False
        if op.get('explicit'):
            if op['inlet'] >= len(u.ins) or op['outlet'] >= len(u.outs): return False
            i, x = u.ins[op['inlet']], u.outs[op['outlet']]
            if (is_real(i) and i.source is not None) or any(y is i for y in s.source.outs): return False
            if (is_real(x) and x.sink is not None) or any(y is x for y in s.sink.ins): return False
            if i is x: return False
            return True
        nin, nout, fin, fout = U.spec_of(u)
        if (nin == 1 and len(u.ins) < 1) or (nout == 1 and fout and len(u.outs) < 1): return False
        if fout:
            if nout != 1: return False
            x = u.outs[0]
            if (is_real(x) and x.sink is not None) or any(y is x for y in s.sink.ins): return False
            if fin:
                if nin != 1: return False
                i = u.ins[0]
                if (is_real(i) and i.source is not None) or any(y is i for y in s.source.outs): return False
            return True
        else:
            if nin != 1: return False
            i = u.ins[0]
            if (is_real(i) and i.source is not None) or any(y is i for y in s.source.outs): return False
            return True
    if o in ('take_place_of', 'replace_with'):
        a, b = U.units[op['u']], U.units[op['v']]
        if a is b: return False
        dst, src = (a, b) if o == 'take_place_of' else (b, a)
        for side in ('ins', 'outs'):
            d, s = getattr(dst, side), getattr(src, side)
            if U.fixed_of(dst, side) and len(s) > U.size_of(dst, side): return False
            if any(is_real(x) and any(y is x for y in d) for x in s): return False
        return True
    if o == 'replace_with_none':
        u = U.units[op['u']]
        for i, x in zip(tuple(u.ins), tuple(u.outs)):
            if not is_real(i) and not is_real(x): continue
            src = i.source if is_real(i) or isinstance(i, AbstractMissingStream) else None
            if src:
                if is_real(x) and any(y is x for y in src.outs): return False
                if src is u: return False
            else:
                snk = x.sink
                if snk:
                    if is_real(i) and any(y is i for y in snk.ins): return False
                    if snk is u: return False
        return True
    if o == 'reconnect':
        return op['k'] < len(U.connections)
    if o == 'record':
        s = U.resolve(op['s']); return s is not None and is_real(s)
    if o == 'pipe-in' or o == 'pipe-out':
        side = 'in' if o == 'pipe-in' else 'out'
        seq = U.seq(op['u'], side); s = U.resolve(op['s'])
        if s is None or not is_real(s) or any(x is s for x in seq): return False      # a placeholder has no pipe operators
        if op['i'] < 0: return in_range(op['i'], len(seq))
        return op['i'] < len(seq) or (op['i'] == len(seq) and not U.fixed(op['u'], side))
    if o == 'unit-unit':
        a, b = U.units[op['u']], U.units[op['v']]
        if a is b: return False
        if U.fixed_of(b, 'in') and len(a.outs) > U.size_of(b, 'in'): return False
        return not any(is_real(x) and any(y is x for y in b.ins) for x in a.outs)
    if o == 'streams-unit':
        u = U.units[op['u']]; ss = [U.resolve(r) for r in op['ss']]
        side = op['side']; seq = U.seq(op['u'], side)
        form = op.get('form')
        if any(s is None or not is_streamlike(s) for s in ss) or len(set(map(id, ss))) != len(ss): return False
        if form is None and not all(is_real(s) for s in ss): return False
        if form == 'bare':
            if len(ss) != 1: return False
            if is_ph(ss[0]) and side == 'out': return False       # unit - <placeholder> is not a pipe form (the placeholder has no reflected operator)
        if form == 'ndarray' and side == 'in' and not all(is_real(s) for s in ss): return False     # numpy applies the bare form element by element
        if U.fixed(op['u'], side) and len(ss) > U.size(op['u'], side): return False
        return not any(any(y is x for y in seq) for x in ss)
    if o == 'construct':
        ins = [U.resolve(r) for r in op['ins']]; outs = [U.resolve(r) for r in op['outs']]
        nin, nout, fin, fout = op['cfg']
        form = op.get('form') or 'list'
        real = [x for x in ins + outs if x is not None]
        if form == 'single':
            if not all(is_streamlike(x) for x in ins[:1] + outs[:1]) or any(x is None for x in ins[:1] + outs[:1]): return False
            return True
        if not all(is_real(x) for x in real): return False
        if len(set(map(id, [x for x in ins if x is not None]))) != len([x for x in ins if x is not None]): return False
        if len(set(map(id, [x for x in outs if x is not None]))) != len([x for x in outs if x is not None]): return False
        if form in ('str', 'auto'): return True
        if form == 'over':            # more streams than N: accepted by a variable list, documented RuntimeError for a fixed one
            return not any(x is None for x in (ins if fin else []) + (outs if fout else []))
        if fin and len(ins) > nin: return False
        if fout and len(outs) > nout: return False
        if form in ('strs', 'none-fixed'): return True
        if form == 'mixed': return not any(x is None for x in ins + outs)
        if fin and any(x is None for x in ins): return False      # fixed-size construction takes streams, not None
        if fout and any(x is None for x in outs): return False
        return True
    if o == 'ports':
        ss = [U.resolve(r) for r in op['ss']]
        of = [U.resolve(r) for r in op['of']]
        if not of or any(x is None or not is_streamlike(x) for x in of) or len(set(map(id, of))) != len(of): return False
        given = [x for x in ss if x is not None]
        if not all(is_streamlike(x) for x in given) or len(set(map(id, given))) != len(given): return False
        if len(given) != len([r for r in op['ss'] if r is not None]): return False
        kind, P = ports_plan(U, op)
        if kind == 'outside': return False
        if kind == 'undocked': return True       # a stream that is not docked on that side: documented ValueError, exercised as a refusal
        n = len(P)
        if op['mode'] == 'slice':
            sel = P[slice(op['a'], op['b'])]
            if len(sel) != len(ss): return True  # documented IndexError, exercised as a refusal
        else:
            if len(ss) != 1 or not in_range(op['k'], n): return False
            sel = [P[op['k']]]
        for (unit, idx), s in zip(sel, ss):
            lst = unit.ins if op['side'] == 'in' else unit.outs
            if s is not None and any(y is s for y in lst): return False
        return True
    if o == 'temp-conn':
        a, b = U.units[op['u']], U.units[op['v']]
        if len(a.outs) < 1 or len(b.ins) < 1: return False
        return is_real(a.outs[0]) and is_real(b.ins[0])
    raise ValueError(o)


def execute(U, op):
    """runs the real operation; returns an operation-specific postcondition error string, a Refused object or None."""
    o = op['op']
    if o == 'set':
        seq = U.seq(op['u'], op['side']); s = U.resolve(op['s']); i = op['i']
        old = seq[i] if i < len(seq) else None
        seq[i] = s
        if s is not None and seq[i] is not s: return 'assigned stream is not at the port'
        if s is None and bool(seq[i]): return 'assigning None did not leave a placeholder'
        if is_real(old) and old is not s and docked(old, op['side']) and getattr(old, U.attr(op['side'])) is U.units[op['u']]: return 'replaced stream still docked at this unit'
        return None
    if o == 'slice':
        seq = U.seq(op['u'], op['side']); ss = [U.resolve(r) for r in op['ss']]
        seq[slice(op['a'], op['b'], op.get('st'))] = ss
        for s in ss:
            if s is not None and not any(x is s for x in seq): return 'slice-assigned stream missing from the list'
        return None
    if o == 'append':
        seq = U.seq(op['u'], op['side']); s = U.resolve(op['s']); seq.append(s)
        return None if seq[len(seq) - 1] is s else 'appended stream is not last'
    if o == 'insert':
        seq = U.seq(op['u'], op['side']); s = U.resolve(op['s']); seq.insert(op['i'], s)
        if op['i'] < 0: return None if any(x is s for x in seq) else 'inserted stream is not in the list'
        return None if seq[op['i']] is s else 'inserted stream is not at the index'
    if o == 'extend':
        seq = U.seq(op['u'], op['side']); ss = [U.resolve(r) for r in op['ss']]; seq.extend(ss)
        return None if all(any(x is s for x in seq) for s in ss) else 'extended stream missing'
    if o == 'pop':
        seq = U.seq(op['u'], op['side']); expect = seq[op['i']]; n = len(seq)
        got = seq.pop(op['i'])
        if got is not expect: return 'pop returned another stream'
        if any(x is got for x in seq) and is_real(got): return 'popped stream still listed'
        fixed = U.fixed(op['u'], op['side'])
        if fixed and len(seq) != n: return 'fixed-size list changed length on pop'
        if not fixed and len(seq) != n - 1: return 'variable-size list did not shrink on pop'
        return None
    if o == 'remove':
        seq = U.seq(op['u'], op['side']); s = seq[op['i']]
        seq.remove(s)
        return 'removed stream still listed' if any(x is s for x in seq) else None
    if o == 'replace':
        seq = U.seq(op['u'], op['side']); old = seq[op['i']]; s = U.resolve(op['s'])
        seq.replace(old, s)
        return None if seq[op['i']] is s else 'replace did not put the new stream at the old position'
    if o == 'clear':
        seq = U.seq(op['u'], op['side']); old = [x for x in seq if is_real(x)]
        seq.clear()
        if any(is_real(x) for x in seq): return 'clear left real streams'
        return None
    if o == 'empty':
        seq = U.seq(op['u'], op['side']); seq.empty()
        return 'empty left real streams' if any(is_real(x) for x in seq) else None
    if o == 'reverse':
        seq = U.seq(op['u'], op['side']); was = list(seq)
        seq.reverse()
        now = list(seq)
        if len(now) != len(was): return 'reverse changed the number of ports'
        if any(is_real(x) and x is not y for x, y in zip(was, reversed(was))): U.note('post:reverse:real-moved')
        for x, y in zip(reversed(was), now):
            if (is_real(x) or is_real(y)) and x is not y: return 'reverse: the streams are not in the reversed order'
        return None
    if o in ('disconnect_source', 'disconnect_sink', 'disconnect'):
        s = U.resolve(op['s'])
        getattr(s, o)()
        if is_real(s):
            if o in ('disconnect_source', 'disconnect') and s._source is not None: return 'stream still has a source after disconnect_source'
            if o in ('disconnect_sink', 'disconnect') and s._sink is not None: return 'stream still has a sink after disconnect_sink'
        return None
    if o == 'unit.disconnect' and op.get('mode') == 'v2':
        u = U.units[op['u']]
        kw, expect, chosen = disconnect_plan(U, op)
        # join_ends docks each chosen inlet where the paired outlet went; when that outlet fed this very unit (self-loop) the inlet is docked here again by design
        rejoined = {id(a) for a, b in zip(chosen['inlets'], chosen['outlets']) if kw.get('join_ends') and getattr(b, '_sink', None) is u}
        try:
            u.disconnect(**kw)
        except ValueError as e:
            if expect and expect in str(e): return Refused('unit.disconnect(join_ends=True) with unequal numbers of inlets and outlets: ValueError', 'unequal-ends')
            raise
        if op.get('inlets') is not None:
            for x in chosen['inlets']:
                if is_real(x) and id(x) not in rejoined and any(y is x for y in u.ins): return 'unit.disconnect(inlets=...) left a chosen inlet docked'
        if op.get('outlets') is not None:
            for x in chosen['outlets']:
                if is_real(x) and any(y is x for y in u.outs): return 'unit.disconnect(outlets=...) left a chosen outlet docked'
        if op.get('inlets') is None and any(is_real(x) for x in u.ins): return 'unit.disconnect left real inlets docked'
        if op.get('outlets') is None and any(is_real(x) for x in u.outs): return 'unit.disconnect left real outlets docked'
        return None
    if o == 'unit.disconnect':
        u = U.units[op['u']]
        kw = {}
        if op.get('join'): kw['join_ends'] = True
        if op.get('inlets') is not None:
            kw['inlets'] = [i for i in op['inlets'] if i < len(u.ins)]; kw['outlets'] = [i for i in op.get('outlets', []) if i < len(u.outs)]
            if op.get('as_streams'):
                kw['inlets'] = [u.ins[i] for i in kw['inlets'] if is_real(u.ins[i])]; kw['outlets'] = [u.outs[i] for i in kw['outlets'] if is_real(u.outs[i])]
            chosen_in = [u.ins[i] if isinstance(i, int) else i for i in kw['inlets']]
            chosen_out = [u.outs[i] if isinstance(i, int) else i for i in kw['outlets']]
        rejoined = {id(a) for a, b in zip(chosen_in, chosen_out) if kw.get('join_ends') and getattr(b, '_sink', None) is u} if op.get('inlets') is not None else set()
        u.disconnect(**kw)
        if op.get('inlets') is not None:
            for x in chosen_in:
                if is_real(x) and id(x) not in rejoined and any(y is x for y in u.ins): return 'unit.disconnect(inlets=...) left a chosen inlet docked'
            for x in chosen_out:
                if is_real(x) and any(y is x for y in u.outs): return 'unit.disconnect(outlets=...) left a chosen outlet docked'
        if 'inlets' not in kw and (any(is_real(x) for x in u.ins) or any(is_real(x) for x in u.outs)): return 'unit.disconnect left real streams docked'
        return None
    if o == 'unit.insert' and op.get('mode') == 'v2':
        u = U.units[op['u']]; s = U.resolve(op['s'])
        src, snk = s.source, s.sink
        kw, expect, X, I, added = insert_plan(U, op)
        try:
            u.insert(s, **kw)
        except ValueError as e:
            if expect and expect in str(e): return Refused('unit.insert: ' + expect + ': ValueError', expect.replace(' ', '-'))
            raise
        if expect: return Err(f'unit.insert accepted a call that its documentation answers with ValueError ({expect})', 'accepted-where-documented-refusal')
        if not any(x.source is src for x in u.ins): return 'after insert no inlet of the unit comes from the old source'
        if not any(x.sink is snk for x in u.outs): return 'after insert no outlet of the unit goes to the old sink'
        return None
    if o == 'unit.insert':
        u = U.units[op['u']]; s = U.resolve(op['s'])
        src, snk = s.source, s.sink
        if op.get('explicit'): u.insert(s, inlet=op['inlet'], outlet=op['outlet'])
        else: u.insert(s)
        # the unit now sits in the line: src -> u -> snk
        if not any(x.source is src for x in u.ins): return 'after insert no inlet of the unit comes from the old source'
        if not any(x.sink is snk for x in u.outs): return 'after insert no outlet of the unit goes to the old sink'
        return None
    if o in ('take_place_of', 'replace_with'):
        a, b = U.units[op['u']], U.units[op['v']]
        dst, src = (a, b) if o == 'take_place_of' else (b, a)
        former = {'ins': list(src.ins), 'outs': list(src.outs)}
        if o == 'take_place_of': a.take_place_of(b)
        else: a.replace_with(b)
        if any(is_real(x) for x in former['ins'] + former['outs']): U.note(f'post:{o}:real-moved')
        return took_over(U, dst, src, former, o)
    if o == 'replace_with_none':
        u = U.units[op['u']]
        # the plan, from the state before the call: pair k bridges inlet k and outlet k of the unit
        plan = []
        for i, x in zip(tuple(u.ins), tuple(u.outs)):
            if not (is_real(i) and is_real(x)): continue
            S = i._source
            if S is not None and S is not u:
                plan.append(('outs', S, [k for k, y in enumerate(S.outs) if y is i], x, i))
            elif S is None and x._sink is not None and x._sink is not u:
                K = x._sink
                plan.append(('ins', K, [k for k, y in enumerate(K.ins) if y is x], i, x))
        u.replace_with()
        if any(is_real(y) for y in u.ins) or any(is_real(y) for y in u.outs): return 'replace_with(): the removed unit still lists real streams'
        for side, W, pos, keep, gone in plan:
            if len(pos) != 1: continue
            U.note('post:replace_with_none:bridged-' + side)
            lst = list(getattr(W, side))
            if pos[0] >= len(lst) or lst[pos[0]] is not keep:
                return f'replace_with(): {W.ID}.{side}[{pos[0]}] does not hold the stream {nm(keep)} that bridges the removed unit'
            if any(y is gone for y in lst): return f'replace_with(): {W.ID}.{side} still lists the bridged-over stream {nm(gone)}'
        return None
    if o == 'record':
        s = U.resolve(op['s'])
        c = s.get_connection()
        U.connections.append(c)
        # the record against the live lists (auxiliary streams, the only documented source of index -1, do not exist in this universe)
        if c.stream is not s: return 'get_connection: the record names another stream'
        if c.source is not s._source or c.sink is not s._sink: return 'get_connection: the record names another source / sink than the stream has'
        for unit, idx, side in ((c.source, c.source_index, 'outs'), (c.sink, c.sink_index, 'ins')):
            if unit is None:
                if idx is not None: return f'get_connection: an index into {side} without a unit'
                continue
            if not isinstance(idx, int) or isinstance(idx, bool): return f'get_connection: the index into {side} of {unit.ID} is {idx!r}'
            lst = list(getattr(unit, side))
            if not (0 <= idx < len(lst)) or lst[idx] is not s: return f'get_connection: {unit.ID}.{side}[{idx}] is not the recorded stream'
            U.note('post:record:index-checked')
        return None
    if o == 'reconnect':
        c = U.connections[op['k']]
        # precondition (b) for the two assignments reconnect performs; a record that cannot be replayed on the live state is SKIPPED (not an effective operation)
        if c.source and c.source_index is not None and c.source_index >= 0:
            if c.source_index >= len(c.source.outs) and U.fixed_of(c.source, 'out'): return Skip('index beyond a fixed-size list')
            if any(x is c.stream for j, x in enumerate(c.source.outs) if j != c.source_index): return Skip('stream at another port of the same list')
        if c.sink and c.sink_index is not None and c.sink_index >= 0:
            if c.sink_index >= len(c.sink.ins) and U.fixed_of(c.sink, 'in'): return Skip('index beyond a fixed-size list')
            if any(x is c.stream for j, x in enumerate(c.sink.ins) if j != c.sink_index): return Skip('stream at another port of the same list')
        if (c.source and (c.source_index is None or c.source_index < 0)) or (c.sink and (c.sink_index is None or c.sink_index < 0)):
            return Skip('record without a port index')        # cannot be reached through a record that passed the check at 'record'
        if c.source and c.source_index > len(c.source.outs): return Skip('index beyond the end of a variable list')
        if c.sink and c.sink_index > len(c.sink.ins): return Skip('index beyond the end of a variable list')
        c.reconnect()
        s = c.stream
        if s.source is not c.source or s.sink is not c.sink: return 'reconnect did not restore source/sink'
        if c.source is not None and not (c.source_index < len(c.source.outs) and c.source.outs[c.source_index] is s): return 'reconnect: the stream is not at the recorded outlet port'
        if c.sink is not None and not (c.sink_index < len(c.sink.ins) and c.sink.ins[c.sink_index] is s): return 'reconnect: the stream is not at the recorded inlet port'
        if c.source is not None or c.sink is not None: U.note('post:reconnect:port-checked')
        return None
    if o == 'pipe-in':
        u = U.units[op['u']]; s = s0 = U.resolve(op['s']); i = op['i']
        if op.get('idx_read') and op['s'][0] == 'p': s = U.read_by_pipe(op['s'])
        minus = op.get('minus', True); mix = op.get('mix')
        if minus and not mix: r = s - i - u
        elif minus: r = (s - i) ** u
        elif not mix: r = (s ** i) ** u
        else: r = (s ** i) - u
        return None if (r is u and u.ins[op['i']] is s0) else 'inlet pipe did not connect'
    if o == 'pipe-out':
        u = U.units[op['u']]; s = s0 = U.resolve(op['s']); i = op['i']
        if op.get('idx_read') and op['s'][0] == 'p': s = U.read_by_pipe(op['s'])
        pw = op.get('pow', True); mix = op.get('mix')
        if pw and not mix: r = u ** i ** s
        elif pw: r = u - (i ** s)
        elif not mix: r = u - (i - s)
        else: r = u ** (i - s)
        return None if u.outs[op['i']] is s0 else 'outlet pipe did not connect'
    if o == 'unit-unit':
        a, b = U.units[op['u']], U.units[op['v']]
        was = list(a.outs)
        if op.get('pow'): r = a ** b
        else: r = a - b
        if r is not b: return 'unit - unit did not return the downstream unit'
        now = list(b.ins); kept = list(a.outs)
        if len(now) < len(was): return f'unit - unit: the downstream unit holds {len(now)} inlets, the upstream unit has {len(was)} outlets'
        if len(kept) != len(was): return 'unit - unit changed the number of outlets of the upstream unit'
        for j, x in enumerate(was):
            if is_real(x):
                if now[j] is not x: return f'unit - unit: inlet {j} of the downstream unit is not outlet {j} of the upstream unit'
                if kept[j] is not x: return f'unit - unit: outlet {j} of the upstream unit changed'
            elif is_real(now[j]): return f'unit - unit: inlet {j} of the downstream unit holds a real stream where the upstream unit has a placeholder'
        if any(is_real(y) for y in now[len(was):]): return 'unit - unit: the downstream unit kept real inlets of its own beyond the piped ones'
        if any(is_real(x) for x in was): U.note('post:unit-unit:real-piped')
        return None
    if o == 'streams-unit':
        u = U.units[op['u']]; ss = [U.resolve(r) for r in op['ss']]
        form = op.get('form')
        if form == 'bare':
            try:
                if op['side'] == 'in': ss[0] - u
                else: u - ss[0]
            except ValueError as e:
                if is_ph(ss[0]) and 'cannot pipe' in str(e): return Refused('streams-unit: <placeholder> - unit: ValueError cannot pipe', 'placeholder-has-no-pipe')
                raise
        elif form == 'list':
            if op['side'] == 'in': list(ss) - u
            else: u - list(ss)
        elif form == 'ndarray':
            arr = np.empty(len(ss), dtype=object); arr[:] = ss
            if op['side'] == 'in':
                arr - u          # numpy applies `stream - unit` element by element: each one replaces the whole inlet list, only the graph invariant is judged
                return None
            else: u - arr
        else:
            if op['side'] == 'in': tuple(ss) - u
            else: u - tuple(ss)
        return None if all(any(x is s for x in U.seq(op['u'], op['side'])) for s in ss) else 'piped streams missing'
    if o == 'construct':
        cls = unit_class(*op['cfg'])
        form = op.get('form') or 'list'
        if form in ('list',):
            ins = [U.resolve(r) for r in op['ins']]; outs = [U.resolve(r) for r in op['outs']]
            u = cls(None, ins=ins if ins else None, outs=outs if outs else ())
        else:
            (iarg, ins), (oarg, outs) = construct_args(U, op)
            nin, nout, fin, fout = op['cfg']
            too_many = (fin and not isinstance(iarg, str) and is_seq(iarg) and len(iarg) > nin) or (fout and not isinstance(oarg, str) and is_seq(oarg) and len(oarg) > nout)
            try:
                u = cls(None, ins=iarg, outs=oarg)
            except RuntimeError as e:
                if too_many and 'size exceeds' in str(e): return Refused('construct: more streams than a fixed-size list holds: RuntimeError', 'size-exceeds')
                raise
        u._ID = f'u{len(U.units)}'
        U.add_unit(u, op['cfg'])
        for s in [x for x in ins if x is not None]:
            if not any(y is s for y in u.ins): return 'constructed unit does not list a given inlet'
        for s in [x for x in outs if x is not None]:
            if not any(y is s for y in u.outs): return 'constructed unit does not list a given outlet'
        return None
    if o == 'ports':
        side = op['side']; ss = [U.resolve(r) for r in op['ss']]
        kind, targets = ports_plan(U, op)          # what the harness sees on the inputs, before the call
        try:
            ports = build_ports(U, op)
        except ValueError as e:
            if 'to any unit' in str(e):
                if kind == 'undocked': return Refused(f'StreamPorts.from_{side}lets: stream not docked on that side: ValueError', 'not-docked')
                return Err(f'StreamPorts.from_{side}lets refused streams that are all docked on that side: {e}', 'refused-although-docked')
            raise
        if kind == 'undocked':
            return Err(f'StreamPorts.from_{side}lets accepted a stream that is not docked on that side (documented ValueError)', 'accepted-where-documented-refusal')
        if len(ports) != len(targets): return 'StreamPorts holds another number of ports than streams given'
        if op['mode'] == 'slice':
            sel = targets[slice(op['a'], op['b'])]
            try:
                ports[op['a']:op['b']] = ss
            except IndexError as e:
                if 'must match the size of slice' in str(e):
                    if len(sel) != len(ss): return Refused('StreamPorts slice assignment of another length: IndexError', 'slice-length')
                    return Err(f'StreamPorts slice assignment refused {len(ss)} streams for a slice of {len(sel)} ports: {e}', 'refused-although-length-matches')
                raise
            if len(sel) != len(ss): return Err('StreamPorts slice assignment accepted a list of another length (documented IndexError)', 'accepted-where-documented-refusal')
        else:
            sel = [targets[op['k']]]
            port = ports._ports[op['k']]
            if op['mode'] == 'direct': port.set_stream(ss[0], 2)
            else: ports[op['k']] = ss[0]
        # judged on the unit's own port list at the (unit, index) the harness located before the call, not through the port object
        for (unit, idx), s in zip(sel, ss):
            lst = unit.ins if side == 'in' else unit.outs
            if idx >= len(lst): return 'the port the stream was docked at is gone'
            if s is not None and lst[idx] is not s: return 'stream assigned through a port is not at that port'
            if s is None and bool(lst[idx]): return 'assigning None through a port did not leave a placeholder'
            U.note('post:ports:judged-on-unit-list')
        return None
    if o == 'temp-conn':
        a, b = U.units[op['u']], U.units[op['v']]
        n0 = len(_net.temporary_units_dump)
        up, down = a.outs[0], b.ins[0]
        up_sink, down_source = up._sink, down._source
        up_pos = [k for k, y in enumerate(up_sink.ins) if y is up] if up_sink is not None else []
        temporary_connection(a, b)
        for tu in _net.temporary_units_dump[n0:]:
            tu.ID = tu._ID = f'TU{len(U.temps)}'      # the library numbers them with a process-wide counter: renamed so that a case replays alike in isolation
            U.add_temp(tu)
        if up is down: U.note('temp-conn:one-stream-is-both-ends'); return None                    # one stream is both ends: the two temporary units are chained through it, only the graph invariant is judged
        # the upstream end: outlet 0 of `a` is untouched and now feeds a temporary source; whatever it fed before is fed by that temporary source
        if a.outs[0] is not up or up._source is not a: return 'temporary_connection changed the first outlet of the upstream unit'
        ts = up._sink
        if type(ts).__name__ != 'TemporarySource' or not any(t is ts for t in U.temps): return 'temporary_connection: the first outlet of the upstream unit does not feed a temporary source'
        if type(up_sink).__name__ == 'TemporarySource':
            if ts is not up_sink: return 'temporary_connection replaced the temporary source that was already in the line'
        else:
            if not any(t is ts for t in _net.temporary_units_dump[n0:]): return 'temporary_connection: the temporary source is not a new unit'
            if up_sink is not None and len(up_pos) == 1:
                y = up_sink.ins[up_pos[0]] if up_pos[0] < len(up_sink.ins) else None
                if not is_real(y) or y._source is not ts: return 'temporary_connection: the former sink of the upstream stream is not fed by the temporary source at the same port'
        # the downstream end: inlet 0 of `b` comes from a temporary sink that receives the former inlet
        d = b.ins[0]
        tk = d._source if is_streamlike(d) else None
        if not is_real(d) or type(tk).__name__ != 'TemporarySink' or not any(t is tk for t in U.temps): return 'temporary_connection: the first inlet of the downstream unit does not come from a temporary sink'
        if type(down_source).__name__ == 'TemporarySink':
            if d is not down or tk is not down_source: return 'temporary_connection replaced the temporary sink that was already in the line'
        else:
            if down._sink is not tk or down._source is not down_source: return 'temporary_connection: the former first inlet of the downstream unit does not feed the temporary sink from its old source'
        # the temporary stream links the two temporary units
        if not any(is_real(t) and t._sink is tk for t in ts.outs): return 'temporary_connection: no stream runs from the temporary source to the temporary sink'
        U.note('post:temp-conn:both-ends')
        return None
    raise ValueError(o)


def is_seq(x): return isinstance(x, (list, tuple))


def mech(op):
    o = op['op']
    if o in ('set', 'slice', 'append', 'insert', 'extend', 'pop', 'remove', 'replace', 'clear', 'empty'):
        return o
    return o


def operand_refs(op):
    refs = [op.get(k) for k in REF_KEYS_1 if op.get(k) is not None]
    for k in ('ss', 'of'):
        refs += [r for r in op.get(k, ()) if r is not None]
    if op['op'] == 'construct' and (op.get('form') or 'list') in ('list', 'single', 'mixed', 'over', 'none-fixed'):
        refs += [r for r in op['ins'] + op['outs'] if r is not None]
    return refs


def describe(U, op):
    """(key variant suffix, reach counters) of the call form the operation takes on the live state; evaluated before the call."""
    o = op['op']; variant = ''; hits = []
    seq = U.seq(op['u'], op['side']) if 'side' in op and 'u' in op else None
    if seq is not None: variant = '/fixed' if U.fixed(op['u'], op['side']) else '/variable'
    if o == 'unit.insert':
        u = U.units[op['u']]; variant = '/variable-outs' if not U.fixed_of(u, 'out') else ('/explicit' if op.get('explicit') else '/fixed')
        if op.get('mode') == 'v2':
            kw, expect, X, I, added = insert_plan(U, op)
            if op.get('foreign_in') is not None or op.get('foreign_out') is not None:
                variant += '/given-stream'; hits.append('unit.insert:foreign-refused' if expect and 'must be this object' in expect else 'unit.insert:given-stream-accepted')
            elif any(is_real(v) for v in kw.values()): variant += '/stream-objects'; hits.append('unit.insert:stream-objects')
            if 'inlet' in kw and 'outlet' not in kw: variant += '/inlet-only'; hits.append('unit.insert:inlet-only')
            if 'outlet' in kw and 'inlet' not in kw: variant += '/outlet-only'; hits.append('unit.insert:outlet-only')
            if any(isinstance(v, int) and v < 0 for v in kw.values()): hits.append('neg-index:unit.insert')
    if o == 'unit.disconnect':
        variant = '/join' if op.get('join') else ('/partial' if op.get('inlets') is not None else '')
        if op.get('mode') == 'v2':
            kw, expect, chosen = disconnect_plan(U, op)
            part = op.get('inlets') is not None or op.get('outlets') is not None
            variant = ('/partial-join' if op.get('join') else '/partial') if part else ('/join' if op.get('join') else '')
            if op.get('inlets') is not None and op.get('outlets') is None: variant += '/inlets-only'; hits.append('unit.disconnect:inlets-only')
            if op.get('outlets') is not None and op.get('inlets') is None: variant += '/outlets-only'; hits.append('unit.disconnect:outlets-only')
            given = kw.get('inlets', []) + kw.get('outlets', [])
            if given: variant += '/indices' if all(isinstance(v, int) for v in given) else ('/streams' if not any(isinstance(v, int) for v in given) else '/indices+streams')
            if part and op.get('join') and (chosen['inlets'] or chosen['outlets']): hits.append('unit.disconnect:partial-join')
            if any(isinstance(v, int) and v < 0 for v in given): hits.append('neg-index:unit.disconnect')
    if o == 'pipe-in':
        minus = op.get('minus', True); mix = op.get('mix')
        sp = 'mixed' if mix else ('s-i-u' if minus else '(s**i)**u')
        hits.append('pipe-in:' + sp)
        if sp != 's-i-u': variant += '/' + sp
    if o == 'pipe-out':
        pw = op.get('pow', True); mix = op.get('mix')
        sp = 'mixed' if mix else ('u**i**s' if pw else 'u-(i-s)')
        hits.append('pipe-out:' + sp)
        if sp != 'u**i**s': variant += '/' + sp
    if o in ('pipe-in', 'pipe-out') and op.get('idx_read') and op['s'][0] == 'p': hits.append('pipe:operand-by-index-read'); variant += '/operand-by-index-read'
    if o == 'unit-unit' and op.get('pow'): hits.append('unit-unit:pow'); variant += '/pow'
    if o == 'streams-unit' and op.get('form'):
        variant += '/' + op['form']; hits.append(f"streams-unit:{op['form']}/{op['side']}")
    if o == 'construct' and op.get('form'):
        variant += '/' + op['form']
        form = op['form']; cfg = op['cfg']
        if form == 'over':
            if (not cfg[2] and len(op['ins']) > cfg[0]) or (not cfg[3] and len(op['outs']) > cfg[1]): hits.append('construct:over-variable')
        elif form == 'none-fixed':
            if (cfg[2] and None in op['ins']) or (cfg[3] and None in op['outs']): hits.append('construct:none-in-fixed')
        else: hits.append('construct:' + form)
    if o == 'ports':
        variant += f"/{op['side']}/{op['mode']}"
        hits.append({'item': 'ports:item', 'slice': 'ports:slice', 'direct': 'ports:set_stream'}[op['mode']])
        if op.get('sort'): hits.append('ports:sorted')
    if o == 'slice':
        if op.get('st') not in (None, 1): variant += '/step'; hits.append('slice:step')
        if any(v is not None and v < 0 for v in (op['a'], op['b'])): variant += '/negative-bound'; hits.append('neg-index:slice')
    if o in ('set', 'pop', 'insert', 'remove', 'replace', 'pipe-in', 'pipe-out') and op.get('i', 0) < 0:
        variant += '/negative-index'; hits.append('neg-index:' + o)
    if o == 'set' and op['i'] == len(seq) : hits.append('set:at-len')
    if o == 'insert' and op['i'] > 0: hits.append('insert:at-i>0')
    # placeholder objects handed to the operation (judged on the live state, not on the kind of reference)
    phs = [x for x in (U.resolve(r) for r in operand_refs(op)) if is_ph(x)]
    if phs and o != 'record':
        variant += '/placeholder-operand'
        hits += ['op:placeholder-operand', 'op:placeholder-operand/' + o]
        own = U.units[op['u']] if 'u' in op else None
        if own is not None and any((x._sink is not None and x._sink is not own) or (x._source is not None and x._source is not own) for x in phs):
            hits.append('op:placeholder-operand/of-another-unit')
    return variant, hits


def run_sequence(U, ops, rec, clause, case):
    """executes ops on the live universe, checking after each; returns number of effective operations."""
    n_eff = 0
    for k, op in enumerate(ops):
        if not pre(U, op):
            continue
        o = op['op']
        variant, hits = describe(U, op)
        del U.notes[:]
        try:
            with warnings.catch_warnings():
                warnings.simplefilter('ignore')
                post = execute(U, op)
        except Exception as e:
            rec.exception(f'{clause}', e, case=case, what=f'step {k} {op} ({o}{variant}) raised {type(e).__name__}: {str(e)[:150]}')
            rec.violations  # noqa
            return n_eff, False
        if isinstance(post, Skip):
            rec.hit(f'{o}:skipped'); rec.refuse(f'{o} not called: {post.reason}')
            continue
        if isinstance(post, Refused):
            # documented refusal (the harness saw on the inputs that it is due): the raise itself is counted, not judged.  The refused call may have run part of
            # its assignments: the graph it leaves must still be consistent (a stream left half-docked by a call that raised is a violation of the invariant).
            rec.refuse(post.reason)
            rec.hit(f'refused:{o}'); rec.hit('refused:graph-judged')
            for h in hits:
                if h.endswith('-refused'): rec.hit(h)
            errs = check(U)
            if not rec.check(not errs, clause, f'{o}{variant}/refused/{post.slug}/left-inconsistent-graph',
                             f'step {k} {op} was refused ({post.reason}) and left an inconsistent graph: {errs[:3]}', detail={'errors': errs[:8], 'step': k}, case=case):
                rec.hit('refusal-left-inconsistent-graph')
                return n_eff, False
            continue
        n_eff += 1
        name = 'op:' + o
        rec.hit(name)
        for h in U.notes: rec.hit(h)
        for h in hits:
            if not h.endswith('-refused'): rec.hit(h)      # '*-refused' counters prove a refusal: hit in the Refused branch only
        if o == 'set':
            s = U.resolve(op['s'])
        if o == 'unit.disconnect' and op.get('join'): rec.hit('op:unit.disconnect-join')
        if op.get('moves'): rec.hit('op:set-move')
        if op.get('placeholder'): rec.hit('op:placeholder')
        errs = check(U)
        if U.temps: rec.hit('temp-conn:units-checked')
        if U.evicted_auto: rec.hit('ever-seen:auto-created-stream-evicted')
        suffix = ''
        if post:
            errs = [str(post)] + errs
            if getattr(post, 'suffix', ''): suffix = '/' + post.suffix
        if errs:
            rec.violation(f'C18/{clause}/{o}{variant}{suffix}', f'after step {k} {op}: {errs[:3]}', detail={'errors': errs[:8], 'step': k}, case=case)
            return n_eff, False
        rec.ok(clause)
    return n_eff, True

# ---------------------------------------------------------------------------
# bounded exhaustive part

EXH_CONFIGS = [(2, 1, True, True), (1, 2, True, False), (2, 2, False, True)]


def enabled_ops(U, extras=True):
    ops = []
    nu = len(U.units); ns = len(U.streams)
    srefs = [('s', k) for k in range(ns)]
    for u in range(nu):
        for side in ('in', 'out'):
            seq = U.seq(u, side)
            n = len(seq)
            for i in range(n):
                for r in srefs + [None]:
                    ops.append({'op': 'set', 'u': u, 'side': side, 'i': i, 's': r})
                ops.append({'op': 'pop', 'u': u, 'side': side, 'i': i})
                if is_real(seq[i]): ops.append({'op': 'remove', 'u': u, 'side': side, 'i': i})
            if not U.fixed(u, side):
                for r in srefs:
                    ops.append({'op': 'append', 'u': u, 'side': side, 's': r})
                    ops.append({'op': 'insert', 'u': u, 'side': side, 'i': 0, 's': r})
            ops.append({'op': 'clear', 'u': u, 'side': side})
            ops.append({'op': 'empty', 'u': u, 'side': side})
        ops.append({'op': 'unit.disconnect', 'u': u})
        ops.append({'op': 'unit.disconnect', 'u': u, 'join': True})
        ops.append({'op': 'replace_with_none', 'u': u})
        for v in range(nu):
            if v != u:
                ops.append({'op': 'take_place_of', 'u': u, 'v': v})
                ops.append({'op': 'replace_with', 'u': u, 'v': v})
                ops.append({'op': 'unit-unit', 'u': u, 'v': v})
        for r in srefs:
            ops.append({'op': 'unit.insert', 'u': u, 's': r})
    for r in srefs:
        ops.append({'op': 'disconnect_source', 's': r})
        ops.append({'op': 'disconnect_sink', 's': r})
    if extras: ops += extra_ops(U)
    return [op for op in ops if pre(U, op)]


SUB = [('s', 0), ('s', 1)]                    # the new shapes run over two of the five streams ...
PA = ('p', 0, 'out', 0)                       # ... the outlet port of A (an auto-created stream at the start, possibly a placeholder later)
PP = ('p', 0, 'in', 1)                        # ... and the second inlet port of A (a placeholder of A at the start)
SLICE_BOUNDS = [(None, None), (0, 1), (1, None)]
SLICE_LISTS = [[], [SUB[0]], [SUB[0], SUB[1]], [None, SUB[1]]]


def extra_ops(U):
    """op shapes the first alphabet lacks, over a deterministic sub-universe so that depth 2 stays cheap; 'x' names the shape for the reach counters."""
    ops = []
    nu = len(U.units)
    for u in range(nu):
        for side in ('in', 'out'):
            seq = U.seq(u, side); n = len(seq)
            pipe = 'pipe-in' if side == 'in' else 'pipe-out'
            for i in range(n):
                for r in (PA, PP):
                    ops.append({'op': 'set', 'u': u, 'side': side, 'i': i, 's': r, 'x': 'port-ref-operand'})
                for k, r in enumerate(SUB):
                    ops.append({'op': 'replace', 'u': u, 'side': side, 'i': i, 's': r, 'x': 'replace'})
                    alt = (i + k) % 2 == 1
                    ops.append({'op': pipe, 'u': u, 'i': i, 's': r, 'minus': not alt, 'pow': not alt, 'x': pipe})
            if n:
                ops.append({'op': 'set', 'u': u, 'side': side, 'i': -1, 's': SUB[0], 'x': 'negative-index'})
                ops.append({'op': 'pop', 'u': u, 'side': side, 'i': -1, 'x': 'negative-index'})
                ops.append({'op': pipe, 'u': u, 'i': n - 1, 's': PA, 'idx_read': True, 'mix': True, 'x': pipe})
            if not U.fixed(u, side):
                for r in SUB + [None]:
                    ops.append({'op': 'set', 'u': u, 'side': side, 'i': n, 's': r, 'x': 'set-at-len'})
                for i in sorted({1, n}):
                    if 0 < i <= n: ops.append({'op': 'insert', 'u': u, 'side': side, 'i': i, 's': SUB[0], 'x': 'insert-at-i>0'})
                ops.append({'op': 'insert', 'u': u, 'side': side, 'i': -1, 's': SUB[1], 'x': 'negative-index'})
                ops.append({'op': 'extend', 'u': u, 'side': side, 'ss': [SUB[0]], 'x': 'extend'})
                ops.append({'op': 'extend', 'u': u, 'side': side, 'ss': [SUB[1], SUB[0]], 'x': 'extend'})
                for r in (PA, PP):
                    ops.append({'op': 'append', 'u': u, 'side': side, 's': r, 'x': 'port-ref-operand'})
            for a, b in SLICE_BOUNDS:
                for ss in SLICE_LISTS:
                    ops.append({'op': 'slice', 'u': u, 'side': side, 'a': a, 'b': b, 'ss': list(ss), 'x': 'slice'})
            ops.append({'op': 'slice', 'u': u, 'side': side, 'a': -1, 'b': None, 'ss': [SUB[0]], 'x': 'slice'})
            ops.append({'op': 'slice', 'u': u, 'side': side, 'a': 0, 'b': 1, 'ss': [PP], 'x': 'slice'})
            ops.append({'op': 'streams-unit', 'u': u, 'side': side, 'ss': [SUB[0]], 'form': 'bare', 'x': 'streams-unit'})
            ops.append({'op': 'streams-unit', 'u': u, 'side': side, 'ss': [SUB[0], SUB[1]], 'form': 'list', 'x': 'streams-unit'})
            ops.append({'op': 'streams-unit', 'u': u, 'side': side, 'ss': [SUB[1], SUB[0]], 'form': 'ndarray', 'x': 'streams-unit'})
            ops.append({'op': 'reverse', 'u': u, 'side': side, 'x': 'reverse'})
        for inl, outl, obj, join in (([0], [], False, False), ([], [0], False, False), ([0], [0], True, True), ([-1], None, False, False), (None, [0], True, False), ([0], [0], False, True)):
            ops.append({'op': 'unit.disconnect', 'mode': 'v2', 'u': u, 'inlets': inl, 'outlets': outl, 'as_streams': obj, 'join': join, 'x': 'unit.disconnect-partial'})
        for r in [PA] + [('s', k) for k in range(len(U.streams))]:
            ops.append({'op': 'unit.insert', 'u': u, 's': r, 'explicit': True, 'inlet': 0, 'outlet': 0, 'x': 'unit.insert-explicit'})
        ops.append({'op': 'unit.insert', 'u': u, 's': PA, 'x': 'port-ref-operand'})
        ops.append({'op': 'unit.insert', 'mode': 'v2', 'u': u, 's': PA, 'inlet': 0, 'outlet': None, 'obj_in': True, 'x': 'unit.insert-explicit'})
        ops.append({'op': 'unit.insert', 'mode': 'v2', 'u': u, 's': PA, 'inlet': None, 'outlet': -1, 'obj_out': True, 'x': 'unit.insert-explicit'})
        for v in range(nu):
            if v != u:
                ops.append({'op': 'temp-conn', 'u': u, 'v': v, 'x': 'temp-conn'})
                ops.append({'op': 'unit-unit', 'u': u, 'v': v, 'pow': True, 'x': 'unit-unit-pow'})
    if nu <= len(EXH_CONFIGS):      # at most one constructed unit per sequence
        ops.append({'op': 'construct', 'cfg': (1, 1, True, True), 'ins': [SUB[0]], 'outs': [SUB[1]], 'x': 'construct'})
        ops.append({'op': 'construct', 'cfg': (2, 1, False, True), 'ins': [PA], 'outs': [SUB[0]], 'form': 'single', 'x': 'construct'})
        ops.append({'op': 'construct', 'cfg': (1, 2, True, False), 'ins': [], 'outs': [], 'form': 'auto', 'x': 'construct'})
        ops.append({'op': 'construct', 'cfg': (2, 2, True, False), 'ins': [PA, SUB[0]], 'outs': [SUB[1], ('s', 2), ('s', 3)], 'form': 'mixed', 'tag': 0, 'x': 'construct'})
    ops.append({'op': 'ports', 'side': 'out', 'of': [PA], 'mode': 'item', 'k': 0, 'ss': [SUB[0]], 'x': 'ports'})
    ops.append({'op': 'ports', 'side': 'in', 'of': [SUB[0]], 'mode': 'direct', 'k': 0, 'ss': [SUB[1]], 'x': 'ports'})
    ops.append({'op': 'ports', 'side': 'in', 'of': [SUB[0], SUB[1]], 'mode': 'slice', 'a': 0, 'b': 2, 'ss': [PA, None], 'sort': True, 'x': 'ports'})
    return ops


def fresh_universe():
    return Universe(EXH_CONFIGS, 5)


def replay_prefix(ops):
    U = fresh_universe()
    with warnings.catch_warnings():
        warnings.simplefilter('ignore')
        for op in ops:
            execute(U, op)
    return U


def exhaustive(rec, depth, shard, nshards):
    """all sequences of enabled operations up to `depth`; the first-level operations are split over the shards."""
    U0 = fresh_universe()
    level1 = enabled_ops(U0)
    count = 0
    for idx, op1 in enumerate(level1):
        if idx % nshards != shard: continue
        stack = [[op1]]
        while stack:
            seqops = stack.pop()
            U = fresh_universe()
            case = {'t': 'exh', 'ops': seqops}
            rec.begin_case(case)
            AbstractStream.registry.clear()
            n_eff, ok = run_sequence(U, seqops, rec, 'exhaustive', case)
            count += 1
            if ok and n_eff == len(seqops):
                for op in seqops:
                    if 'x' in op: rec.hit('exh:' + op['x'])
            deep_added = len(seqops) >= 3 and any('x' in op for op in seqops)
            if deep_added: rec.hit('exh:depth>=3-after-added-shape')       # counted, not stored one by one (memory of the distinct-case set)
            elif ok and U.seen_double or (ok and len(seqops) >= 2): rec.mark_nontrivial(case_hash(seqops))
            if ok and len(seqops) < depth:
                # beyond depth 2 the added shapes stay in the first two positions, and only a sequence whose later operations are of the first alphabet is extended
                if len(seqops) >= 2 and any('x' in op for op in seqops[1:]): continue
                for op in enabled_ops(U, extras=len(seqops) < 2):
                    stack.append(seqops + [op])
    rec.hit('exhaustive', count)
    return count

# ---------------------------------------------------------------------------
# random histories

BASE_WEIGHTS = [8, 8, 8, 4, 4, 3, 2, 3, 3, 3, 2, 2, 2, 2, 1, 2, 4, 2, 2, 1, 2, 2, 3, 3, 2, 2, 1, 2, 1]
# directed histories (run in addition to the others): a line of units is wired first and the call forms that need one (unit.insert, partial/joined
# unit.disconnect, system ports, temporary connections, record/reconnect) are drawn more often
DIRECTED_WEIGHTS = [4, 4, 4, 3, 2, 2, 1, 2, 2, 2, 1, 1, 1, 1, 1, 10, 16, 2, 2, 2, 3, 3, 3, 3, 2, 2, 3, 8, 4]


def gen_history(rng, directed=False):
    nu = rng.randrange(3, 9)
    configs = []
    for _ in range(nu):
        configs.append((rng.randrange(1, 4), rng.randrange(1, 4), rng.random() < 0.6, rng.random() < 0.6))
    ns = rng.randrange(4, 9)
    n_units = nu
    ops = []
    def sref():
        r = rng.random()
        if r < 0.7: return ('s', rng.randrange(ns))
        return ('p', rng.randrange(n_units), rng.choice(['in', 'out']), rng.randrange(3))
    def pref(side=None):
        return ('p', rng.randrange(n_units), side or rng.choice(['in', 'out']), rng.randrange(3))
    links = 0
    if directed:
        links = rng.randrange(1, min(ns, nu - 1) + 1)
        for j in range(links):
            ops.append({'op': 'set', 'u': j, 'side': 'out', 'i': 0, 's': ('s', j), 'moves': True, 'placeholder': False})
            ops.append({'op': 'set', 'u': j + 1, 'side': 'in', 'i': 0, 's': ('s', j), 'moves': True, 'placeholder': False})
    def lref():
        """a stream of the wired line (directed histories) or any reference."""
        if links and rng.random() < 0.7: return ('s', rng.randrange(links))
        return pref() if rng.random() < 0.5 else sref()
    weights = DIRECTED_WEIGHTS if directed else BASE_WEIGHTS
    def index(n, p_neg=0.15):
        """an index below n, now and then counted from the end."""
        return rng.choice([-1, -1, -2]) if rng.random() < p_neg else rng.randrange(n)
    for _ in range(rng.randrange(5, 51)):
        o = rng.choices(['set', 'set', 'set', 'slice', 'append', 'insert', 'extend', 'pop', 'remove', 'replace', 'clear', 'empty', 'disconnect_source', 'disconnect_sink',
                         'disconnect', 'unit.disconnect', 'unit.insert', 'take_place_of', 'replace_with', 'replace_with_none', 'record', 'reconnect', 'pipe-in', 'pipe-out',
                         'unit-unit', 'streams-unit', 'construct', 'ports', 'temp-conn'],
                        weights)[0]
        u = rng.randrange(n_units); side = rng.choice(['in', 'out'])
        if o == 'set':
            r = sref() if rng.random() < 0.9 else None
            ops.append({'op': 'set', 'u': u, 'side': side, 'i': index(4, 0.1), 's': r, 'moves': True, 'placeholder': r is not None and r[0] == 'p'})
        elif o == 'slice':
            a = rng.choice([None, 0, 1]); b = rng.choice([None, 1, 2, 3])
            op = {'op': 'slice', 'u': u, 'side': side, 'a': a, 'b': b, 'ss': [sref() if rng.random() < 0.85 else None for _ in range(rng.randrange(0, 4))]}
            r = rng.random()
            if r < 0.15: op['a'] = rng.choice([-1, -2])
            elif r < 0.3: op['b'] = rng.choice([-1, -2])
            elif r < 0.4: op['st'] = rng.choice([2, -1, 1]); op['a'] = rng.choice([None, 0, 1, -1]); op['b'] = None
            ops.append(op)
        elif o == 'append': ops.append({'op': 'append', 'u': u, 'side': side, 's': sref()})
        elif o == 'insert': ops.append({'op': 'insert', 'u': u, 'side': side, 'i': index(3), 's': sref()})
        elif o == 'extend': ops.append({'op': 'extend', 'u': u, 'side': side, 'ss': [sref() for _ in range(rng.randrange(1, 3))]})
        elif o in ('pop', 'remove'): ops.append({'op': o, 'u': u, 'side': side, 'i': index(3)})
        elif o == 'replace': ops.append({'op': 'replace', 'u': u, 'side': side, 'i': index(3), 's': sref()})
        elif o in ('clear', 'empty'): ops.append({'op': o, 'u': u, 'side': side})
        elif o in ('disconnect_source', 'disconnect_sink', 'disconnect'):
            r = sref(); ops.append({'op': o, 's': r, 'placeholder': r[0] == 'p'})
        elif o == 'unit.disconnect':
            r = rng.random()
            if r < 0.3: ops.append({'op': o, 'u': u})
            elif r < 0.6: ops.append({'op': o, 'u': u, 'join': True})
            elif r < 0.75: ops.append({'op': o, 'u': u, 'inlets': [rng.randrange(2)] if rng.random() < 0.6 else [], 'outlets': [rng.randrange(2)] if rng.random() < 0.6 else [], 'as_streams': rng.random() < 0.5})
            else:
                def some(k):
                    r = rng.random()
                    if r < 0.25: return None
                    if r < 0.35: return []
                    return rng.sample([0, 1, 2, -1], k=rng.randrange(1, 3))
                join = rng.random() < 0.5
                ops.append({'op': o, 'mode': 'v2', 'u': u, 'inlets': some(0), 'outlets': some(1), 'join': join,
                            'as_streams': rng.random() < (0.95 if join else 0.5)})
        elif o == 'unit.insert':
            r = rng.random()
            if r < 0.2: ops.append({'op': o, 'u': u, 's': sref(), 'explicit': True, 'inlet': rng.randrange(2), 'outlet': rng.randrange(2)})
            elif r < 0.5:
                op = {'op': o, 'mode': 'v2', 'u': u, 's': lref(), 'inlet': rng.choice([None, 0, 1, -1]), 'outlet': rng.choice([None, 0, 1, -1]),
                      'obj_in': rng.random() < 0.5, 'obj_out': rng.random() < 0.5}
                if rng.random() < 0.12: op['foreign_in'] = sref()
                if rng.random() < 0.12: op['foreign_out'] = sref()
                ops.append(op)
            else: ops.append({'op': o, 'u': u, 's': lref() if directed else sref()})
        elif o in ('take_place_of', 'replace_with'): ops.append({'op': o, 'u': u, 'v': rng.randrange(n_units)})
        elif o == 'unit-unit': ops.append({'op': o, 'u': u, 'v': rng.randrange(n_units), 'pow': rng.random() < 0.4})
        elif o == 'replace_with_none': ops.append({'op': o, 'u': u})
        elif o == 'record': ops.append({'op': 'record', 's': sref()})
        elif o == 'reconnect': ops.append({'op': 'reconnect', 'k': rng.randrange(4)})
        elif o == 'pipe-in': ops.append({'op': 'pipe-in', 'u': u, 'i': index(3, 0.1), 's': sref(), 'minus': rng.random() < 0.5, 'mix': rng.random() < 0.25, 'idx_read': rng.random() < 0.5})
        elif o == 'pipe-out': ops.append({'op': 'pipe-out', 'u': u, 'i': index(3, 0.1), 's': sref(), 'pow': rng.random() < 0.5, 'mix': rng.random() < 0.25, 'idx_read': rng.random() < 0.5})
        elif o == 'streams-unit':
            form = rng.choice([None, None, 'tuple', 'bare', 'bare', 'list', 'list', 'ndarray'])
            op = {'op': o, 'u': u, 'side': side, 'ss': [sref() for _ in range(1 if form == 'bare' else rng.randrange(1, 3))]}
            if form: op['form'] = form
            ops.append(op)
        elif o == 'construct':
            cfg = (rng.randrange(1, 3), rng.randrange(1, 3), rng.random() < 0.5, rng.random() < 0.5)
            form = rng.choice([None, None, 'single', 'str', 'strs', 'auto', 'mixed', 'over', 'none-fixed'])
            if form == 'over':
                op = {'op': o, 'cfg': list(cfg), 'ins': [sref() for _ in range(cfg[0] + rng.randrange(0, 3))], 'outs': [sref() for _ in range(cfg[1] + rng.randrange(0, 3))]}
            elif form == 'none-fixed':
                op = {'op': o, 'cfg': list(cfg), 'ins': [sref() if rng.random() < 0.6 else None for _ in range(rng.randrange(0, cfg[0] + 1))],
                      'outs': [sref() if rng.random() < 0.6 else None for _ in range(rng.randrange(0, cfg[1] + 1))]}
            else:
                op = {'op': o, 'cfg': list(cfg), 'ins': [sref() for _ in range(rng.randrange(0, cfg[0] + 1))], 'outs': [sref() for _ in range(rng.randrange(0, cfg[1] + 1))]}
            if form: op['form'] = form; op['tag'] = len(ops)
            ops.append(op)
            n_units += 1
        elif o == 'ports':
            mode = rng.choice(['item', 'slice', 'direct'])
            op = {'op': o, 'side': side, 'of': [pref(side) if rng.random() < 0.75 else sref() for _ in range(rng.randrange(1, 4))], 'mode': mode, 'sort': rng.random() < 0.3}
            if mode == 'slice':
                op['a'] = rng.choice([None, 0, 1]); op['b'] = rng.choice([None, 1, 2, -1])
                op['ss'] = [sref() if rng.random() < 0.85 else None for _ in range(rng.randrange(0, 3))]
            else:
                op['k'] = index(3); op['ss'] = [sref() if rng.random() < 0.9 else None]
            ops.append(op)
        elif o == 'temp-conn': ops.append({'op': o, 'u': u, 'v': rng.randrange(n_units)})
    if rng.random() < 0.04:       # last, because on this tree the call cannot be followed by anything (see the recorded defect)
        ops.append({'op': 'reverse', 'u': rng.randrange(n_units), 'side': rng.choice(['in', 'out'])})
    case = {'t': 'hist', 'configs': [list(c) for c in configs], 'ns': ns, 'ops': ops}
    if directed: case['directed'] = True
    return case


def norm(op):
    op = dict(op)
    for k in REF_KEYS_1:
        if k in op and isinstance(op[k], list): op[k] = tuple(op[k])
    for k in REF_KEYS_N:
        if k in op: op[k] = [tuple(r) if isinstance(r, list) else r for r in op[k]]
    if 'cfg' in op: op['cfg'] = tuple(op['cfg'])
    return op


def run_history(case, rec):
    rec.begin_case(case)
    AbstractStream.registry.clear()           # construction from string IDs registers the new streams: every case starts from an empty registry
    U = Universe([tuple(c) for c in case['configs']], case['ns'])
    ops = [norm(o) for o in case['ops']]
    n_eff, ok = run_sequence(U, ops, rec, 'history', case)
    if ok and n_eff >= 2 and U.seen_double: rec.mark_nontrivial(case_hash(case))


def replay(case, rec):
    tmo.settings.set_thermo(['Water'], cache=True)
    if case['t'] == 'exh':
        AbstractStream.registry.clear()
        U = fresh_universe(); rec.begin_case(case)
        run_sequence(U, [norm(o) for o in case['ops']], rec, 'exhaustive', case)
    else:
        run_history(case, rec)


def run(rec, rng, tier, shard, nshards):
    tmo.settings.set_thermo(['Water'], cache=True)
    quick = tier == 'quick'
    depth = 2 if quick else 3
    n = exhaustive(rec, depth, shard, nshards)
    rec.notes['exhaustive'] = False
    rec.notes['exhaustive_subspace'] = (f'all operation sequences of the bounded universe up to depth {depth} are executed (first-level operations partitioned over the shards); '
                                        'the added op shapes take part in the first two positions (every sequence up to length 2 over the whole alphabet; longer ones continue with the first alphabet '
                                        'after a first operation of either kind)')
    nh = 3000 if quick else 60000
    for i in range(nh):
        case = gen_history(rng)
        try:
            run_history(case, rec)
        except Exception as e:
            rec.exception('harness', e, what=f'harness error: {type(e).__name__}: {e}')
        if i % 501 == 0: rec.sample({'t': 'hist', 'configs': case['configs'], 'ns': case['ns'], 'ops': case['ops'][:8], 'n_ops': len(case['ops'])})
    for i in range(nh // 5):
        case = gen_history(rng, directed=True)
        try:
            run_history(case, rec)
            rec.hit('directed-histories')
        except Exception as e:
            rec.exception('harness', e, what=f'harness error: {type(e).__name__}: {e}')
